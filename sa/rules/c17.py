"""C17 -- thin films / Fresnel coefficients (NORM identities)."""
import ast

from ..core.db import AnalysisError, norm_stmt, walk_no_nested
from ..core.interp import Const, Tup, Unknown, Value
from .common import norm_interp, returns, as_rat, show, Sym, Arr, Rat, _rat
from .purity import input_mutations

M = 'prysm.thinfilm.'


def _fresnel(db, it, dom, name):
    fi = db.func(M + name)
    ps = returns(it.run(fi), fi)
    if len(ps) != 1:
        raise AnalysisError('%s: expected one path' % fi.qual)
    return fi, as_rat(dom, ps[0].value, fi.qual + ' return')


def batch_rules(run, db):
    """multilayer_stack_rt: the batched branch of every `if angles.ndim > 1` is the scalar branch with `[k]` replaced by `[:, k]`
    (same callee, same arguments, same keyword flags)."""
    import copy
    f = db.func('prysm.thinfilm.multilayer_stack_rt')
    from ..core.pattern import find
    # the batched/scalar pairs are the two-armed tests `<layer angle array>.ndim > 1`; the array is the local the Snell angles are stored into
    tests = {id(t_) for b_, t_ in find(f.node, 'V_a.ndim > 1') if b_['V_a'] not in f.params}
    ifs = [n for n in walk_no_nested(f.node) if isinstance(n, ast.If) and id(n.test) in tests and n.orelse]
    if not ifs:
        # one code path for stacks of any rank: there are no twin branches that could drift apart
        run.ok('C17.batch', f.qual, 'no separate batched / scalar branches (one code path for every rank)')

    class Norm(ast.NodeTransformer):
        def visit_Subscript(self, node):
            self.generic_visit(node)
            sl = node.slice
            if isinstance(sl, ast.Tuple) and len(sl.elts) == 2 and isinstance(sl.elts[0], ast.Slice) and sl.elts[0].lower is None and sl.elts[0].upper is None and sl.elts[0].step is None:
                return ast.Subscript(value=node.value, slice=sl.elts[1], ctx=node.ctx)
            if isinstance(node.value, ast.Attribute) and node.value.attr == 'shape' and isinstance(sl, ast.Constant) and sl.value == 1:
                return ast.Call(func=ast.Name(id='len', ctx=ast.Load()), args=[node.value.value], keywords=[])
            return node
    for n in ifs:
        a = [ast.dump(Norm().visit(copy.deepcopy(st))) for st in n.body]
        b = [ast.dump(Norm().visit(copy.deepcopy(st))) for st in n.orelse]
        ta = '; '.join(ast.unparse(Norm().visit(copy.deepcopy(st))) for st in n.body)
        tb = '; '.join(ast.unparse(st) for st in n.orelse)
        run.check(a == b, 'C17.batch', f.qual, 'branch pair at `%s`' % norm_stmt(n.body[0])[:50], 'the batched branch is the scalar branch applied along the batch axis (same calls, arguments and flags)',
                  'batched and scalar branches differ beyond the batch index: batched `%s` vs scalar `%s` -- batched stacks are evaluated differently from the same stacks one at a time' % (ta, tb), f.loc(n))


def layer_pairing_rules(run, db):
    """multilayer_stack_rt on a concrete small stack (three layers; and two layers x a batch of two): layer k's characteristic matrix is
    built from (wavelength, d_k, n_k, theta_k) with theta_k the Snell angle of n_k for the ambient pair, the matrices reach the multilayer
    routine in layer order together with the last index and its angle.  Decided on the values bound to the callees' parameters, however
    the routine walks the layers (index loops, zip, generators)."""
    from . import fixedorders as FO
    from .common import bind_call
    from ..domains.normdom import Arr
    fs = db.func(M + 'multilayer_stack_rt')
    for pol in ('p', 's'):
        for L, B in ((3, None), (2, 2)):
            it, dom = FO.mk_interp(db)
            R = dom.R
            calls = []

            def elementwise(name, args):
                arrs = [a for a in args if isinstance(a, Arr)]
                if not arrs:
                    return dom.func_atom(name, list(args))
                return Arr(arrs[0].shape, [dom.func_atom(name, [(a.data[k] if isinstance(a, Arr) else a) for a in args]) for k in range(len(arrs[0].data))])

            def call_prysm(fi, args, kwargs, node):
                if fi.module.name != 'prysm.thinfilm':
                    return None
                b = bind_call(fi, args, kwargs)
                if fi.name == 'snell_aor':
                    dg = b.get('degrees', Const(True))
                    return elementwise('snell_deg' if (isinstance(dg, Const) and dg.v) else 'snell', [b.get('n0'), b.get('n1'), b.get('theta')])
                if fi.name in ('characteristic_matrix_p', 'characteristic_matrix_s'):
                    calls.append(('char', fi.name, b, node))
                    k = sum(1 for c in calls if c[0] == 'char') - 1
                    return Arr((2, 2), [dom.sym('M%d_%d%d' % (k, i, j)) for i in range(2) for j in range(2)])
                if fi.name in ('multilayer_matrix_p', 'multilayer_matrix_s'):
                    calls.append(('multi', fi.name, b, node))
                    return Arr((2, 2), [dom.sym('A%d%d' % (i, j)) for i in range(2) for j in range(2)])
                if fi.name in ('rtot', 'ttot'):
                    return dom.sym(fi.name)
                return None
            dom.call_prysm = call_prysm
            if B is None:
                stack = Arr((L, 2), [dom.sym('%s%d' % (q, k)) for k in range(L) for q in ('n', 'd')])
                layer = lambda q, k: dom.rat(dom.sym('%s%d' % (q, k)))
            else:
                stack = Arr((L, 2, B), [dom.sym('%s%d_%d' % (q, k, b_)) for k in range(L) for q in ('n', 'd') for b_ in range(B)])
                layer = lambda q, k: [dom.rat(dom.sym('%s%d_%d' % (q, k, b_))) for b_ in range(B)]
            res = [p for p in it.run(fs, kwargs=lambda: {'stack': stack, 'wavelength': dom.sym('wvl'), 'polarization': Const(pol), 'aoi': dom.sym('aoi'), 'ambient_index': dom.sym('n_amb')})
                   if p.outcome == 'return']
            label_ = "polarization '%s', %d layers%s" % (pol, L, '' if B is None else ', batch of %d' % B)
            if len(res) != 1 or dom.lost:
                raise AnalysisError('multilayer_stack_rt (%s): not followed on a concrete stack (%d returning paths%s)' % (label_, len(res), ', ' + str(dom.lost) if dom.lost else ''))
            chars = [c for c in calls if c[0] == 'char']
            multis = [c for c in calls if c[0] == 'multi']
            if len(chars) != L or len(multis) != 1:
                raise AnalysisError('multilayer_stack_rt (%s): expected %d characteristic matrices and one multilayer matrix, saw %d / %d' % (label_, L, len(chars), len(multis)))

            def rats(v):
                if isinstance(v, Arr):
                    return [dom.rat(x) for x in v.data]
                r_ = dom.rat(v)
                return r_ if B is None else [r_] * B

            def same(a, b):
                if isinstance(a, list) or isinstance(b, list):
                    return isinstance(a, list) and isinstance(b, list) and len(a) == len(b) and all(x is not None and y is not None and x == y for x, y in zip(a, b))
                return a is not None and b is not None and a == b
            # the angle in the ambient medium, as handed to Snell's law (radians after the one conversion)
            th_in = None
            for k, (_, name, b, node) in enumerate(chars):
                n_k, d_k, th_k = rats(b.get('n')), rats(b.get('d')), b.get('theta')
                okn, okd = same(n_k, layer('n', k)), same(d_k, layer('d', k))
                cells = th_k.data if isinstance(th_k, Arr) else [th_k]
                okt = True
                for j, c in enumerate(cells):
                    r_ = dom.rat(c)
                    info = R.info.get(sorted(r_.atoms())[0]) if r_ is not None and len(r_.atoms()) == 1 else None
                    if r_ is None:
                        raise AnalysisError('multilayer_stack_rt (%s): the angle handed to layer %d is not followed (%r)' % (label_, k, c))
                    if info is None or info[0] != 'snell':
                        okt = False          # a followed value that is not the Snell angle of anything (the angle of incidence itself, an angle in degrees ...)
                        continue
                    a_n0, a_n1, a_th = [Rat(x) if not isinstance(x, Rat) else x for x in info[1]]
                    want_n = layer('n', k) if B is None else layer('n', k)[j]
                    okt = okt and a_n1 == want_n and a_n0 == dom.rat(dom.sym('n_amb'))
                    th_in = a_th if th_in is None else th_in
                    okt = okt and a_th == th_in
                run.check(okn and okd and okt, 'C17.batch', fs.qual, 'layer pairing:%s:layer %d%s' % (pol, k, '' if B is None else ':batch'),
                          'layer %d is built from its own thickness, index and the Snell angle of that index [%s]' % (k, label_),
                          'layer %d (%s) is built from n = %s, d = %s and an angle %s: thickness, index and propagation angle of one layer do not belong together'
                          % (k, label_, b.get('n'), b.get('d'), th_k), fs.loc(node))
            _, name, b, node = multis[0]
            mj = b.get('characteristic_matrices')
            items = list(mj.items) if isinstance(mj, Tup) else None
            order = None
            if items is not None and len(items) == L and all(isinstance(x, Arr) and dom.rat(x.data[0]) is not None for x in items):
                order = [dom.rat(x.data[0]).key() for x in items]
            okm = order == ['M%d_00' % k for k in range(L)]
            okl = same(rats(b.get('nnp1')), layer('n', L - 1))
            run.check(okm and okl, 'C17.batch', fs.qual, 'stack order:%s%s' % (pol, '' if B is None else ':batch'),
                      'the characteristic matrices reach the multilayer product in layer order, with the index of the last layer [%s]' % label_,
                      'the multilayer matrix (%s) receives the layers as %s and the last index %s' % (label_, order, b.get('nnp1')), fs.loc(node))


def check(run, db, tier):
    it, dom = norm_interp(db)
    R = dom.R
    run.trust('NORM canonical forms over Q[atoms] with sin^2 -> 1-cos^2, I^2 -> -1 (sa/core/norm.py)',
              'abstract inlining of straight-line code and resolved prysm callees (sa/core/interp.py)',
              'energy balance R + (n1 cos t1 / n0 cos t0) T = 1 for a lossless interface (textbook)')
    run.assume('indices and angles are treated as real symbols; Snell relation between theta0 and theta1 is not needed '
               'for the identities checked (they hold for independent cosines)')
    run.rule('C17.energy', 'r^2 + (n1 cos(t1))/(n0 cos(t0)) * t^2 == 1 as a polynomial identity, s and p')
    run.rule('C17.sibling', 'r and t of one polarisation share their denominator')
    run.rule('C17.interface', 'r of a one-layer stack whose layer is the exit medium equals the Fresnel r for every thickness; t equals Fresnel t at zero thickness')
    run.rule('C17.matrix', 'characteristic matrices have unit determinant and are the identity at zero thickness')
    run.rule('C17.rtot', 'rtot = A10/A00 and ttot = 1/A00')
    run.rule('C17.dispatch', 'polarisation p/s selects the p/s characteristic and multilayer matrices')
    run.rule('C17.pure', 'no thin-film routine writes in place through an argument or a view of one (repeated/batched calls agree)')
    run.rule('C17.snell', 'snell_aor == arcsin(n0/n1 sin(theta)); brewster == arctan2(n1, n0); critical == arcsin(n0/n1)')

    coefs = {}
    for nm in ('fresnel_rs', 'fresnel_ts', 'fresnel_rp', 'fresnel_tp'):
        coefs[nm] = _fresnel(db, it, dom, nm)
    n0, n1 = R.atom('n0'), R.atom('n1')
    c0, c1 = R.trig('cos', R.atom('theta0')), R.trig('cos', R.atom('theta1'))
    adm = Rat(n1 * c1, n0 * c0)
    for pol in 's', 'p':
        fr, r = coefs['fresnel_r' + pol]
        ft, t = coefs['fresnel_t' + pol]
        # sibling denominators: r.den * t.den' proportional -> r*den_t is polynomial multiple. decide: r.den == t.den
        sib = (r.den == t.den) or (r.den == -t.den)
        run.check(sib, 'C17.sibling', fr.qual, norm_stmt(fr.node.body[-1]),
                  'den(%s) == den(%s) == %s' % (fr.name, ft.name, r.den.key()),
                  'denominator %s differs from that of %s (%s)' % (r.den.key(), ft.name, t.den.key()), fr.loc())
        e = r * r + adm * t * t
        ok = (e == 1)
        # attribute an energy failure to the member whose denominator is not the symmetric one
        culprit = fr
        if not ok:
            if pol == 'p':
                good = (n0 * c1 + n1 * c0)
            else:
                good = (n0 * c0 + n1 * c1)
            if (t.den == good or t.den == -good) and not (r.den == good or r.den == -good):
                culprit = fr
            elif (r.den == good or r.den == -good) and not (t.den == good or t.den == -good):
                culprit = ft
        run.check(ok, 'C17.energy', culprit.qual, 'energy:' + pol,
                  '%s^2 + adm*%s^2 == 1' % (fr.name, ft.name),
                  'R + T*admittance = %s != 1 for %s-polarisation' % (e.key(), pol), culprit.loc())

    # characteristic matrices
    mats = {}
    for pol in 's', 'p':
        fi = db.func(M + 'characteristic_matrix_' + pol)
        ps = returns(it.run(fi), fi)
        m = ps[0].value
        if not (isinstance(m, Arr) and m.shape == (2, 2)):
            raise AnalysisError('%s does not return a literal 2x2 matrix' % fi.qual)
        mats[pol] = (fi, m)
        a, b, c, d = [as_rat(dom, x, 'matrix entry') for x in m.data]
        det = a * d - b * c
        run.check(det == 1, 'C17.matrix', fi.qual, 'det', 'det M_%s == 1' % pol, 'det M = %s != 1' % det.key(), fi.loc())
        ps0 = returns(it.run(fi, kwargs=lambda: {'d': Const(0)}), fi)
        m0 = ps0[0].value
        ident = isinstance(m0, Arr) and [dom.rat(x) for x in m0.data] == [Rat(R.const(v)) for v in (1, 0, 0, 1)]
        run.check(ident, 'C17.matrix', fi.qual, 'zero-thickness', 'M_%s(d=0) == I' % pol,
                  'M(d=0) = %s is not the identity' % show(dom, m0), fi.loc())
        # structure: off-diagonal product == -sin^2 and diagonal equal
        run.check(a == d, 'C17.matrix', fi.qual, 'diag', 'M00 == M11', 'diagonal entries differ', fi.loc())
        # exact reference (BYU optics book eq. 4.49/4.55): the sign of the off-diagonal terms fixes the
        # time convention shared with the complex index n + i k (a flipped sign turns absorption into gain)
        lam, dd, nn, th = [Rat(R.atom(x)) for x in ('lambda_', 'd', 'n', 'theta')]
        ct = _rat(R.trig('cos', R.atom('theta')))
        beta = 2 * Rat(R.atom('pi')) * nn * dd * ct / lam
        sb, cb = _rat(R.trig('sin', beta)), _rat(R.trig('cos', beta))
        mI = Rat(-R.I)
        ref = [cb, mI * sb * ct / nn, mI * nn * sb / ct, cb] if pol == 'p' else [cb, mI * sb / (ct * nn), mI * nn * sb * ct, cb]
        run.check([a, b, c, d] == ref, 'C17.matrix', fi.qual, 'reference', 'M_%s equals the reference characteristic matrix (off-diagonals -i sin(beta) x admittance)' % pol,
                  'M_%s = %s differs from the reference [[cos b, -i sin b %s], [-i n sin b %s, cos b]]' % (pol, show(dom, m), 'cos/n' if pol == 'p' else '/(n cos)', '/cos' if pol == 'p' else 'cos'), fi.loc())

    # rtot / ttot
    fr, ft = db.func(M + 'rtot'), db.func(M + 'ttot')
    A = lambda: [Arr((2, 2), [dom.sym('A%d%d' % (i, j), real=False) for i in range(2) for j in range(2)])]
    rv = returns(it.run(fr, args=A), fr)[0].value
    tv = returns(it.run(ft, args=A), ft)[0].value
    A00, A10 = Rat(R.atom('A00')), Rat(R.atom('A10'))
    run.check(dom.rat(rv) is not None and dom.rat(rv) == A10 / A00, 'C17.rtot', fr.qual, norm_stmt(fr.node.body[-1]),
              'rtot == A10/A00', 'rtot = %s, expected A10/A00' % show(dom, rv), fr.loc())
    run.check(dom.rat(tv) is not None and dom.rat(tv) == 1 / A00, 'C17.rtot', ft.qual, norm_stmt(ft.node.body[-1]),
              'ttot == 1/A00', 'ttot = %s, expected 1/A00' % show(dom, tv), ft.loc())

    # one-interface stack == Fresnel
    for pol in 's', 'p':
        fm = db.func(M + 'multilayer_matrix_' + pol)
        fc, _ = mats[pol]
        for label, dval in (('any d', None), ('d=0', Const(0))):
            def args():
                lam, th0, th1 = dom.sym('lambda_'), dom.sym('theta0'), dom.sym('theta1')
                d = dval if dval is not None else dom.sym('d')
                Mj = it.call_funcinfo(fc, [lam, d, dom.sym('n1'), th1], {}, None, None)
                return [dom.sym('n0'), th0, Tup([Mj], 'list'), dom.sym('n1'), th1]
            ps = returns(it.run(fm, args=args), fm)
            for p in ps:
                Amat = p.value
                if not (isinstance(Amat, Arr) and Amat.shape == (2, 2)):
                    raise AnalysisError('%s: result is not a 2x2 matrix on path %s: %r' % (fm.qual, p.conds, Amat))
                a00, a10 = as_rat(dom, Amat.get(0, 0), 'A00'), as_rat(dom, Amat.get(1, 0), 'A10')
                r = a10 / a00
                _, rref = coefs['fresnel_r' + pol]
                if label == 'any d':
                    run.check(r == rref, 'C17.interface', fm.qual, 'r:%s' % pol,
                              'rtot(one-layer stack, %s) == fresnel_r%s for every thickness' % (pol, pol),
                              'one-interface stack gives r = %s but fresnel_r%s = %s' % (r.key(), pol, rref.key()), fm.loc())
                else:
                    t = 1 / a00
                    _, tref = coefs['fresnel_t' + pol]
                    run.check(t == tref, 'C17.interface', fm.qual, 't:%s' % pol,
                              'ttot(zero-thickness stack, %s) == fresnel_t%s' % (pol, pol),
                              'zero-thickness stack gives t = %s but fresnel_t%s = %s' % (t.key(), pol, tref.key()), fm.loc())

    # dispatch in multilayer_stack_rt, by interpretation with a concrete polarisation: which of the p / s matrix routines are reached
    from ..core.interp import Interp, Domain, _Break, _Continue
    from .common import capture_calls

    class Ang(Value):
        """the caller's angle of incidence, in `unit`"""
        def __init__(self, unit):
            self.unit = unit

    class Amb(Value):
        """the caller's ambient index"""

    class CallDomain(Domain):
        """everything unknown except the angle of incidence (with its unit) and the ambient index; loops over unknown ranges run
        their body once (what is called there, and with what, is what matters)."""
        def call_ext(self, dotted, args, kwargs, node):
            last = dotted.rsplit('.', 1)[-1]
            a0 = args[0] if args else None
            if isinstance(a0, Ang) and dotted.startswith('numpy.'):
                if last in ('radians', 'deg2rad') and a0.unit == 'deg':
                    return Ang('rad')
                if last in ('degrees', 'rad2deg') and a0.unit == 'rad':
                    return Ang('deg')
                if last in ('asarray', 'array', 'float64', 'asanyarray'):
                    return a0
            return None

        def loop(self, node, frame):
            if isinstance(node, ast.For):
                for leaf in ast.walk(node.target):
                    if isinstance(leaf, ast.Name):
                        frame.env[leaf.id] = Unknown('loop variable')
            # twice: the second pass sees what the first one left behind (loop-carried locals)
            for _ in range(2):
                try:
                    self.interp.exec_block(node.body, frame)
                except _Continue:
                    continue
                except _Break:
                    break
            return True

        def comprehension(self, node, frame):
            from ..core.interp import Frame
            fr = Frame(frame.fi, frame.module, {}, parent=frame)
            for g in node.generators:
                for leaf in ast.walk(g.target):
                    if isinstance(leaf, ast.Name):
                        fr.env[leaf.id] = Unknown('comprehension variable')
            elt = node.elt if not isinstance(node, ast.DictComp) else node.value
            return Tup([self.interp.ev(elt, fr)], 'list')
    fs = db.func(M + 'multilayer_stack_rt')
    four = {M + 'characteristic_matrix_p', M + 'characteristic_matrix_s', M + 'multilayer_matrix_p', M + 'multilayer_matrix_s'}
    for pol in ('p', 's'):
        domc = CallDomain()
        itc = Interp(db, domc)
        paths, calls = capture_calls(itc, domc, fs, lambda: {'stack': Unknown('stack'), 'wavelength': Unknown('wvl'), 'polarization': Const(pol), 'aoi': Ang('deg'), 'ambient_index': Amb()},
                                     four | {M + 'snell_aor', M + 'rtot', M + 'ttot'}, lambda fi_, b_: Unknown(fi_.name))
        # Snell's invariant n sin(theta): every layer angle comes from the ambient pair (ambient index, angle of incidence), and the
        # callee is told the unit the angle is in at that point
        sn = [c_ for c_ in calls if c_[0].name == 'snell_aor']
        if not sn:
            raise AnalysisError('C17.batch: multilayer_stack_rt never reaches snell_aor')
        seen = set()
        for fi_, b_, node_, _c in sn:
            sig = (id(node_), type(b_.get('theta')).__name__, getattr(b_.get('theta'), 'unit', None), type(b_.get('n0')).__name__, repr(b_.get('degrees')))
            if sig in seen:
                continue
            seen.add(sig)
            th, n0_, dg = b_.get('theta'), b_.get('n0'), b_.get('degrees', Const(True))
            if not isinstance(th, Ang) and not isinstance(n0_, Amb):
                # neither member of the ambient pair: some other way of propagating the invariant (layer to layer, say), not followed here
                raise AnalysisError('C17.batch: snell_aor at line %d is handed neither the angle of incidence nor the ambient index' % node_.lineno)
            run.check(isinstance(th, Ang) and isinstance(n0_, Amb), 'C17.batch', fs.qual, 'snell pairing:%s:%s' % (pol, norm_stmt(node_)[:40]),
                      'the layer angle is obtained from the ambient pair (ambient_index, aoi): n0 sin(aoi) = n_i sin(theta_i)',
                      'snell_aor is called with the (index, angle) pair (%s, %s): the angle of incidence in the ambient medium is combined with the index of another '
                      'medium, so n sin(theta) is not conserved through the stack' % tuple(ast.unparse(a_) for a_ in (node_.args + [k.value for k in node_.keywords])[:3:2]), fs.loc(node_))
            if isinstance(th, Ang):
                if not isinstance(dg, Const):
                    raise AnalysisError('C17.batch: degrees flag of snell_aor at line %d is not a constant' % node_.lineno)
                run.check(bool(dg.v) == (th.unit == 'deg'), 'C17.batch', fs.qual, 'angle units:%s:%s' % (pol, norm_stmt(node_)[:40]),
                          'snell_aor is told degrees=%s for an angle in %s' % (bool(dg.v), th.unit),
                          'snell_aor is told degrees=%s but the angle of incidence is in %s at this point: it is converted %s' % (bool(dg.v), th.unit, 'twice' if th.unit == 'rad' else 'never'), fs.loc(node_))
        used = sorted({c_[0].name for c_ in calls if c_[0].qual in four})
        if not used:
            raise AnalysisError("C17.dispatch: no characteristic / multilayer matrix routine is reached for polarization '%s'" % pol)
        run.check(used == ['characteristic_matrix_' + pol, 'multilayer_matrix_' + pol], 'C17.dispatch', fs.qual, "polarization '%s'" % pol,
                  "polarization '%s' uses characteristic_matrix_%s and multilayer_matrix_%s" % (pol, pol, pol), "polarization '%s' reaches %s" % (pol, used), fs.loc())
    run.group(layer_pairing_rules, run, db)
    calls = {ast.unparse(n.func): n for n in walk_no_nested(fs.node) if isinstance(n, ast.Call)}
    for nm in ('rtot', 'ttot'):
        run.check(nm in calls, 'C17.dispatch', fs.qual, nm, '%s applied to the multilayer matrix' % nm,
                  '%s is never applied' % nm, fs.loc())

    # snell / brewster / critical
    fi = db.func(M + 'snell_aor')
    ps = returns(it.run(fi, kwargs=lambda: {'degrees': Const(False)}), fi)
    th, a0, a1 = R.atom('theta'), R.atom('n0'), R.atom('n1')
    want = R.func('lib.scimath.arcsin', [Rat(a0 * R.trig('sin', th), a1)])
    got = dom.rat(ps[0].value)
    alt = [R.func(f, [Rat(a0 * R.trig('sin', th), a1)]) for f in ('arcsin', 'emath.arcsin', 'lib.scimath.arcsin')]
    run.check(got is not None and any(got == w for w in alt), 'C17.snell', fi.qual, norm_stmt(fi.node.body[-1]),
              'snell_aor == arcsin(n0 sin(theta)/n1)', 'snell_aor = %s' % show(dom, ps[0].value), fi.loc())
    fi = db.func(M + 'brewsters_angle')
    ps = returns(it.run(fi, kwargs=lambda: {'deg': Const(False)}), fi)
    got = dom.rat(ps[0].value)
    run.check(got is not None and got == R.func('arctan2', [Rat(a1), Rat(a0)]), 'C17.snell', fi.qual, 'brewster',
              'brewsters_angle == arctan2(n1, n0)', 'brewsters_angle = %s' % show(dom, ps[0].value), fi.loc())
    fi = db.func(M + 'critical_angle')
    ps = returns(it.run(fi, kwargs=lambda: {'deg': Const(False)}), fi)
    got = dom.rat(ps[0].value)
    run.check(got is not None and got == R.func('arcsin', [Rat(a0, a1)]), 'C17.snell', fi.qual, 'critical',
              'critical_angle == arcsin(n0/n1)', 'critical_angle = %s' % show(dom, ps[0].value), fi.loc())
    # history independence: no routine writes through its arguments (batched == loop, repeated calls agree)
    for nm in ('multilayer_stack_rt', 'multilayer_matrix_p', 'multilayer_matrix_s', 'characteristic_matrix_p', 'characteristic_matrix_s', 'rtot', 'ttot', 'snell_aor'):
        fi = db.func(M + nm)
        muts = input_mutations(fi)
        for st, name in muts:
            run.finding('C17.pure', fi.qual, norm_stmt(st), 'in-place write through `%s`, which may alias the caller\'s array: a second call (other polarisation, per-element loop over the same stack) sees modified data' % name, fi.loc(st))
        if not muts:
            run.ok('C17.pure', fi.qual, 'no in-place write through an argument or a view of one')
    run.rule('C17.batch', 'multilayer_stack_rt: batched branches equal the scalar branches along the batch axis; the angle of incidence is converted to radians once')
    run.group(batch_rules, run, db)
    run.require_instances('C17.batch', 4)
    run.require_instances('C17.energy', 2)
    run.require_instances('C17.interface', 4)
    run.require_instances('C17.matrix', 6)
