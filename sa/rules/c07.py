"""C07 -- polynomial bases equal their mathematical definitions."""
import ast
import re

from ..core.db import AnalysisError, norm_stmt, walk_no_nested
from ..core.interp import Const, Tup, Unknown
from ..core.norm import Rat
from ..domains.normdom import Sym
from . import polyfam as PF
from .common import norm_interp, returns, as_rat

PJ = PF.PJ


def abc_rules(run, db):
    it, dom = norm_interp(db)
    R = dom.R
    f = db.func(PJ + 'recurrence_abc')
    res = returns(it.run(f), f)
    a, b, n = [Rat(R.atom(v)) for v in ('alpha', 'beta', 'n')]
    A, B, C = PF.jacobi_abc(dom, a, b, n)
    gen = [p for p in res if any(t is False for _, t in p.conds)]
    spec = [p for p in res if p.conds and all(t is True for _, t in p.conds)]
    if not gen:
        raise AnalysisError('recurrence_abc: general branch not found')
    for p in gen:
        v = p.value
        if not (isinstance(v, Tup) and len(v.items) == 3):
            raise AnalysisError('recurrence_abc does not return (A, B, C)')
        for nm, got, want in zip('ABC', v.items, (A, B, C)):
            g = as_rat(dom, got, nm)
            run.check(g == want, 'C07.abc', f.qual, 'general ' + nm, 'general %s_n equals DLMF 18.9.2' % nm, 'recurrence coefficient %s_n = %s differs from DLMF 18.9.2: %s' % (nm, g.key(), want.key()), f.loc())
    for p in spec:
        v = p.value
        # the special branch (n = 0, a+b in {0,-1}) must agree with the general one after cancelling the vanishing factor
        zero = Rat(R.const(0))
        A0, B0, _ = PF.jacobi_abc(dom, a, b, zero)
        gA, gB = as_rat(dom, v.items[0], 'A'), as_rat(dom, v.items[1], 'B')
        okA = (gA * A0.den - Rat(A0.num)).is_zero() if False else (gA * Rat(A0.den) == Rat(A0.num))
        okB = gB * Rat(B0.den) == Rat(B0.num)
        run.check(okA and okB, 'C07.abc', f.qual, 'special branch', 'the n=0 special case equals the general formula with the vanishing factor cancelled (cross-multiplied)',
                  'special-case coefficients A=%s, B=%s do not agree with the general formula at n=0' % (gA.key(), gB.key()), f.loc())
    run.check(any('n == 0' in c for p in spec for c, _ in p.conds), 'C07.abc', f.qual, 'special guard', 'special case is guarded by n == 0', 'special branch is not guarded by n == 0', f.loc())


def log_obligations(run, dom, rule, seen):
    for e in dom.log:
        key = (e['fn'], e['kind'], e.get('name'), e['ok'], e['text'])
        if key in seen:
            continue
        seen.add(key)
        fi_loc = ''
        if e['ok']:
            run.ok(rule, e['fn'], e['text'])
        else:
            run.finding(rule, e['fn'], '%s %s' % (e['kind'], e.get('name', '')), e['text'], 'line %d' % getattr(e['node'], 'lineno', 0))


def loop_rules(run, db):
    for qual, (fam, pnames) in sorted(PF.VALUE_FUNS.items()):
        f = db.func(qual)
        it, dom = PF.mk_order(db)
        R = dom.R
        kw = lambda: dict({'n': dom.sym('n'), 'x': dom.sym('x')}, **{p: dom.sym(p) for p in pnames})
        res = it.run(f, kwargs=kw)
        pv = {p: Rat(R.atom(p)) for p in pnames}
        fk = dom.fkey(fam, pv)
        seen = set()
        log_obligations(run, dom, 'C07.loop', seen)
        nret = 0
        loop_paths = 0
        for p in res:
            if p.outcome != 'return':
                continue
            nret += 1
            r = dom.rat(p.value)
            if r is None:
                raise AnalysisError('%s: return value outside NORM on path %s: %r' % (qual, p.conds, p.value))
            k = None
            for c, t in p.conds:
                m = re.fullmatch(r'n == (\d+)', c)
                if m and t:
                    k = int(m.group(1))
            if k is not None:
                want = dom.explicit(fam, pv, k)
                run.check(r == want, 'C07.loop', f.qual, 'base case n == %d' % k, '%s(%d) equals the reference closed form' % (f.name, k),
                          '%s(n=%d) returns %s, the reference %s polynomial of order %d is %s' % (f.name, k, r.key(), fam, k, want.key()), f.loc())
            else:
                loop_paths += 1
                want = dom.P(fk, Rat(R.atom('n')))
                got = dom.canon(r, fam, pv)
                run.check(got is not None and got == want, 'C07.loop', f.qual, 'general order', '%s(n) returns %s[n] after the loop (inductive invariant)' % (f.name, fam),
                          '%s(n) returns %s after the loop, which does not denote the order-n polynomial' % (f.name, r.key()), f.loc())
        if loop_paths == 0:
            raise AnalysisError('%s: no path through the recurrence loop' % qual)
        # n == 2 base case may be missing for loops starting at 2 (dickson): fine


def compose_rules(run, db):
    it, dom = norm_interp(db)
    R = dom.R
    # uninterpreted jacobi: composition functions are checked against their defining formula in terms of jacobi()
    calls = []

    def call_prysm(fi, args, kwargs, node):
        if fi.qual in (PJ + 'jacobi', PJ + 'jacobi_der', PJ + 'jacobi_seq', PJ + 'jacobi_der_seq'):
            return dom.func_atom(fi.name, list(args))
        return None
    dom.call_prysm = call_prysm
    n, x = dom.sym('n'), dom.sym('x')
    half = Rat(R.const(1)) / 2

    def J(name, nn, a, b, xx):
        return Rat(R.func(name, [dom.rat(nn), a, b, dom.rat(xx)]))
    one = Const(1)
    CH = 'prysm.polynomials.cheby.'
    table = [
        ('prysm.polynomials.legendre.legendre', lambda: J('jacobi', n, Rat(R.const(0)), Rat(R.const(0)), x), 'jacobi(n,0,0,x)'),
        ('prysm.polynomials.legendre.legendre_der', lambda: J('jacobi_der', n, Rat(R.const(0)), Rat(R.const(0)), x), 'jacobi_der(n,0,0,x)'),
        (CH + 'cheby1', lambda: J('jacobi', n, -half, -half, x) / J('jacobi', n, -half, -half, one), 'P^(-1/2,-1/2)_n(x)/P_n(1)'),
        (CH + 'cheby2', lambda: (dom.rat(n) + 1) * J('jacobi', n, half, half, x) / J('jacobi', n, half, half, one), '(n+1) P^(1/2,1/2)_n(x)/P_n(1)'),
        (CH + 'cheby3', lambda: J('jacobi', n, -half, half, x) / J('jacobi', n, -half, half, one), 'P^(-1/2,1/2)_n(x)/P_n(1)'),
        (CH + 'cheby4', lambda: (2 * dom.rat(n) + 1) * J('jacobi', n, half, -half, x) / J('jacobi', n, half, -half, one), '(2n+1) P^(1/2,-1/2)_n(x)/P_n(1)'),
        (CH + 'cheby1_der', lambda: J('jacobi_der', n, -half, -half, x) / J('jacobi', n, -half, -half, one), "P'_n(x)/P_n(1)"),
        (CH + 'cheby2_der', lambda: (dom.rat(n) + 1) * J('jacobi_der', n, half, half, x) / J('jacobi', n, half, half, one), "(n+1) P'_n(x)/P_n(1)"),
        (CH + 'cheby3_der', lambda: J('jacobi_der', n, -half, half, x) / J('jacobi', n, -half, half, one), "P'^(-1/2,1/2)_n(x)/P_n(1)"),
        (CH + 'cheby4_der', lambda: (2 * dom.rat(n) + 1) * J('jacobi_der', n, half, -half, x) / J('jacobi', n, half, -half, one), "(2n+1) P'^(1/2,-1/2)_n(x)/P_n(1)"),
    ]
    for qual, want_fn, text in table:
        f = db.func(qual)
        res = returns(it.run(f, kwargs=lambda: {'n': n, 'x': x}), f)
        if len(res) != 1:
            raise AnalysisError('%s: expected one path' % qual)
        got = as_rat(dom, res[0].value, qual)
        want = want_fn()
        run.check(got == want, 'C07.compose', f.qual, 'definition', '%s == %s' % (f.name, text), '%s = %s, expected %s = %s' % (f.name, got.key(), text, want.key()), f.loc())
    # Chebyshev value at 1 references: the normalisation constants are those of the kind (T_n(1)=1, U_n(1)=n+1, V_n(1)=1, W_n(1)=2n+1: Mason & Handscomb)


def zernike_rules(run, db):
    Z = 'prysm.polynomials.zernike.'
    for label, mk_m in (('m = 0', lambda d: Const(0)), ('m > 0', lambda d: d.sym('m')), ('m < 0', lambda d: Sym(-d.sym('mm').r))):
        it, dom = PF.mk_order(db)
        R = dom.R
        dom.lower['m'] = 1
        dom.lower['mm'] = 1

        def call_prysm(fi, args, kwargs, node, dom=dom):
            if fi.qual in (PJ + 'jacobi', PJ + 'jacobi_der'):
                return dom.func_atom(fi.name, list(args))
            return None
        dom.call_prysm = call_prysm
        nn = Rat(R.atom('n'))
        mval = mk_m(dom)
        mr = dom.rat(mval)
        # zernike_norm
        f = db.func(Z + 'zernike_norm')
        res = returns(it.run(f, kwargs=lambda: {'n': dom.sym('n'), 'm': mval}), f)
        want = Rat(R.sqrt(nn + 1)) if label == 'm = 0' else Rat(R.sqrt(2 * nn + 2))
        for pth in res:
            got = as_rat(dom, pth.value, 'zernike_norm')
            run.check(got == want, 'C07.compose', f.qual, 'norm %s' % label, 'zernike_norm == sqrt(2(n+1)/(1+delta_m0)) [%s]' % label,
                      'zernike_norm(%s) = %s on path %s, expected %s' % (label, got.key(), pth.conds, want.key()), f.loc())
        # zernike_nm
        f = db.func(Z + 'zernike_nm')
        for norm in (False, True):
            res = [p for p in it.run(f, kwargs=lambda: {'n': dom.sym('n'), 'm': mval, 'r': dom.sym('r'), 't': dom.sym('t'), 'norm': Const(norm)}) if p.outcome == 'return']
            if not res:
                raise AnalysisError('zernike_nm(%s): no returning path' % label)
            got = as_rat(dom, res[0].value, 'zernike_nm')
            for extra in res[1:]:
                if not (as_rat(dom, extra.value, 'zernike_nm') == got):
                    got = as_rat(dom, extra.value, 'zernike_nm')
                    break
            r_, t_ = Rat(R.atom('r')), Rat(R.atom('t'))
            if label == 'm = 0':
                am = Rat(R.const(0))
            else:
                am = dom.func_atom('abs', [mval]).r
            nj = dom.rat(dom.floordiv(nn - am, Rat(R.const(2)), None))
            rad = Rat(R.func('jacobi', [nj, Rat(R.const(0)), am, 2 * r_ * r_ - 1]))
            if label == 'm = 0':
                want = rad
            else:
                az = Rat(R.trig('cos', mr * t_)) if label == 'm > 0' else Rat(R.trig('sin', am * t_))
                want = rad * Rat(R.func('pow', [r_, am])) * az
            if norm:
                want = want * (Rat(R.sqrt(nn + 1)) if label == 'm = 0' else Rat(R.sqrt(2 * nn + 2)))
            run.check(got == want, 'C07.compose', f.qual, 'zernike_nm %s norm=%s' % (label, norm),
                      'Z_n^m == [norm] r^|m| P^(0,|m|)_((n-|m|)/2)(2r^2-1) %s [%s]' % ({'m = 0': '', 'm > 0': 'cos(m t)', 'm < 0': 'sin(|m| t)'}[label], label),
                      'zernike_nm(%s, norm=%s) = %s, expected %s' % (label, norm, got.key(), want.key()), f.loc())


def check(run, db, tier):
    run.trust('ORDER engine: carried-set loop denotation with reference recurrences (sa/domains/order.py); NORM',
              'reference families: DLMF 18.9.1-2 (Jacobi), 18.9 (Hermite, Laguerre), Dickson D_0=2/E_0=1; Chebyshev kinds as normalised Jacobi per Mason & Handscomb')
    run.assume('orders n >= 0; the induction covers every order; orthogonality / unit-RMS integrals, Forbes Q polynomials against the papers, and float growth at high order are not decided')
    run.rule('C07.abc', 'recurrence_abc equals DLMF 18.9.2; its special case equals the general formula after cancellation')
    run.rule('C07.loop', 'value functions: base cases equal the reference closed forms; the recurrence loop preserves "carried names hold orders i-2, i-1" and returns order n')
    run.rule('C07.compose', 'Legendre/Chebyshev (and derivative) definitions as normalised Jacobi polynomials; Zernike norm')
    run.group(abc_rules, run, db)
    run.group(loop_rules, run, db)
    run.group(compose_rules, run, db)
    run.group(zernike_rules, run, db)
    run.require_instances('C07.abc', 4)
    run.require_instances('C07.loop', 20)
    run.require_instances('C07.compose', 10)
