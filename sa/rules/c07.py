"""C07 -- polynomial bases equal their mathematical definitions."""
import ast
import re

from ..core.db import AnalysisError, norm_stmt, walk_no_nested
from ..core.interp import Const, Tup, Unknown
from ..core.norm import Rat
from ..domains.normdom import Sym
from . import polyfam as PF
from .common import norm_interp, returns, as_rat

PJ = PF.PJ


def abc_rules(run, db):
    it, dom = norm_interp(db)
    R = dom.R
    f = db.func(PJ + 'recurrence_abc')
    res = returns(it.run(f), f)
    a, b, n = [Rat(R.atom(v)) for v in ('alpha', 'beta', 'n')]
    A, B, C = PF.jacobi_abc(dom, a, b, n)
    gen = [p for p in res if any(t is False for _, t in p.conds)]
    spec = [p for p in res if p.conds and all(t is True for _, t in p.conds)]
    if not gen:
        raise AnalysisError('recurrence_abc: general branch not found')
    for p in gen:
        v = p.value
        if not (isinstance(v, Tup) and len(v.items) == 3):
            raise AnalysisError('recurrence_abc does not return (A, B, C)')
        for nm, got, want in zip('ABC', v.items, (A, B, C)):
            g = as_rat(dom, got, nm)
            run.check(g == want, 'C07.abc', f.qual, 'general ' + nm, 'general %s_n equals DLMF 18.9.2' % nm, 'recurrence coefficient %s_n = %s differs from DLMF 18.9.2: %s' % (nm, g.key(), want.key()), f.loc())
    for p in spec:
        v = p.value
        # the special branch (n = 0, a+b in {0,-1}) must agree with the general one after cancelling the vanishing factor
        zero = Rat(R.const(0))
        A0, B0, _ = PF.jacobi_abc(dom, a, b, zero)
        gA, gB = as_rat(dom, v.items[0], 'A'), as_rat(dom, v.items[1], 'B')
        okA = (gA * A0.den - Rat(A0.num)).is_zero() if False else (gA * Rat(A0.den) == Rat(A0.num))
        okB = gB * Rat(B0.den) == Rat(B0.num)
        run.check(okA and okB, 'C07.abc', f.qual, 'special branch', 'the n=0 special case equals the general formula with the vanishing factor cancelled (cross-multiplied)',
                  'special-case coefficients A=%s, B=%s do not agree with the general formula at n=0' % (gA.key(), gB.key()), f.loc())
    run.check(any('n == 0' in c for p in spec for c, _ in p.conds), 'C07.abc', f.qual, 'special guard', 'special case is guarded by n == 0', 'special branch is not guarded by n == 0', f.loc())


def log_obligations(run, dom, rule, seen):
    for e in dom.log:
        key = (e['fn'], e['kind'], e.get('name'), e['ok'], e['text'])
        if key in seen:
            continue
        seen.add(key)
        fi_loc = ''
        if e['kind'] == 'refuse':
            raise AnalysisError(e['text'])
        if e['ok']:
            run.ok(rule, e['fn'], e['text'])
        else:
            run.finding(rule, e['fn'], '%s %s' % (e['kind'], e.get('name', '')), e['text'], 'line %d' % getattr(e['node'], 'lineno', 0))


def loop_rules(run, db):
    for qual, (fam, pnames) in sorted(PF.VALUE_FUNS.items()):
        f = db.func(qual)
        it, dom = PF.mk_order(db)
        R = dom.R
        kw = lambda: dict({'n': dom.sym('n'), 'x': dom.sym('x')}, **{p: dom.sym(p) for p in pnames})
        res = it.run(f, kwargs=kw)
        pv = {p: Rat(R.atom(p)) for p in pnames}
        fk = dom.fkey(fam, pv)
        seen = set()
        log_obligations(run, dom, 'C07.loop', seen)
        nret = 0
        loop_paths = 0
        for p in res:
            if p.outcome != 'return':
                continue
            nret += 1
            r = dom.rat(p.value)
            if r is None:
                raise AnalysisError('%s: return value outside NORM on path %s: %r' % (qual, p.conds, p.value))
            k = None
            for c, t in p.conds:
                m = re.fullmatch(r'n == (\d+)', c)
                if m and t:
                    k = int(m.group(1))
            if k is not None:
                want = dom.explicit(fam, pv, k)
                run.check(r == want, 'C07.loop', f.qual, 'base case n == %d' % k, '%s(%d) equals the reference closed form' % (f.name, k),
                          '%s(n=%d) returns %s, the reference %s polynomial of order %d is %s' % (f.name, k, r.key(), fam, k, want.key()), f.loc())
            else:
                loop_paths += 1
                want = dom.P(fk, Rat(R.atom('n')))
                got = dom.canon(r, fam, pv)
                run.check(got is not None and got == want, 'C07.loop', f.qual, 'general order', '%s(n) returns %s[n] after the loop (inductive invariant)' % (f.name, fam),
                          '%s(n) returns %s after the loop, which does not denote the order-n polynomial' % (f.name, r.key()), f.loc())
        if loop_paths == 0:
            raise AnalysisError('%s: no path through the recurrence loop' % qual)
        # n == 2 base case may be missing for loops starting at 2 (dickson): fine


def compose_rules(run, db):
    it, dom = norm_interp(db)
    R = dom.R
    # uninterpreted jacobi: composition functions are checked against their defining formula in terms of jacobi()
    calls = []

    def call_prysm(fi, args, kwargs, node):
        if fi.qual in (PJ + 'jacobi', PJ + 'jacobi_der', PJ + 'jacobi_seq', PJ + 'jacobi_der_seq'):
            return dom.func_atom(fi.name, list(args))
        return None
    dom.call_prysm = call_prysm
    n, x = dom.sym('n'), dom.sym('x')
    half = Rat(R.const(1)) / 2

    def J(name, nn, a, b, xx):
        return Rat(R.func(name, [dom.rat(nn), a, b, dom.rat(xx)]))
    one = Const(1)
    CH = 'prysm.polynomials.cheby.'
    table = [
        ('prysm.polynomials.legendre.legendre', lambda: J('jacobi', n, Rat(R.const(0)), Rat(R.const(0)), x), 'jacobi(n,0,0,x)'),
        ('prysm.polynomials.legendre.legendre_der', lambda: J('jacobi_der', n, Rat(R.const(0)), Rat(R.const(0)), x), 'jacobi_der(n,0,0,x)'),
        (CH + 'cheby1', lambda: J('jacobi', n, -half, -half, x) / J('jacobi', n, -half, -half, one), 'P^(-1/2,-1/2)_n(x)/P_n(1)'),
        (CH + 'cheby2', lambda: (dom.rat(n) + 1) * J('jacobi', n, half, half, x) / J('jacobi', n, half, half, one), '(n+1) P^(1/2,1/2)_n(x)/P_n(1)'),
        (CH + 'cheby3', lambda: J('jacobi', n, -half, half, x) / J('jacobi', n, -half, half, one), 'P^(-1/2,1/2)_n(x)/P_n(1)'),
        (CH + 'cheby4', lambda: (2 * dom.rat(n) + 1) * J('jacobi', n, half, -half, x) / J('jacobi', n, half, -half, one), '(2n+1) P^(1/2,-1/2)_n(x)/P_n(1)'),
        (CH + 'cheby1_der', lambda: J('jacobi_der', n, -half, -half, x) / J('jacobi', n, -half, -half, one), "P'_n(x)/P_n(1)"),
        (CH + 'cheby2_der', lambda: (dom.rat(n) + 1) * J('jacobi_der', n, half, half, x) / J('jacobi', n, half, half, one), "(n+1) P'_n(x)/P_n(1)"),
        (CH + 'cheby3_der', lambda: J('jacobi_der', n, -half, half, x) / J('jacobi', n, -half, half, one), "P'^(-1/2,1/2)_n(x)/P_n(1)"),
        (CH + 'cheby4_der', lambda: (2 * dom.rat(n) + 1) * J('jacobi_der', n, half, -half, x) / J('jacobi', n, half, -half, one), "(2n+1) P'^(1/2,-1/2)_n(x)/P_n(1)"),
    ]
    for qual, want_fn, text in table:
        f = db.func(qual)
        res = returns(it.run(f, kwargs=lambda: {'n': n, 'x': x}), f)
        if len(res) != 1:
            raise AnalysisError('%s: expected one path' % qual)
        got = as_rat(dom, res[0].value, qual)
        want = want_fn()
        run.check(got == want, 'C07.compose', f.qual, 'definition', '%s == %s' % (f.name, text), '%s = %s, expected %s = %s' % (f.name, got.key(), text, want.key()), f.loc())
    # Chebyshev value at 1 references: the normalisation constants are those of the kind (T_n(1)=1, U_n(1)=n+1, V_n(1)=1, W_n(1)=2n+1: Mason & Handscomb)


def zernike_rules(run, db):
    Z = 'prysm.polynomials.zernike.'
    for label, mk_m in (('m = 0', lambda d: Const(0)), ('m > 0', lambda d: d.sym('m')), ('m < 0', lambda d: Sym(-d.sym('mm').r))):
        it, dom = PF.mk_order(db)
        R = dom.R
        dom.lower['m'] = 1
        dom.lower['mm'] = 1

        def call_prysm(fi, args, kwargs, node, dom=dom):
            if fi.qual in (PJ + 'jacobi', PJ + 'jacobi_der'):
                return dom.func_atom(fi.name, list(args))
            return None
        dom.call_prysm = call_prysm
        nn = Rat(R.atom('n'))
        mval = mk_m(dom)
        mr = dom.rat(mval)
        # zernike_norm
        f = db.func(Z + 'zernike_norm')
        res = returns(it.run(f, kwargs=lambda: {'n': dom.sym('n'), 'm': mval}), f)
        want = Rat(R.sqrt(nn + 1)) if label == 'm = 0' else Rat(R.sqrt(2 * nn + 2))
        for pth in res:
            got = as_rat(dom, pth.value, 'zernike_norm')
            run.check(got == want, 'C07.compose', f.qual, 'norm %s' % label, 'zernike_norm == sqrt(2(n+1)/(1+delta_m0)) [%s]' % label,
                      'zernike_norm(%s) = %s on path %s, expected %s' % (label, got.key(), pth.conds, want.key()), f.loc())
        # zernike_nm
        f = db.func(Z + 'zernike_nm')
        for norm in (False, True):
            res = [p for p in it.run(f, kwargs=lambda: {'n': dom.sym('n'), 'm': mval, 'r': dom.sym('r'), 't': dom.sym('t'), 'norm': Const(norm)}) if p.outcome == 'return']
            if not res:
                raise AnalysisError('zernike_nm(%s): no returning path' % label)
            got = as_rat(dom, res[0].value, 'zernike_nm')
            for extra in res[1:]:
                if not (as_rat(dom, extra.value, 'zernike_nm') == got):
                    got = as_rat(dom, extra.value, 'zernike_nm')
                    break
            r_, t_ = Rat(R.atom('r')), Rat(R.atom('t'))
            if label == 'm = 0':
                am = Rat(R.const(0))
            else:
                am = dom.rat(dom.call_ext('builtins.abs', [mval], {}, None))          # the domain's own |m| (m for an order known to be positive)
            nj = dom.rat(dom.floordiv(nn - am, Rat(R.const(2)), None))
            rad = Rat(R.func('jacobi', [nj, Rat(R.const(0)), am, 2 * r_ * r_ - 1]))
            if label == 'm = 0':
                want = rad
            else:
                az = Rat(R.trig('cos', mr * t_)) if label == 'm > 0' else Rat(R.trig('sin', am * t_))
                want = rad * Rat(R.func('pow', [r_, am])) * az
            if norm:
                want = want * (Rat(R.sqrt(nn + 1)) if label == 'm = 0' else Rat(R.sqrt(2 * nn + 2)))
            run.check(got == want, 'C07.compose', f.qual, 'zernike_nm %s norm=%s' % (label, norm),
                      'Z_n^m == [norm] r^|m| P^(0,|m|)_((n-|m|)/2)(2r^2-1) %s [%s]' % ({'m = 0': '', 'm > 0': 'cos(m t)', 'm < 0': 'sin(|m| t)'}[label], label),
                      'zernike_nm(%s, norm=%s) = %s, expected %s' % (label, norm, got.key(), want.key()), f.loc())


def _has(p, text, truth):
    t = text.replace(' ', '')
    return any(c.replace(' ', '') == t and tr is truth for c, tr in p.conds)


def forbes_rules(run, db):
    """Forbes' auxiliary coefficients against the papers (Qbfs: oe-18-19-19700 App. A; Q2d: oe-20-3-2483 App. A)."""
    Q = 'prysm.polynomials.qpoly.'
    it, dom = norm_interp(db)
    R = dom.R
    ATOMS = ('g_qbfs', 'h_qbfs', 'f_qbfs', 'G_q2d', 'F_q2d', 'g_q2d', 'f_q2d', 'gamma', 'kronecker')

    def call_prysm(fi, args, kwargs, node):
        if fi.name in ATOMS:
            a = list(args) + [kwargs[k] for k in ('n', 'm') if k in kwargs and len(args) < 2]
            return dom.func_atom(fi.name, a)
        return None
    dom.call_prysm = call_prysm
    n, m = Rat(R.atom('n')), Rat(R.atom('m'))
    one, two = Rat(R.const(1)), Rat(R.const(2))

    def at(name, *args):
        return Rat(R.func(name, list(args)))

    def paths(qual, kw):
        f = db.func(qual)
        res = [p for p in it.run(f, kwargs=lambda: {k: dom.sym(v) for k, v in kw.items()}) if p.outcome == 'return']
        if not res:
            raise AnalysisError('%s: no returning path' % qual)
        return f, res

    def verdict(f, construct, got, want, text):
        g = as_rat(dom, got, f.name)
        run.check(g == want, 'C07.forbes', f.qual, construct, text, '%s [%s] = %s, the published coefficient is %s' % (f.name, construct, g.key(), want.key()), f.loc())

    # ---- Qbfs: f_0 = 2, f_1 = sqrt(19)/2, g_0 = -1/2, h_(n-2) = -n(n-1)/(2 f_(n-2)), g_(n-1) = -(1 + g_(n-2) h_(n-2))/f_(n-1), f_n = sqrt(n(n+1) + 3 - g_(n-1)^2 - h_(n-2)^2)
    f, res = paths(Q + 'f_qbfs', {'n': 'n'})
    seen = set()
    for p in res:
        if _has(p, 'n == 0', True):
            verdict(f, 'n = 0', p.value, two, 'f_0 = 2'); seen.add(0)
        elif _has(p, 'n == 1', True):
            verdict(f, 'n = 1', p.value, Rat(R.sqrt(Rat(R.const(19)))) / 2, 'f_1 = sqrt(19)/2'); seen.add(1)
        else:
            want = Rat(R.sqrt(n * (n + 1) + 3 - at('g_qbfs', n - 1) * at('g_qbfs', n - 1) - at('h_qbfs', n - 2) * at('h_qbfs', n - 2)))
            verdict(f, 'general n', p.value, want, 'f_n = sqrt(n(n+1) + 3 - g_(n-1)^2 - h_(n-2)^2)'); seen.add(2)
    if seen != {0, 1, 2}:
        raise AnalysisError('f_qbfs: expected the cases n = 0, n = 1, general; found %s' % sorted(seen))
    f, res = paths(Q + 'g_qbfs', {'n_minus_1': 'k'})
    k = Rat(R.atom('k'))
    seen = set()
    for p in res:
        if _has(p, 'n_minus_1 == 0', True):
            verdict(f, 'g_0', p.value, -one / 2, 'g_0 = -1/2'); seen.add(0)
        else:
            verdict(f, 'general', p.value, -(one + at('g_qbfs', k - 1) * at('h_qbfs', k - 1)) / at('f_qbfs', k), 'g_k = -(1 + g_(k-1) h_(k-1))/f_k'); seen.add(1)
    if seen != {0, 1}:
        raise AnalysisError('g_qbfs: expected two cases')
    f, res = paths(Q + 'h_qbfs', {'n_minus_2': 'k'})
    for p in res:
        verdict(f, 'general', p.value, -(k + 2) * (k + 1) / (2 * at('f_qbfs', k)), 'h_k = -(k+2)(k+1)/(2 f_k)')

    # ---- Q2d three-term coefficients (A.3)
    f, res = paths(Q + 'abc_q2d', {'n': 'n', 'm': 'm'})
    D = (4 * n * n - 1) * (m + n - 2) * (m + 2 * n - 3)
    wantA = (2 * n - 1) * (m + 2 * n - 2) * (4 * n * (m + n - 2) + (m - 3) * (2 * m - 1)) / D
    wantB = -2 * (2 * n - 1) * (m + 2 * n - 3) * (m + 2 * n - 2) * (m + 2 * n - 1) / D
    wantC = n * (2 * n - 3) * (m + 2 * n - 1) * (2 * m + 2 * n - 3) / D
    for p in res:
        v = p.value
        if not (isinstance(v, Tup) and len(v.items) == 3):
            raise AnalysisError('abc_q2d does not return (A, B, C)')
        for nm, got, want in zip('ABC', v.items, (wantA, wantB, wantC)):
            verdict(f, nm, got, want, '%s_n^m as published (A.3)' % nm)

    # ---- gamma_n^m = n! (2m+2n-3)!! / (2^(m+1) (m+n-3)! (2n-1)!!): its defining ratios
    f = db.func('prysm.mathops.gamma')
    res = [p for p in it.run(f, kwargs=lambda: {'n': dom.sym('n'), 'm': dom.sym('m')}) if p.outcome == 'return']
    seen = set()
    for p in res:
        if _has(p, 'n == 1 and m == 2', True):
            verdict(f, 'gamma_1^2', p.value, Rat(R.const(3)) / 8, 'gamma_1^2 = 3/8'); seen.add('a')
        elif _has(p, 'n == 1 and m > 2', True):
            verdict(f, 'gamma_1^m', p.value, (2 * m - 1) / (2 * (m - 2)) * at('gamma', one, m - 1), 'gamma_1^m = (2m-1)/(2(m-2)) gamma_1^(m-1)'); seen.add('b')
        else:
            verdict(f, 'gamma_n^m', p.value, n * (2 * m + 2 * n - 3) / ((m + n - 3) * (2 * n - 1)) * at('gamma', n - 1, m),
                    'gamma_n^m = n(2m+2n-3)/((m+n-3)(2n-1)) gamma_(n-1)^m'); seen.add('c')
    if seen != {'a', 'b', 'c'}:
        raise AnalysisError('gamma: expected three cases, found %s' % sorted(seen))

    # ---- G_n^m (A.15) and F_n^m (A.13)
    def fact2(x):
        return at('scipy.special.factorial2', x)

    def fact(x):
        return at('scipy.special.factorial', x)
    pow2 = at('pow', two, m + 1)
    f, res = paths(Q + 'G_q2d', {'n': 'n', 'm': 'm'})
    seen = set()
    for p in res:
        if _has(p, 'n == 0', True):
            verdict(f, 'n = 0', p.value, fact2(2 * m - 1) / (pow2 * fact(m - 1)), 'G_0^m = (2m-1)!!/(2^(m+1) (m-1)!)'); seen.add('0')
        elif _has(p, 'n > 0 and m == 1', True):
            delta = at('kronecker', n, one)
            want = -(2 * n * n - 1) * (n * n - 1) / (8 * (4 * n * n - 1)) - delta / 24
            verdict(f, 'm = 1', p.value, want, 'G_n^1 = -(2n^2-1)(n^2-1)/(8(4n^2-1)) - delta_(n,1)/24'); seen.add('1')
        else:
            want = -((2 * n * (m + n - 1) - m) * (n + 1) * (2 * m + 2 * n - 1)) / ((m + 2 * n - 2) * (m + 2 * n - 1) * (m + 2 * n) * (2 * n + 1)) * at('gamma', n, m)
            verdict(f, 'general', p.value, want, 'G_n^m = -[2n(m+n-1)-m](n+1)(2m+2n-1)/[(m+2n-2)(m+2n-1)(m+2n)(2n+1)] gamma_n^m'); seen.add('g')
    if len(seen) != 3:
        raise AnalysisError('G_q2d: expected the cases n = 0; m = 1; general -- found %s' % sorted(seen))
    f, res = paths(Q + 'F_q2d', {'n': 'n', 'm': 'm'})
    seen = set()
    for p in res:
        if _has(p, 'n == 0 and m == 1', True):
            verdict(f, 'F_0^1', p.value, one / 4, 'F_0^1 = 1/4'); seen.add('01')
        elif _has(p, 'n == 0', True):
            verdict(f, 'n = 0', p.value, m * m * fact2(2 * m - 3) / (pow2 * fact(m - 1)), 'F_0^m = m^2 (2m-3)!!/(2^(m+1) (m-1)!)'); seen.add('0')
        elif _has(p, 'n > 0 and m == 1', True):
            delta = at('kronecker', n, one)
            want = (4 * (n - 1) * (n - 1) * n * n + 1) / (8 * (2 * n - 1) * (2 * n - 1)) + Rat(R.const(11)) / 32 * delta
            verdict(f, 'm = 1', p.value, want, 'F_n^1 = [4(n-1)^2 n^2 + 1]/[8(2n-1)^2] + (11/32) delta_(n,1)'); seen.add('1')
        else:
            chi = m + n - 2
            want = (2 * n * chi * (3 - 5 * m + 4 * n * chi) + m * m * (3 - m + 4 * n * chi)) / ((m + 2 * n - 3) * (m + 2 * n - 2) * (m + 2 * n - 1) * (2 * n - 1)) * at('gamma', n, m)
            verdict(f, 'general', p.value, want, 'F_n^m = [2n chi(3-5m+4n chi) + m^2(3-m+4n chi)]/[(m+2n-3)(m+2n-2)(m+2n-1)(2n-1)] gamma_n^m, chi = m+n-2'); seen.add('g')
    if len(seen) != 4:
        raise AnalysisError('F_q2d: expected four cases, found %s' % sorted(seen))
    fk = db.func('prysm.mathops.kronecker')
    rk = [p for p in it.run(fk, kwargs=lambda: {'i': dom.sym('i'), 'j': dom.sym('j')}) if p.outcome == 'return']
    okk = len(rk) == 2 and all(isinstance(p.value, Const) and p.value.v == (1 if _has(p, 'i == j', True) else 0) for p in rk)
    run.check(okk, 'C07.forbes', fk.qual, 'definition', 'kronecker(i, j) is 1 if i == j else 0', 'kronecker is no longer the Kronecker delta', fk.loc())
    # ---- f, g (A.18): f_0 = sqrt(F_0), g_n = G_n/f_n, f_n = sqrt(F_n - g_(n-1)^2)
    f, res = paths(Q + 'g_q2d', {'n': 'n', 'm': 'm'})
    for p in res:
        verdict(f, 'definition', p.value, at('G_q2d', n, m) / at('f_q2d', n, m), 'g_n^m = G_n^m / f_n^m')
    f, res = paths(Q + 'f_q2d', {'n': 'n', 'm': 'm'})
    seen = set()
    for p in res:
        if _has(p, 'n == 0', True):
            verdict(f, 'n = 0', p.value, Rat(R.sqrt(at('F_q2d', Rat(R.const(0)), m))), 'f_0^m = sqrt(F_0^m)'); seen.add(0)
        else:
            verdict(f, 'general', p.value, Rat(R.sqrt(at('F_q2d', n, m) - at('g_q2d', n - 1, m) * at('g_q2d', n - 1, m))), 'f_n^m = sqrt(F_n^m - (g_(n-1)^m)^2)'); seen.add(1)
    if seen != {0, 1}:
        raise AnalysisError('f_q2d: expected two cases')


def qloop_rules(run, db, rule='C07.qloop'):
    """Q2d and Qbfs: base cases, initial values, one recurrence step and the rotation of the carried pair, by induction."""
    from .common import snapshot_loops, loop_as_function, loop_carried, sweep_step, post_atoms
    from ..core.interp import Frame
    Q = 'prysm.polynomials.qpoly.'
    ATOMS = ('g_qbfs', 'h_qbfs', 'f_qbfs', 'g_q2d', 'f_q2d', 'abc_q2d', 'Qbfs', 'sign')

    def mk():
        it, dom = norm_interp(db)

        def call_prysm(fi, args, kwargs, node):
            if fi.name == 'abc_q2d':
                return Tup([dom.func_atom('%s_q2d' % c, list(args)) for c in 'ABC'])
            if fi.name in ATOMS:
                return dom.func_atom(fi.name, list(args))
            return None
        dom.call_prysm = call_prysm
        return it, dom

    def part_q2d():
        # ------------------------------------------------------------------ Q2d
        it, dom = mk()
        R = dom.R
        at = lambda name, *a: Rat(R.func(name, list(a)))
        C = lambda v: Rat(R.const(v))
        f = db.func(Q + 'Q2d')
        snaps = snapshot_loops(it, dom)
        res = []
        prefix_runs = it.run(f, kwargs=lambda: {'n': dom.sym('n'), 'm': dom.sym('m'), 'r': dom.sym('r'), 't': dom.sym('t')})
        # snapshots are appended in run order: pair them with their paths through the recorded conditions
        x = Rat(R.atom('r')) * Rat(R.atom('r'))
        n_, m_, r_, t_ = [Rat(R.atom(a)) for a in 'nmrt']
        kinds = set()
        for p in prefix_runs:
            if p.outcome != 'return':
                continue
            got = as_rat(dom, p.value, 'Q2d')
            if _has(p, 'm == 0', True):
                run.check(got == at('Qbfs', n_, r_), rule, f.qual, 'm = 0', 'Q_n^0 is the Qbfs polynomial of order n in r', 'Q2d(n, 0) returns %s' % got.key(), f.loc())
                kinds.add('m0')
                continue
            M = as_rat(dom, p.frame.env['m'], 'm')
            # which sign of m this path is for, from the tests on m that were taken (however the routine spells them)
            verdicts = set()
            for cond_txt, cond_true in p.conds:
                cond_txt = cond_txt.replace(' ', '')
                for pat, when_true in (('sign(m)==-1', 'neg'), ('m<0', 'neg'), ('0>m', 'neg'), ('m<=0', 'neg'), ('m>0', 'pos'), ('0<m', 'pos'), ('m>=0', 'pos'), ('sign(m)==1', 'pos')):
                    if cond_txt == pat:
                        verdicts.add(when_true if cond_true else ('pos' if when_true == 'neg' else 'neg'))
            if len(verdicts) != 1:
                raise AnalysisError('Q2d: which sign of m the path %s is for is not read off its tests' % (p.conds,))
            neg = verdicts == {'neg'}
            want_M = dom.rat(dom.call_ext('builtins.abs', [Sym(m_)], {}, None))
            okM = M == want_M
            pref = (at('pow', r_, M) * Rat(R.trig('sin', M * t_))) if neg else (at('pow', r_, m_) * Rat(R.trig('cos', m_ * t_)))
            m1 = _has(p, 'm == 1', True)
            fq = lambda k: at('f_q2d', C(k), M)
            gq = lambda k: at('g_q2d', C(k), M)
            P0 = C(1) / 2
            P1 = (1 - x / 2) if m1 else ((M - C(1) / 2) + (1 - M) * x)
            Q0 = 1 / (2 * fq(0))
            Q1 = (P1 - gq(0) * Q0) / fq(1)
            P2 = (3 - x * (12 - 8 * x)) / 6
            P3 = (5 - x * (60 - x * (120 - 64 * x))) / 10
            Q2 = (P2 - gq(1) * Q1) / fq(2)
            Q3 = (P3 - gq(2) * Q2) / fq(3)
            label = '%s, %s' % ('m < 0' if neg else 'm > 0', '|m| = 1' if m1 else ('|m| != 1' if _has(p, 'm == 1', False) else ''))
            run.check(okM, rule, f.qual, 'order used (%s)' % ('m < 0' if neg else 'm > 0'), 'the coefficients are taken at |m|', 'Q2d evaluates its coefficients at %s, expected |m|' % M.key(), f.loc())
            base = None
            for k, Qk in ((0, Q0), (1, Q1), (2, Q2), (3, Q3)):
                if _has(p, 'n == %d' % k, True):
                    base = (k, Qk)
            if base is not None:
                k, Qk = base
                if not neg and _has(p, 'm == 0', False) and (_has(p, 'sign(m) == -1', False) or _has(p, 'm < 0', False) or _has(p, 'm > 0', True)):
                    # on this path m > 0: |m| and m are the same number, however the routine spells it
                    absm = 'abs(%s)' % m_.key()
                    got = got.subs({absm: m_})
                    Qk, pref = Qk.subs({absm: m_}), pref.subs({absm: m_})
                run.check(got == Qk * pref, rule, f.qual, 'n = %d (%s)' % (k, label), 'Q_%d^m = published starting value times u^|m| %s(|m| t)' % (k, 'sin' if neg else 'cos'),
                          'Q2d(n=%d; %s) returns %s, expected %s' % (k, label, got.key(), (Qk * pref).key()), f.loc())
                kinds.add('base%d%s%s' % (k, neg, m1))
                continue
            # loop path
            mine = [sn for sn in snaps if sn.conds == p.conds[:len(sn.conds)] and len(sn.conds) == len(p.conds)]
            if len(mine) != 1:
                raise AnalysisError('Q2d: could not pair the loop snapshot with the path %s' % (p.conds,))
            sn = mine[0]
            env = sn.env
            want0 = (P2, P3, Q3, 4) if m1 else (P0, P1, Q1, 2)
            # the roles of the carried names are read off their entry values; the sweep range is evaluated, not spelled
            nn = Rat(R.atom('nn'))
            sw = sweep_step(it, dom, f, sn, {'P2': want0[0], 'P1': want0[1], 'Q1': want0[2]})
            it_args = sn.node.iter.args if isinstance(sn.node.iter, ast.Call) and ast.unparse(sn.node.iter.func) == 'range' else None
            fr0 = Frame(f, f.module, dict(env))
            rng = [dom.rat(it.ev(a, fr0)) for a in it_args] if it_args is not None and len(it_args) == 2 else None
            if any(v is None for v in sw.roles.values()) or rng is None or rng[0] is None:
                # the recurrence is not carried by locals of a loop in this routine whose entry values are the starting polynomials (a helper,
                # a generator, a table): which local plays which role cannot be read off, so nothing about the sweep is judged here
                raise AnalysisError('Q2d (%s): the sweep that carries (P_(n-2), P_(n-1), Q_(n-1)) is not found in the form this rule follows' % label)
            ok0 = all(v is not None for v in sw.roles.values()) and set(sw.carried) == set(sw.roles.values()) and rng is not None and rng[0] is not None and rng[0] == C(want0[3])
            run.check(ok0, rule, f.qual, 'initial values (%s)' % label, 'the recurrence starts from (P_%d, P_%d, Q_%d) at order %d' % (want0[3] - 2, want0[3] - 1, want0[3] - 1, want0[3]),
                      'Q2d (%s) enters its loop with %s, first order %s; expected the carried values (%s, %s, %s) and first order %d' %
                      (label, ', '.join('%s=%s' % (k, v.key() if v is not None else '?') for k, v in sorted(sw.entry.items())), rng[0].key() if rng and rng[0] is not None else '?',
                       want0[0].key(), want0[1].key(), want0[2].key(), want0[3]), f.loc(sn.node))
            okr = rng is not None and rng[1] is not None and rng[1] == n_ + 1
            run.check(okr, rule, f.qual, 'sweep range (%s)' % label, 'the sweep runs from the first order to n inclusive', 'Q2d sweeps %s' % ast.unparse(sn.node.iter), f.loc(sn.node))
            kinds.add('loop%s%s' % (neg, m1))
            if not ok0:
                continue
            iP2, iP1, iQ1 = [Rat(R.atom('in_' + k)) for k in ('P2', 'P1', 'Q1')]
            Mx = M
            Pn = (at('A_q2d', nn - 1, Mx) + at('B_q2d', nn - 1, Mx) * x) * iP1 - at('C_q2d', nn - 1, Mx) * iP2
            Qn = (Pn - at('g_q2d', nn - 1, Mx) * iQ1) / at('f_q2d', nn, Mx)
            gotv = [dom.rat(sw.out(k)) if sw.out(k) is not None else None for k in ('P2', 'P1', 'Q1')]
            oks = all(v is not None for v in gotv) and gotv[0] == iP1 and gotv[1] == Pn and gotv[2] == Qn
            run.check(oks, rule, f.qual, 'step (%s)' % label, 'P_n = (A_(n-1) + B_(n-1) x) P_(n-1) - C_(n-1) P_(n-2); Q_n = (P_n - g_(n-1) Q_(n-1))/f_n; the pair is rotated',
                      'Q2d recurrence step gives (P_(n-2), P_(n-1), Q_(n-1)) <- (%s), expected (P_(n-1), P_n, Q_n) with P_n = %s, Q_n = %s' % (', '.join(v.key() if v is not None else '?' for v in gotv), Pn.key(), Qn.key()), f.loc(sn.node))
            # what is returned after the sweep is the Q of the last order
            lastq = set(sw.fresh_equal(dom, Qn))
            posts = post_atoms(got)
            got_, pref_ = got, pref
            if not neg and _has(p, 'm == 0', False) and (_has(p, 'sign(m) == -1', False) or _has(p, 'm < 0', False) or _has(p, 'm > 0', True)):
                absm = 'abs(%s)' % m_.key()          # m > 0 on this path: |m| is m
                got_, pref_ = got.subs({absm: m_}), pref.subs({absm: m_})
            okres = len(posts) == 1 and posts <= lastq and got_ == Rat(R.atom('post_' + sorted(posts)[0])) * pref_
            run.check(okres, rule, f.qual, 'result (%s)' % label, 'the last Q computed by the sweep times u^|m| %s(|m| t) is returned' % ('sin' if neg else 'cos'),
                      'Q2d returns %s after the sweep (the names holding Q_n after an iteration are %s)' % (got.key(), sorted(lastq)), f.loc())
        need = {'m0'} | {'base%d%s%s' % (k, neg, m1) for k in (0, 1) for neg in (True, False) for m1 in (True, False)} | {'base%d%sTrue' % (k, neg) for k in (2, 3) for neg in (True, False)} \
            | {'loop%s%s' % (neg, m1) for neg in (True, False) for m1 in (True, False)}
        if not need <= kinds:
            raise AnalysisError('Q2d: expected cases not all found, missing %s' % sorted(need - kinds))


    def part_qbfs():
        # ------------------------------------------------------------------ Qbfs
        it, dom = mk()
        R = dom.R
        at = lambda name, *a: Rat(R.func(name, list(a)))
        C = lambda v: Rat(R.const(v))
        f = db.func(Q + 'Qbfs')
        snaps = snapshot_loops(it, dom)
        xx = Rat(R.atom('x'))
        rho = xx * xx
        cQ = rho * (1 - rho)
        s19 = Rat(R.sqrt(C(19)))
        kinds = set()
        for p in it.run(f, kwargs=lambda: {'n': dom.sym('n'), 'x': dom.sym('x')}):
            if p.outcome != 'return':
                continue
            got = as_rat(dom, p.value, 'Qbfs')
            if _has(p, 'n == 0', True):
                run.check(got == cQ, rule, f.qual, 'n = 0', 'Qbfs_0 = rho^2 (1 - rho^2) with rho = x', 'Qbfs(0) = %s' % got.key(), f.loc()); kinds.add(0)
            elif _has(p, 'n == 1', True):
                run.check(got == cQ * (13 - 16 * rho) / s19, rule, f.qual, 'n = 1', 'Qbfs_1 = rho^2(1-rho^2)(13 - 16 rho^2)/sqrt(19)', 'Qbfs(1) = %s' % got.key(), f.loc()); kinds.add(1)
            else:
                mine = [sn for sn in snaps if sn.conds == p.conds]
                if len(mine) != 1:
                    raise AnalysisError('Qbfs: loop snapshot not found')
                sn = mine[0]
                env = sn.env
                want0 = [C(2), 6 - 8 * rho, C(1), (13 - 16 * rho) / s19]
                sw = sweep_step(it, dom, f, sn, dict(zip(('P2', 'P1', 'Q2', 'Q1'), want0)))
                if any(v is None for v in sw.roles.values()):
                    raise AnalysisError('Qbfs: the sweep that carries (P_(n-2), P_(n-1), Q_(n-2), Q_(n-1)) in locals of the routine is not found in the form this rule follows')
                ok0 = all(v is not None for v in sw.roles.values()) and set(sw.carried) == set(sw.roles.values())
                run.check(ok0, rule, f.qual, 'initial values', 'P_0 = 2, P_1 = 6 - 8 rho^2, Q_0 = 1, Q_1 = (13 - 16 rho^2)/sqrt(19)',
                          'Qbfs enters its loop with %s' % ', '.join('%s=%s' % (k, v.key() if v is not None else '?') for k, v in sorted(sw.entry.items())), f.loc(sn.node))
                fr0 = Frame(f, f.module, dict(env))
                it_args = sn.node.iter.args if isinstance(sn.node.iter, ast.Call) and ast.unparse(sn.node.iter.func) == 'range' else []
                rng = [dom.rat(it.ev(a, fr0)) for a in it_args]
                okr = len(rng) == 2 and all(v is not None for v in rng) and rng[0] == C(2) and rng[1] == Rat(R.atom('n')) + 1
                run.check(okr, rule, f.qual, 'sweep range', 'the sweep runs from 2 to n inclusive', 'Qbfs sweeps %s' % ast.unparse(sn.node.iter), f.loc(sn.node))
                if ok0:
                    nn = Rat(R.atom('nn'))
                    iP2, iP1, iQ2, iQ1 = [Rat(R.atom('in_' + k)) for k in ('P2', 'P1', 'Q2', 'Q1')]
                    Pn = (2 - 4 * rho) * iP1 - iP2
                    Qn = (Pn - at('g_qbfs', nn - 1) * iQ1 - at('h_qbfs', nn - 2) * iQ2) / at('f_qbfs', nn)
                    gotv = [dom.rat(sw.out(k)) if sw.out(k) is not None else None for k in ('P2', 'P1', 'Q2', 'Q1')]
                    oks = all(v is not None for v in gotv) and gotv[0] == iP1 and gotv[1] == Pn and gotv[2] == iQ1 and gotv[3] == Qn
                    run.check(oks, rule, f.qual, 'step', 'P_n = (2 - 4 rho^2) P_(n-1) - P_(n-2); Q_n = (P_n - g_(n-1) Q_(n-1) - h_(n-2) Q_(n-2))/f_n; both pairs are rotated',
                              'Qbfs recurrence step gives %s' % [v.key() if v is not None else '?' for v in gotv], f.loc(sn.node))
                    lastq = set(sw.fresh_equal(dom, Qn))
                    posts = post_atoms(got)
                    okres = len(posts) == 1 and posts <= lastq and got == Rat(R.atom('post_' + sorted(posts)[0])) * cQ
                    run.check(okres, rule, f.qual, 'result', 'the last Q of the sweep times rho^2(1-rho^2) is returned',
                              'Qbfs returns %s (the names holding Q_n after an iteration are %s)' % (got.key(), sorted(lastq)), f.loc())
                kinds.add(2)
        if kinds != {0, 1, 2}:
            raise AnalysisError('Qbfs: expected the cases n = 0, 1, general')

    def part_qcon():
        # Qcon
        it, dom = mk()
        R = dom.R

        def call_prysm2(fi, args, kwargs, node):
            if fi.name == 'jacobi':
                return dom.func_atom('jacobi', list(args))
            return None
        dom.call_prysm = call_prysm2
        f = db.func(Q + 'Qcon')
        rs = returns(it.run(f, kwargs=lambda: {'n': dom.sym('n'), 'x': dom.sym('x')}), f)
        xx = Rat(R.atom('x'))
        want = Rat(R.func('jacobi', [Rat(R.atom('n')), Rat(R.const(0)), Rat(R.const(4)), 2 * xx * xx - 1])) * xx * xx * xx * xx
        for p in rs:
            g = as_rat(dom, p.value, 'Qcon')
            run.check(g == want, rule, f.qual, 'definition', 'Qcon_n = x^4 P_n^(0,4)(2 x^2 - 1)', 'Qcon = %s, expected %s' % (g.key(), want.key()), f.loc())

    # Each routine is decided twice: for every order, by induction over its sweep (which needs the sweep to be a loop of the routine
    # carrying the polynomials in locals), and for the orders 0..6 by unrolling (which does not care how the routine is organised).
    # A routine whose sweep the induction cannot follow is still decided for the unrolled orders, and the evidence says so; only a
    # routine neither can follow is a refusal.
    for part, sym in (('Q2d', part_q2d), ('Qbfs', part_qbfs)):
        try:
            fixed, ferr = qfixed_rules(run, db, rule, parts=(part,)).get(part, 0), None
        except (AnalysisError, RecursionError) as e:
            fixed, ferr = 0, e
        try:
            sym()
        except AnalysisError as e:
            if not fixed:
                raise AnalysisError('%s; and the orders 0..6 are not followed either: %s' % (e, ferr))
            run.info('%s: %s: the induction over the sweep is not available (%s); decided for the orders 0..6 only (%d obligations)' % (rule, part, str(e)[:160], fixed))
    part_qcon()


def qfixed_rules(run, db, rule='C07.qloop', parts=('Q2d', 'Qbfs')):
    """Q2d and Qbfs decided for fixed small orders: the routine is interpreted with the order(s) concrete integers and the coordinates
    symbols, however it is organised (loops, helpers, generators, tables), and what it returns is compared with the published
    recurrences unrolled to that order.  The auxiliary coefficients (f, g, h; A, B, C) stay opaque, at concrete indices: they have
    their own rule (C07.forbes).  Bounded (the listed orders only).  {part: number of obligations}; AnalysisError when not followed."""
    Q = 'prysm.polynomials.qpoly.'
    ATOMS = ('g_qbfs', 'h_qbfs', 'f_qbfs', 'g_q2d', 'f_q2d', 'abc_q2d', 'Qbfs')

    def mk():
        it, dom = norm_interp(db)

        def call_prysm(fi, args, kwargs, node):
            if fi.name == 'abc_q2d':
                return Tup([dom.func_atom('%s_q2d' % c, list(args)) for c in 'ABC'])
            if fi.name in ATOMS and fi.qual != f.qual:
                return dom.func_atom(fi.name, list(args))
            return None
        dom.call_prysm = call_prysm
        return it, dom
    counts = {}
    if 'Qbfs' in parts:
        f = db.func(Q + 'Qbfs')
        it, dom = mk()
        R = dom.R
        at = lambda name, *a: Rat(R.func(name, list(a)))
        C = lambda v: Rat(R.const(v))
        xx = Rat(R.atom('x'))
        rho = xx * xx
        cQ = rho * (1 - rho)
        s19 = Rat(R.sqrt(C(19)))
        Ps = [C(2), 6 - 8 * rho]
        Qs = [C(1), (13 - 16 * rho) / s19]
        for k in range(2, 7):
            Ps.append((2 - 4 * rho) * Ps[k - 1] - Ps[k - 2])
            Qs.append((Ps[k] - at('g_qbfs', C(k - 1)) * Qs[k - 1] - at('h_qbfs', C(k - 2)) * Qs[k - 2]) / at('f_qbfs', C(k)))
        for k in range(0, 7):
            rs = [p for p in it.run(f, kwargs=lambda: {'n': Const(k), 'x': dom.sym('x')}) if p.outcome == 'return']
            if len(rs) != 1:
                raise AnalysisError('Qbfs(%d, x): expected one returning path for a concrete order, got %d' % (k, len(rs)))
            got = dom.rat(rs[0].value)
            if got is None:
                raise AnalysisError('Qbfs(%d, x): the returned value is not followed (%r)' % (k, rs[0].value))
            run.check(got == Qs[k] * cQ, rule, f.qual, 'order %d (unrolled)' % k, 'Qbfs_%d = rho^2(1-rho^2) Q_%d with the published recurrence unrolled from (P_0, P_1, Q_0, Q_1)' % (k, k),
                      'Qbfs(%d, x) returns %s, the published recurrence gives %s' % (k, got.key()[:160], (Qs[k] * cQ).key()[:160]), f.loc())
            counts['Qbfs'] = counts.get('Qbfs', 0) + 1
    if 'Q2d' in parts:
        f = db.func(Q + 'Q2d')
        it, dom = mk()
        R = dom.R
        at = lambda name, *a: Rat(R.func(name, list(a)))
        C = lambda v: Rat(R.const(v))
        r_, t_ = Rat(R.atom('r')), Rat(R.atom('t'))
        x = r_ * r_
        for m in (0, 1, -1, 2, -2, 3):
            M = abs(m)
            if m != 0:
                Ps = [C(1) / 2, (1 - x / 2) if M == 1 else ((C(M) - C(1) / 2) + (1 - C(M)) * x)]
                if M == 1:
                    Ps += [(3 - x * (12 - 8 * x)) / 6, (5 - x * (60 - x * (120 - 64 * x))) / 10]
                while len(Ps) < 7:
                    k = len(Ps)
                    Ps.append((at('A_q2d', C(k - 1), C(M)) + at('B_q2d', C(k - 1), C(M)) * x) * Ps[k - 1] - at('C_q2d', C(k - 1), C(M)) * Ps[k - 2])
                Qs = [1 / (2 * at('f_q2d', C(0), C(M)))]
                for k in range(1, 7):
                    Qs.append((Ps[k] - at('g_q2d', C(k - 1), C(M)) * Qs[k - 1]) / at('f_q2d', C(k), C(M)))
                rM = C(1)
                for _ in range(M):
                    rM = rM * r_
                pref = rM * Rat(R.trig('sin' if m < 0 else 'cos', C(M) * t_))
            for k in range(0, 7):
                rs = [p for p in it.run(f, kwargs=lambda: {'n': Const(k), 'm': Const(m), 'r': dom.sym('r'), 't': dom.sym('t')}) if p.outcome == 'return']
                if len(rs) != 1:
                    raise AnalysisError('Q2d(%d, %d, r, t): expected one returning path for concrete orders, got %d' % (k, m, len(rs)))
                got = dom.rat(rs[0].value)
                if got is None:
                    raise AnalysisError('Q2d(%d, %d, r, t): the returned value is not followed (%r)' % (k, m, rs[0].value))
                want = at('Qbfs', C(k), r_) if m == 0 else Qs[k] * pref
                run.check(got == want, rule, f.qual, 'order (%d, %d) (unrolled)' % (k, m), 'Q_%d^%d = the published recurrence unrolled from its starting polynomials, times u^|m| cos/sin(|m| t)' % (k, m),
                          'Q2d(%d, %d, r, t) returns %s, the published recurrence gives %s' % (k, m, got.key()[:160], want.key()[:160]), f.loc())
                counts['Q2d'] = counts.get('Q2d', 0) + 1
    return counts


def check(run, db, tier):
    run.trust('ORDER engine: carried-set loop denotation with reference recurrences (sa/domains/order.py); NORM',
              'reference families: DLMF 18.9.1-2 (Jacobi), 18.9 (Hermite, Laguerre), Dickson D_0=2/E_0=1; Chebyshev kinds as normalised Jacobi per Mason & Handscomb')
    run.assume('orders n >= 0; the induction covers every order; orthogonality / unit-RMS integrals, Forbes Q polynomials against the papers, and float growth at high order are not decided')
    run.rule('C07.abc', 'recurrence_abc equals DLMF 18.9.2; its special case equals the general formula after cancellation')
    run.rule('C07.loop', 'value functions: base cases equal the reference closed forms; the recurrence loop preserves "carried names hold orders i-2, i-1" and returns order n')
    run.rule('C07.compose', 'Legendre/Chebyshev (and derivative) definitions as normalised Jacobi polynomials; Zernike norm')
    run.group(abc_rules, run, db)
    run.group(loop_rules, run, db)
    run.group(compose_rules, run, db)
    run.group(zernike_rules, run, db)
    # the sequence forms are functions of the same families: their emitted values are held to the same definitions (shared with C08)
    from .c02 import Proxy
    from . import c08
    run.rule('C07.seq', 'sequence forms: each emitted mode denotes the polynomial of the requested order (C08.emit), and shared per-|m| tables are not overwritten (C08.shared)')
    run.group(c08.emit_rules, Proxy(run, {'C08.emit': 'C07.seq'}), db)
    run.group(c08.shared_rules, Proxy(run, {'C08.shared': 'C07.seq'}), db)
    from . import seqtables
    for fn_ in (seqtables.zernike_rules, seqtables.qbfs_seq_rules, seqtables.qcon_seq_rules, seqtables.q2d_seq_rules):
        run.group(fn_, Proxy(run, {'C08.table2': 'C07.seq', 'C08.qseq': 'C07.seq'}), db)
    from . import fixedorders
    run.group(fixedorders.fixed_order_rules, run, db, 'C07.seq', None, lambda q: '_der_seq' not in q)
    run.rule('C07.forbes', "Forbes' auxiliary coefficients (Qbfs f/g/h; Q2d A/B/C, gamma, F, G, f, g) equal the published formulas, case by case")
    run.group(forbes_rules, run, db)
    run.require_instances('C07.forbes', 23)
    run.rule('C07.qloop', 'Q2d / Qbfs / Qcon: published starting polynomials, initial carried values, recurrence step and rotation, sweep range, azimuthal/radial prefix (induction over the order)')
    run.group(qloop_rules, run, db)
    run.require_instances('C07.qloop', 40)
    run.require_instances('C07.abc', 4)
    run.require_instances('C07.loop', 20)
    run.require_instances('C07.compose', 10)
