"""C19 -- ray tracing obeys Snell's law and keeps rays on surfaces (vector algebra in NORM)."""
import ast

from ..core.db import AnalysisError, norm_stmt, walk_no_nested
from ..core.interp import Interp, Value, Const, Tup, Unknown, Slice, Frame
from ..core.norm import Rat
from ..domains.normdom import NormDomain, Sym, install_pi
from .common import returns, as_rat
from ..core.pattern import match_all, find

SM = 'prysm.x.raytracing.spencer_and_murty.'
SF = 'prysm.x.raytracing.surfaces.'


class VecV(Value):
    """A 3-vector as a linear combination of named basis vectors with NORM coefficients."""

    def __init__(self, coeffs):
        self.c = {k: v for k, v in coeffs.items() if not v.is_zero()}

    def __repr__(self):
        return 'Vec(%s)' % ' + '.join('%s*%s' % (v.key(), k) for k, v in sorted(self.c.items()))

    def __eq__(self, o):
        return isinstance(o, VecV) and set(self.c) == set(o.c) and all(self.c[k] == o.c[k] for k in self.c)

    def __hash__(self):
        return hash(tuple(sorted(self.c)))


class VecDomain(NormDomain):
    name = 'VEC'

    def __init__(self, gram):
        NormDomain.__init__(self)
        self.gram = gram           # callable (a, b) -> Rat for basis names a <= b

    def vec(self, name):
        return VecV({name: Rat(self.R.const(1))})

    def dot(self, a, b):
        out = Rat(self.R.const(0))
        for i, ci in a.c.items():
            for j, cj in b.c.items():
                x, y = sorted((i, j))
                out = out + ci * cj * self.gram(x, y)
        return self.lift(out)

    def binop(self, op, a, b, node):
        if isinstance(a, VecV) or isinstance(b, VecV):
            if isinstance(a, VecV) and isinstance(b, VecV) and isinstance(op, (ast.Add, ast.Sub)):
                keys = set(a.c) | set(b.c)
                zero = Rat(self.R.const(0))
                sgn = 1 if isinstance(op, ast.Add) else -1
                return VecV({k: a.c.get(k, zero) + sgn * b.c.get(k, zero) for k in keys})
            v, s, left = (a, b, True) if isinstance(a, VecV) else (b, a, False)
            r = self.rat(s)
            if r is None:
                return Unknown('vector arithmetic')
            if isinstance(op, ast.Mult):
                return VecV({k: c * r for k, c in v.c.items()})
            if isinstance(op, ast.Div) and left:
                return VecV({k: c / r for k, c in v.c.items()})
            return Unknown('vector arithmetic')
        return NormDomain.binop(self, op, a, b, node)

    def unary(self, op, a, node):
        if isinstance(a, VecV) and isinstance(op, ast.USub):
            return VecV({k: -c for k, c in a.c.items()})
        return NormDomain.unary(self, op, a, node)

    def subscript(self, v, idx, node):
        if isinstance(v, (Sym, Const)) and isinstance(idx, Tup) and any(isinstance(x, Const) and x.v is None for x in idx.items):
            return v          # scalar[:, newaxis]
        if isinstance(v, VecV):
            return Unknown('component of an abstract vector')
        return NormDomain.subscript(self, v, idx, node)

    def compare(self, op, a, b, node):
        ra, rb = self.rat(a), self.rat(b)
        pos = getattr(self.R, 'positive', None) or set()
        if ra is not None and rb is not None:
            d = ra - rb

            def mono_sign(poly):
                if len(poly.t) != 1:
                    return None
                (m, c), = poly.t.items()
                for x, e in m:
                    info = self.R.info.get(x)
                    if not (x in pos or (info and info[0] == 'sqrt') or e % 2 == 0):
                        return None
                return 1 if c > 0 else -1
            if d.is_zero():
                sg = 0
            else:
                sn, sd = mono_sign(d.num), mono_sign(d.den)
                sg = sn * sd if sn is not None and sd is not None else None
            if sg is not None:
                import operator
                return {ast.Eq: operator.eq, ast.NotEq: operator.ne, ast.Lt: operator.lt, ast.LtE: operator.le, ast.Gt: operator.gt, ast.GtE: operator.ge}[type(op)](sg, 0)
        return NormDomain.compare(self, op, a, b, node)

    def call_ext(self, dotted, args, kwargs, node):
        if dotted == 'numpy.sign' and args and self.rat(args[0]) is not None:
            t = self.compare(ast.Lt(), args[0], Const(0), node)
            z = self.compare(ast.Eq(), args[0], Const(0), node)
            if t is not None and z is not None:
                return Const(0 if z else (-1 if t else 1))
        if dotted == 'numpy.atleast_2d':
            return Tup(list(args)) if len(args) > 1 else args[0]
        if dotted in ('numpy.asarray', 'numpy.array') and args and isinstance(args[0], VecV):
            return args[0]
        return NormDomain.call_ext(self, dotted, args, kwargs, node)

    def call_prysm(self, fi, args, kwargs, node):
        if fi.name == '_multi_dot' and len(args) == 2 and all(isinstance(a, VecV) for a in args):
            return self.dot(args[0], args[1])
        return None

    def augassign(self, op, target, val, node):
        return None


def vector_rules(run, db):
    def mk(unit_normal, csign=None):
        def gram(a, b):
            R = dom.R
            if (a, b) == ('S', 'S'):
                return Rat(R.const(1))
            if (a, b) == ('r', 'r'):
                return Rat(R.const(1)) if unit_normal else Rat(R.atom('rho2'))
            if csign is not None:
                return csign * Rat(R.atom('cp'))          # S . r = +/- cp with cp > 0
            return Rat(R.atom('c'))          # S . r
        dom = VecDomain(gram)
        dom.R.positive = {'n', 'nprime', 'rho2', 'cp'}
        it = install_pi(Interp(db, dom))
        return it, dom
    # ---- refract: the ray may travel with the normal (S.r > 0) or against it (S.r < 0, e.g. heading -z after a mirror)
    f = db.func(SM + 'refract')
    for side, sg in (('with the normal', 1), ('against the normal', -1)):
        _refract_case(run, db, f, mk, side, sg)
    # ---- reflect
    f = db.func(SM + 'reflect')
    it, dom = mk(unit_normal=False)
    R = dom.R
    res = [p for p in it.run(f, kwargs=lambda: {'S': dom.vec('S'), 'r': dom.vec('r')}) if p.outcome == 'return']
    if len(res) != 1 or not isinstance(res[0].value, VecV):
        raise AnalysisError('reflect does not evaluate to a vector expression')
    out = res[0].value
    n2 = dom.rat(dom.dot(out, out))
    run.check(n2 == 1, 'C19.unit', f.qual, 'reflect unit length', "|S'|^2 == 1 for a normal of any length", "reflect: |S'|^2 = %s" % n2.key(), f.loc())
    c, rho2 = Rat(R.atom('c')), Rat(R.atom('rho2'))
    want = VecV({'S': Rat(R.const(1)), 'r': -2 * c / rho2})
    run.check(out == want, 'C19.unit', f.qual, 'mirror law', "S' == S - 2 (S.r/|r|^2) r", "reflect returns %r, expected %r" % (out, want), f.loc())


def _refract_case(run, db, f, mk, side, sg):
    it, dom = mk(unit_normal=False, csign=sg)
    R = dom.R
    res = [p for p in it.run(f, kwargs=lambda: {'n': dom.sym('n'), 'nprime': dom.sym('nprime'), 'S': dom.vec('S'), 'r': dom.vec('r')}) if p.outcome == 'return']
    if len(res) != 1 or not isinstance(res[0].value, VecV):
        raise AnalysisError('refract does not evaluate to a vector expression (%s): %r' % (side, [p.value for p in res]))
    out = res[0].value
    n2 = dom.rat(dom.dot(out, out))
    run.check(n2 == 1, 'C19.unit', f.qual, 'refract unit length (%s)' % side,
              "|S'|^2 == 1 for a unit incident direction and a surface normal of ANY length (the gradient (-Fx,-Fy,1) that intersect() hands over is not normalised)",
              "refract: |S'|^2 = %s for a normal of squared length rho2: the outgoing direction cosines only have unit length when the normal is a unit vector, but raytrace passes the un-normalised "
              "surface gradient from sag_normal, so every off-axis refracted ray violates Snell's law" % n2.key(), f.loc())
    # Snell: tangential component of S' == mu * tangential component of S (w.r.t. the true normal direction)
    rr = dom.gram('r', 'r')
    mu = Rat(R.atom('n')) / Rat(R.atom('nprime'))
    rvec = dom.vec('r')
    Sv = dom.vec('S')

    def tang(v):
        d = dom.rat(dom.dot(v, rvec)) / rr
        return VecV({k: v.c.get(k, Rat(R.const(0))) - (d if k == 'r' else Rat(R.const(0))) for k in set(v.c) | {'r'}})
    t_out, t_in = tang(out), tang(Sv)
    scaled = VecV({k: c * mu for k, c in t_in.c.items()})
    run.check(t_out == scaled, 'C19.unit', f.qual, 'snell (%s)' % side, "tangential part of S' == (n/n') x tangential part of S: n sin(i) = n' sin(i') in the plane of incidence",
              "refract: tangential component of S' is %r, expected (n/n') * %r" % (t_out, t_in), f.loc())
    # forward continuation: the normal component of S' has the sign of the normal component of S
    dout = dom.rat(dom.dot(out, rvec))
    cp, rho2 = Rat(R.atom('cp')), Rat(R.atom('rho2'))
    mag2 = rho2 * (1 - mu * mu * (1 - cp * cp / rho2))          # (S'.r)^2 for a unit S'
    ok_mag = (dout * dout) == mag2
    # sign: S'.r = sg * sqrt(rho2) * sqrt(1 - mu^2 (1 - cosI^2)); compare with the same NORM constructors
    from ..core.norm import _rat as _r
    root = _r(R.sqrt(1 - mu * mu * (1 - cp * cp / rho2))) * _r(R.sqrt(rho2))
    ok_sign = dout == sg * root
    run.check(ok_mag and ok_sign, 'C19.unit', f.qual, 'side of the surface (ray %s)' % side,
              "S'.r has the sign of S.r: the refracted ray continues to the side of the surface the incident ray was heading for [%s]" % side,
              "refract, ray travelling %s: S'.r = %s, expected %s -- the transmitted ray comes back out of the side it came from (a ray heading -z, e.g. after a mirror, is sent to +z)"
              % (side, dout.key(), (sg * root).key()), f.loc())


def frame_rules(run, db):
    fl, fg, ft = db.func(SM + 'transform_to_local_coords'), db.func(SM + 'transform_to_global_coords'), db.func(SM + 'raytrace')

    # decided by interpreting both transforms in NORM, with the rotation R applied to a vector an uninterpreted function mm(R, v):
    # local = mm(R, X - P), global = mm(R, X) + P, directions mm(R, S) and never translated; without R only the translation
    from .common import norm_interp as _ni2, returns as _ret2
    from ..core.interp import Slice as _Sl2
    for fi, sign, label in ((fl, -1, 'local'), (fg, +1, 'global')):
        for with_R in (True, False):
            itf, domf = _ni2(db)
            oe, osub, om = domf.call_ext, domf.subscript, domf.method

            def call_ext(dotted, args, kwargs, node, domf=domf, oe=oe):
                last = dotted.rsplit('.', 1)[-1]
                if last == 'atleast_2d' and args and all(domf.rat(a) is not None for a in args):
                    return Tup(list(args)) if len(args) > 1 else args[0]
                if last in ('matmul', 'dot') and len(args) == 2 and all(domf.rat(a) is not None for a in args):
                    return domf.func_atom('mm', list(args))
                if last == 'einsum':
                    return Unknown('einsum')
                return oe(dotted, args, kwargs, node)

            def subscript(v, idx, node, domf=domf, osub=osub):
                items = idx.items if isinstance(idx, Tup) else [idx]
                if domf.rat(v) is not None and all(isinstance(x, _Sl2) or (isinstance(x, Const) and (x.v is None or x.v is Ellipsis)) for x in items):
                    return v                      # [..., np.newaxis] only adds an axis
                return osub(v, idx, node)

            def method(v, name, args, kwargs, node, domf=domf, om=om):
                if name in ('squeeze', 'copy') and domf.rat(v) is not None:
                    return v
                return om(v, name, args, kwargs, node)
            ob = domf.binop

            def binop(op, a, b, node, domf=domf, ob=ob):
                if isinstance(op, ast.MatMult) and domf.rat(a) is not None and domf.rat(b) is not None:
                    return domf.func_atom('mm', [a, b])
                return ob(op, a, b, node)
            domf.call_ext, domf.subscript, domf.method, domf.binop = call_ext, subscript, method, binop
            res = _ret2(itf.run(fi, kwargs=lambda: {'XYZ': domf.sym('X'), 'P': domf.sym('P'), 'S': domf.sym('S'), 'R': domf.sym('R') if with_R else Const(None)}), fi)
            Rf = domf.R
            Af = lambda nme: Rat(Rf.atom(nme))
            mm = lambda v_: Rat(Rf.func('mm', [Af('R'), v_]))
            if with_R:
                wantX = mm(Af('X') - Af('P')) if sign < 0 else mm(Af('X')) + Af('P')
                wantS = mm(Af('S'))
            else:
                wantX = Af('X') + sign * Af('P')
                wantS = Af('S')
            ok = bool(res)
            got = []
            for p_ in res:
                v_ = p_.value
                gx = domf.rat(v_.items[0]) if isinstance(v_, Tup) and len(v_.items) == 2 else None
                gs = domf.rat(v_.items[1]) if isinstance(v_, Tup) and len(v_.items) == 2 else None
                got.append((gx.key() if gx is not None else '?', gs.key() if gs is not None else '?'))
                ok = ok and gx is not None and gs is not None and gx == wantX and gs == wantS
            if any('?' in g for g in got):
                # the rotation is applied in a way this reading (matmul / @ as an uninterpreted mm) does not follow
                if getattr(run, 'frames_on_values', None):
                    run.info('transform_to_%s_coords: the rotation is not read as mm(R, v) (%s); the transform was decided on values' % (label, got))
                    continue
                raise AnalysisError('transform_to_%s_coords: the values that are returned are not followed: %s' % (label, got))
            run.check(ok, 'C19.rigid', fi.qual, '%s transform%s' % (label, '' if with_R else ' (no rotation)'),
                      ('local = R (X - P)' if sign < 0 else 'global = R X + P') + '; directions are rotated, not translated' + ('' if with_R else ' [R is None: translation only]'),
                      'transform_to_%s_coords returns %s, expected (%s, %s)' % (label, got, wantX.key(), wantS.key()), fi.loc())
    # raytrace, by interpretation on a list of two surfaces (a mirror then a lens surface, then the other order) with the four
    # stages summarised: into the surface frame with (surf.P, surf.R), intersect there with surf.sag_normal, bend with reflect /
    # refract(running index, surf.n(wvl)), back with (surf.P, surf.R^T); the running index is carried from surface to surface
    from .common import capture_calls as _cc2, norm_interp as _ni3
    from ..core.interp import Value as _V3, Obj as _O3
    mod_ = ft.module
    itr, domr = _ni3(db)
    it_c = itr
    it_c._reset_run([])
    from ..core.interp import Frame as _F3
    consts = {nm: it_c.ev(mod_.assigns[nm], _F3(None, mod_, {})) for nm in ('STYPE_REFLECT', 'STYPE_REFRACT') if nm in mod_.assigns}
    if len(consts) != 2:
        consts = {nm: itr.lookup_global(nm, mod_) for nm in ('STYPE_REFLECT', 'STYPE_REFRACT')}

    class SurfV(_V3):
        def __init__(self, k, typ, has_R=True):
            self.k, self.typ, self.has_R = k, typ, has_R

        def __repr__(self):
            return 'Surf%d' % self.k

    class BoundN(_V3):
        def __init__(self, k):
            self.k = k
    for order in (('REFLECT', 'REFRACT'), ('REFRACT', 'REFLECT'), ('REFRACT', 'REFRACT'), ('REFRACT', 'REFLECT', 'REFRACT'), ('REFLECT', 'REFLECT*')):
        untilted = [t_.endswith('*') for t_ in order]          # a trailing * marks a surface without a rotation matrix
        order = tuple(t_.rstrip('*') for t_ in order)
        itr, domr = _ni3(db)
        oga, oe, ost = domr.getattr, domr.call_ext, domr.store_subscript

        def getattr_(v, name, node, domr=domr, oga=oga):
            if isinstance(v, SurfV):
                if name == 'typ':
                    return consts['STYPE_' + v.typ]
                if name == 'R' and not v.has_R:
                    return Const(None)
                if name in ('P', 'R'):
                    return domr.sym('%s%d' % (name, v.k))
                if name == 'sag_normal':
                    return domr.sym('FFP%d' % v.k)
                if name == 'n':
                    return BoundN(v.k)
                return Unknown('surface attribute %s' % name)
            if name == 'T' and domr.rat(v) is not None:
                return domr.func_atom('transpose', [v])
            if name in ('shape',) and domr.rat(v) is not None:
                return Tup([domr.sym('nrays'), Const(3)])
            if name == 'dtype' and domr.rat(v) is not None:
                return domr.sym('dtype')
            return oga(v, name, node)

        def call_ext(dotted, args, kwargs, node, domr=domr, oe=oe):
            last = dotted.rsplit('.', 1)[-1]
            if last in ('asarray', 'array') and args and domr.rat(args[0]) is not None:
                return args[0]
            if last in ('empty', 'zeros', 'empty_like'):
                return domr.sym('HIST')
            return oe(dotted, args, kwargs, node)

        def store_subscript(target, idx, val, node, domr=domr, ost=ost):
            if domr.rat(target) is not None:
                return True
            return ost(target, idx, val, node)

        def call_object(fobj, args, kwargs, node, domr=domr):
            if isinstance(fobj, BoundN):
                return domr.sym('N%d' % fobj.k)
            return None
        domr.getattr, domr.call_ext, domr.store_subscript, domr.call_object = getattr_, call_ext, store_subscript, call_object
        stage = {SM + 'transform_to_local_coords': 'local', SM + 'intersect': 'hit', SM + 'reflect': 'reflect', SM + 'refract': 'refract', SM + 'transform_to_global_coords': 'global'}
        counter = {'n': 0}

        def result(fi_, b_, domr=domr, counter=counter):
            counter['n'] += 1
            k = counter['n']
            kind = stage[fi_.qual]
            if kind in ('local', 'global'):
                return Tup([domr.sym('%s_P_%d' % (kind, k)), domr.sym('%s_S_%d' % (kind, k))])
            if kind == 'hit':
                return Tup([domr.sym('hit_P_%d' % k), domr.sym('hit_r_%d' % k)])
            return domr.sym('%s_%d' % (kind, k))
        paths, calls = _cc2(itr, domr, ft, lambda: {'surfaces': Tup([SurfV(k_, t_, not untilted[k_]) for k_, t_ in enumerate(order)], 'list'), 'P': domr.sym('Pin'), 'S': domr.sym('Sin'), 'wvl': domr.sym('wvl'),
                                                    'n_ambient': domr.sym('NAMB')}, set(stage), result)
        keyr = lambda v_: domr.rat(v_).key() if v_ is not None and domr.rat(v_) is not None else repr(v_)
        seq = [(stage[c_[0].qual], {k: keyr(v) for k, v in c_[1].items()}) for c_ in calls]
        want_kinds = []
        for t_ in order:
            want_kinds += ['local', 'hit', t_.lower(), 'global']
        ok = [k for k, _ in seq] == want_kinds
        detail = str([k for k, _ in seq])
        if not ok and sorted(k for k, _ in seq) != sorted(want_kinds):
            # a stage that is not reached through the function this reading looks for (the transform inlined, or done by a shared helper)
            # is a stage that is not followed, not a stage that is missing
            raise AnalysisError('raytrace: the stages reached through transform_to_local_coords / intersect / reflect / refract / transform_to_global_coords are %s, '
                                'expected %s for %s: the wiring is not followed' % (detail, want_kinds, list(order)))
        if ok:
            nprev = 'NAMB'
            Pcur, Scur = 'Pin', 'Sin'
            pos = 0
            for k_, t_ in enumerate(order):
                loc, hit, bend, glo = seq[pos:pos + 4]
                pos += 4
                nL, nH, nB = pos - 3, pos - 2, pos - 1
                wantR, wantRt = ('R%d' % k_, 'transpose(R%d)' % k_) if not untilted[k_] else ('Const(None)', 'Const(None)')
                okk = loc[1].get('XYZ') == Pcur and loc[1].get('P') == 'P%d' % k_ and loc[1].get('S') == Scur and loc[1].get('R') == wantR
                okk = okk and hit[1].get('P0') == 'local_P_%d' % nL and hit[1].get('S') == 'local_S_%d' % nL and hit[1].get('FFp') == 'FFP%d' % k_
                if t_ == 'REFLECT':
                    okk = okk and bend[1].get('S') == 'local_S_%d' % nL and bend[1].get('r') == 'hit_r_%d' % nH
                else:
                    okk = okk and bend[1].get('n') == nprev and bend[1].get('nprime') == 'N%d' % k_ and bend[1].get('S') == 'local_S_%d' % nL and bend[1].get('r') == 'hit_r_%d' % nH
                    nprev = 'N%d' % k_
                okk = okk and glo[1].get('XYZ') == 'hit_P_%d' % nH and glo[1].get('P') == 'P%d' % k_ and glo[1].get('S') == '%s_%d' % (t_.lower(), nB) and glo[1].get('R') == wantRt
                if not okk:
                    ok = False
                    detail = 'surface %d (%s): %s' % (k_, t_.lower(), [loc, hit, bend, glo])
                    break
                Pcur, Scur = 'global_P_%d' % pos, 'global_S_%d' % pos
        run.check(ok, 'C19.rigid', ft.qual, 'stages (%s)' % ' then '.join(o_.lower() for o_ in order),
                  'per surface: into the surface frame with (P, R), intersect there, reflect / refract(running index, n(wvl)), back with (P, R^T) applied to the intersection point and the new direction; '
                  'positions, directions and the running index are handed from surface to surface',
                  'raytrace stage wiring is not an exact rigid motion, its inverse and the documented interaction: %s' % detail, ft.loc())
    # without a rotation matrix the surface frame differs by a translation only: None goes in, None comes back
    itr, domr = _ni3(db)
    oga = domr.getattr

    def getattr_n(v, name, node, domr=domr, oga=oga):
        if isinstance(v, SurfV):
            return {'typ': consts['STYPE_REFLECT'], 'P': domr.sym('P0'), 'R': Const(None), 'sag_normal': domr.sym('FFP0')}.get(name, Unknown('attr'))
        if name == 'shape' and domr.rat(v) is not None:
            return Tup([domr.sym('nrays'), Const(3)])
        if name == 'dtype' and domr.rat(v) is not None:
            return domr.sym('dtype')
        return oga(v, name, node)
    oe_n, ost_n = domr.call_ext, domr.store_subscript
    domr.getattr = getattr_n
    domr.call_ext = lambda dotted, args, kwargs, node, domr=domr, oe_n=oe_n: (args[0] if dotted.rsplit('.', 1)[-1] in ('asarray', 'array') and args and domr.rat(args[0]) is not None
                                                                              else domr.sym('HIST') if dotted.rsplit('.', 1)[-1] in ('empty', 'zeros', 'empty_like') else oe_n(dotted, args, kwargs, node))
    domr.store_subscript = lambda target, idx, val, node, domr=domr, ost_n=ost_n: True if domr.rat(target) is not None else ost_n(target, idx, val, node)
    cnt = {'n': 0}

    def result_n(fi_, b_, domr=domr, cnt=cnt):
        cnt['n'] += 1
        return Tup([domr.sym('a%d' % cnt['n']), domr.sym('b%d' % cnt['n'])]) if stage[fi_.qual] in ('local', 'global', 'hit') else domr.sym('c%d' % cnt['n'])
    paths, calls = _cc2(itr, domr, ft, lambda: {'surfaces': Tup([SurfV(0, 'REFLECT')], 'list'), 'P': domr.sym('Pin'), 'S': domr.sym('Sin'), 'wvl': domr.sym('wvl'), 'n_ambient': domr.sym('NAMB')}, set(stage), result_n)
    rts = [c_[1].get('R') for c_ in calls if stage[c_[0].qual] in ('local', 'global')]
    run.check(len(rts) == 2 and all(isinstance(r_, Const) and r_.v is None for r_ in rts), 'C19.rigid', ft.qual, 'no rotation', 'a surface without a rotation matrix is entered and left by translation only',
              'for a surface with R = None raytrace passes %r as rotation to the frame transforms' % (rts,), ft.loc())


def normal_rules(run, db):
    # sag_normal: gradient of F = z - sag(x, y)
    # decided by interpreting the method with self.FFp a stub returning (sag, dz/dx, dz/dy): the result is (sag, stack([-Fx, -Fy, 1], axis=1))
    from .common import norm_interp as _ni0, returns as _ret0
    from ..core.interp import Value as _Value0, Obj as _Obj0
    f = db.func(SF + 'Surface.sag_normal')
    it0, dom0 = _ni0(db)

    class FStub(_Value0):
        pass
    oe0 = dom0.call_ext
    ffp_args = []

    def call_ext0(dotted, args, kwargs, node):
        last = dotted.rsplit('.', 1)[-1]
        if last in ('array', 'asarray') and args and isinstance(args[0], Tup) and len(args[0].items) == 1 and dom0.rat(args[0].items[0]) is not None:
            return args[0].items[0]              # a one-element array that is broadcast: its value
        if last == 'broadcast_to' and args and dom0.rat(args[0]) is not None:
            return args[0]
        if last in ('ones', 'ones_like'):
            return Const(1)
        if last == 'stack' and args and isinstance(args[0], Tup):
            ax = kwargs.get('axis', args[1] if len(args) > 1 else Const(0))
            return Tup(list(args[0].items) + [ax], 'stack')
        return oe0(dotted, args, kwargs, node)

    def call_object0(fobj, args, kwargs, node):
        if isinstance(fobj, FStub):
            ffp_args.append(list(args))
            return Tup([dom0.sym('SAG'), dom0.sym('FX'), dom0.sym('FY')])
        return None
    dom0.call_ext, dom0.call_object = call_ext0, call_object0
    ci0 = db.cls(SF + 'Surface')

    def mkself0():
        o = _Obj0(ci0)
        o.attrs['FFp'] = FStub()
        return o
    res0 = _ret0(it0.run(f, kwargs=lambda: {'x': dom0.sym('x'), 'y': dom0.sym('y')}, self_obj=mkself0), f)
    ok = len(res0) == 1 and isinstance(res0[0].value, Tup) and len(res0[0].value.items) == 2
    detail = ''
    if ok:
        z0, der = res0[0].value.items
        R0 = dom0.R
        A0 = lambda nme: Rat(R0.atom(nme))
        ok = dom0.rat(z0) is not None and dom0.rat(z0) == A0('SAG') and isinstance(der, Tup) and der.kind == 'stack' and len(der.items) == 4 \
            and isinstance(der.items[3], Const) and der.items[3].v == 1
        if ok:
            comps = [dom0.rat(c_) for c_ in der.items[:3]]
            ok = all(c_ is not None for c_ in comps) and comps[0] == -A0('FX') and comps[1] == -A0('FY') and comps[2] == Rat(R0.const(1))
            detail = str([c_.key() if c_ is not None else '?' for c_ in comps])
        ok = ok and ffp_args and [dom0.rat(a).key() if dom0.rat(a) is not None else '?' for a in ffp_args[0]] == ['x', 'y']
    if not ok and not detail and getattr(run, 'sag_normal_on_values', None):
        # the stacking is done in a way this reading (np.stack summarised) does not follow: the values decided it
        run.info('sag_normal: the way the normal is stacked is not read; (sag, (-Fx, -Fy, 1)) per ray was decided on values')
    elif not ok and not detail:
        raise AnalysisError('sag_normal: the (sag, normal) pair that is returned is not followed')
    else:
        run.check(ok, 'C19.normal', f.qual, 'gradient', 'normal direction is (-dz/dx, -dz/dy, 1), the gradient of z - sag(x, y), stacked per ray', 'sag_normal no longer returns (sag, (-Fx, -Fy, 1)): %s' % detail, f.loc())
    # Newton step: decided by interpreting the solver for ONE iteration (maxiter = 1) in NORM, with the surface function a stub
    # that records where it is evaluated: the point is P1 + s S, F = Z - sag, F' = S . grad F, and s <- s - F/F' is what is stored
    from .common import norm_interp as _ni, returns as _ret
    from ..core.interp import Value as _Value, Slice as _Sl
    fn = db.func(SM + 'newton_raphson_solve_s')
    itn, domn = _ni(db)

    class FFpStub(_Value):
        pass
    ffp_calls, s_stores = [], []
    oe, om, oga, osub, ost, opr = domn.call_ext, domn.method, domn.getattr, domn.subscript, domn.store_subscript, domn.call_prysm
    nout = [0]

    def call_ext(dotted, args, kwargs, node):
        last = dotted.rsplit('.', 1)[-1]
        a0 = args[0] if args else None
        if last in ('atleast_1d', 'broadcast_to', 'asarray', 'ascontiguousarray', 'array') and a0 is not None and domn.rat(a0) is not None:
            return a0
        if last == 'arange':
            return domn.sym('ALLRAYS')
        if last in ('empty', 'empty_like', 'zeros', 'zeros_like'):
            nout[0] += 1
            return domn.sym('OUT%d' % nout[0])
        if last in ('abs', 'absolute') and a0 is not None and domn.rat(a0) is not None:
            return domn.func_atom('abs', [a0])
        if last in ('finfo',):
            return Unknown('finfo')
        return oe(dotted, args, kwargs, node)

    def method(v, name, args, kwargs, node):
        if name in ('copy', 'astype') and domn.rat(v) is not None:
            return v
        return om(v, name, args, kwargs, node)

    def getattr_(v, name, node):
        if name == 'shape' and domn.rat(v) is not None:
            return Tup([domn.sym('nrays'), Const(3)])
        if name == 'dtype' and domn.rat(v) is not None:
            return domn.sym('dtype')
        return oga(v, name, node)

    def subscript(v, idx, node):
        r_ = domn.rat(v)
        if r_ is not None:
            if domn.rat(idx) is not None and domn.rat(idx).key() == 'ALLRAYS':
                return v                       # all rays are still active in the first iteration
            items = idx.items if isinstance(idx, Tup) else None
            if items is not None and all(isinstance(x, _Sl) or (isinstance(x, Const) and x.v is None) for x in items):
                return v                       # [:, np.newaxis]
            if items is not None and len(items) == 2 and isinstance(items[0], Const) and items[0].v is Ellipsis and isinstance(items[1], Const) and isinstance(items[1].v, int):
                return domn.func_atom('comp%d' % items[1].v, [v])
            if items is not None and len(items) == 2 and isinstance(items[0], _Sl) and isinstance(items[1], Const) and isinstance(items[1].v, int):
                return domn.func_atom('comp%d' % items[1].v, [v])
            return Unknown('subset of rays')
        return osub(v, idx, node)

    def store_subscript(target, idx, val, node):
        r_ = domn.rat(target)
        if r_ is not None:
            if r_.key() == 's1' and domn.rat(idx) is not None and domn.rat(idx).key() == 'ALLRAYS':
                s_stores.append((domn.rat(val), node))
            return True
        return ost(target, idx, val, node)

    def call_prysm(fi_, args, kwargs, node):
        if fi_.name == '_multi_dot' and len(args) == 2 and all(domn.rat(a) is not None for a in args):
            return domn.func_atom('dot', sorted(args, key=lambda a: domn.rat(a).key()))
        return opr(fi_, args, kwargs, node) if opr else None

    def call_object(fobj, args, kwargs, node):
        if isinstance(fobj, FFpStub):
            ffp_calls.append(list(args))
            return Tup([domn.sym('SAG'), domn.sym('GRAD')])
        return None
    domn.call_ext, domn.method, domn.getattr, domn.subscript, domn.store_subscript, domn.call_prysm, domn.call_object = call_ext, method, getattr_, subscript, store_subscript, call_prysm, call_object
    list(itn.run(fn, kwargs=lambda: {'P1': domn.sym('P1'), 'S': domn.sym('S'), 'FFp': FFpStub(), 's1': domn.sym('s1'), 'eps': domn.sym('eps'), 'maxiter': Const(1)}))
    Rn = domn.R
    An = lambda nme: Rat(Rn.atom(nme))
    Pn = An('P1') + An('s1') * An('S')
    comp = lambda k: Rat(Rn.func('comp%d' % k, [Pn]))
    dotSG = Rat(Rn.func('dot', sorted([An('S'), An('GRAD')], key=lambda a: a.key())))
    want_s = An('s1') - (comp(2) - An('SAG')) / dotSG
    # what is not followed is refused, not reported: only values that WERE followed and differ are findings
    if not ffp_calls or any(len(a) != 2 or domn.rat(a[0]) is None or domn.rat(a[1]) is None for a in ffp_calls):
        raise AnalysisError('newton_raphson_solve_s: the point the surface is evaluated at is not followed (%r)' % (ffp_calls[:1],))
    if not s_stores or any(v_ is None for v_, _ in s_stores):
        raise AnalysisError('newton_raphson_solve_s: the update of the ray length is not followed')
    okp = all(domn.rat(a[0]) == comp(0) and domn.rat(a[1]) == comp(1) for a in ffp_calls)
    oks = all(v_ == want_s for v_, _ in s_stores)
    run.check(okp and oks, 'C19.normal', fn.qual, 'newton step', "s <- s - F/F' with F = Z - sag, F' = S . grad F, P = P1 + s S",
              'Newton-Raphson step changed: the surface is evaluated at %s and the ray length becomes %s (expected (x, y) of P1 + s S and s - (z - sag)/(S . grad F))'
              % ([[domn.rat(x).key() if domn.rat(x) is not None else repr(x) for x in a] for a in ffp_calls[:1]], [v_.key() if v_ is not None else '?' for v_, _ in s_stores[:1]]), fn.loc())
    # first guess: what intersect hands to the solver, by interpretation (same array algebra as above)
    from .common import capture_calls as _cc
    fi = db.func(SM + 'intersect')
    iti, domi = _ni(db)
    oe2, osub2 = domi.call_ext, domi.subscript

    def call_ext2(dotted, args, kwargs, node):
        last = dotted.rsplit('.', 1)[-1]
        if last == 'atleast_2d' and args and all(domi.rat(a) is not None for a in args):
            return Tup(list(args)) if len(args) > 1 else args[0]
        return oe2(dotted, args, kwargs, node)

    def subscript2(v, idx, node):
        if domi.rat(v) is not None:
            items = idx.items if isinstance(idx, Tup) else None
            if items is not None and all(isinstance(x, _Sl) or (isinstance(x, Const) and x.v is None) for x in items):
                return v
            if items is not None and len(items) == 2 and ((isinstance(items[0], Const) and items[0].v is Ellipsis) or isinstance(items[0], _Sl)) and isinstance(items[1], Const) and isinstance(items[1].v, int):
                return domi.func_atom('comp%d' % items[1].v, [v])
        return osub2(v, idx, node)
    domi.call_ext, domi.subscript = call_ext2, subscript2
    paths, scalls = _cc(iti, domi, fi, lambda: {'P0': domi.sym('P0'), 'S': domi.sym('S'), 'FFp': domi.sym('FFP'), 's1': domi.sym('s1'), 'eps': domi.sym('eps'), 'maxiter': domi.sym('maxiter')},
                        {SM + 'newton_raphson_solve_s'}, lambda f_, b_: Tup([domi.sym('PJ'), domi.sym('RJ')]))
    Ri = domi.R
    Ai = lambda nme: Rat(Ri.atom(nme))
    c2 = lambda arr: Rat(Ri.func('comp2', [arr]))
    want_P1 = Ai('P0') - c2(Ai('P0')) / c2(Ai('S')) * Ai('S')
    keyi = lambda v_: domi.rat(v_).key() if v_ is not None and domi.rat(v_) is not None else repr(v_)
    okg = len(scalls) == 1 and domi.rat(scalls[0][1].get('P1')) is not None and domi.rat(scalls[0][1]['P1']) == want_P1 and keyi(scalls[0][1].get('S')) == 'S' \
        and keyi(scalls[0][1].get('FFp')) == 'FFP' and keyi(scalls[0][1].get('s1')) == 's1' and keyi(scalls[0][1].get('maxiter')) == 'maxiter'
    run.check(okg, 'C19.normal', fi.qual, 'first guess', 'rays are first moved to the z = 0 plane of the surface frame: P1 = P0 - (z0/S_z) S, then solved from there',
              'intersect hands %s to the solver (expected P1 = %s)' % ([{k: keyi(v) for k, v in c_[1].items()} for c_ in scalls], want_P1.key()), fi.loc())
    # no unguarded division by the radial coordinate on the normal path
    g = db.func(SF + 'surface_normal_from_cylindrical_derivatives')
    bad = []
    for n in walk_no_nested(g.node):
        if isinstance(n, ast.BinOp) and isinstance(n.op, ast.Div) and isinstance(n.right, ast.Name) and n.right.id == 'r':
            # guarded if inside np.where(..., ..., ) / an errstate block / its result is masked by a where on r == 0
            txt = ast.unparse(g.node)
            guarded = 'np.where(r == 0' in txt.replace('  ', ' ') or 'r_safe' in txt
            if not guarded:
                bad.append(n)
    run.check(not bad, 'C19.axis0', g.qual, 'division by r', 'no unguarded division by the radial coordinate (a ray on the axis of symmetry has r = 0)',
              'the Cartesian normal is formed with `%s`: for a ray exactly on the axis (r = 0) this is inf * 0 = NaN and the ray is lost' % (ast.unparse(bad[0]) if bad else ''), g.loc(bad[0]) if bad else g.loc())
    # callers: at r == 0 the helper can only be right when the azimuthal slope vanishes identically (surface symmetric about
    # the local origin); a caller with a non-zero azimuthal slope must treat the local origin itself
    ci = db.cls(SF + 'Surface')
    ncall = 0
    for mname, m in sorted(ci.methods.items()):
        for closure in [n for n in ast.walk(m.node) if isinstance(n, ast.FunctionDef) and n is not m.node]:
            for c in [n for n in ast.walk(closure) if isinstance(n, ast.Call) and ast.unparse(n.func) == 'surface_normal_from_cylindrical_derivatives']:
                ncall += 1
                ft_arg = c.args[1] if len(c.args) > 1 else None
                symmetric = isinstance(ft_arg, ast.Constant) and ft_arg.value == 0
                if symmetric:
                    run.ok('C19.axis0', m.qual, 'azimuthal slope is identically 0: the r == 0 value of the helper is exact')
                    continue
                tgt = [ast.unparse(t) for n in ast.walk(closure) if isinstance(n, ast.Assign) and n.value is c for t in n.targets]
                outs = [x.strip('() ') for x in tgt[0].split(',')] if tgt else []
                fixed = []
                # ... or where the overriding np.where(r == 0, slope_at_origin, <out>) is written inside the return expression
                for n in ast.walk(closure):
                    if isinstance(n, ast.Call) and ast.unparse(n.func).endswith('where') and len(n.args) == 3 and getattr(n, 'lineno', 0) > c.lineno:
                        for o_ in outs:
                            if any(isinstance(a_, ast.Name) and a_.id == o_ for a_ in n.args[1:]) and o_ not in fixed:
                                par_is_assign_to_other = False
                                fixed.append(o_)
                for n in ast.walk(closure):
                    if isinstance(n, ast.Assign) and isinstance(n.targets[0], ast.Name) and n.targets[0].id in outs and isinstance(n.value, ast.Call) and ast.unparse(n.value.func).endswith('where') \
                            and n.lineno > c.lineno:
                        fixed.append(n.targets[0].id)
                run.check(len(outs) == 2 and set(fixed) == set(outs), 'C19.axis0', m.qual, 'local origin of a non-symmetric surface',
                          'the slopes at r == 0 are supplied by the caller (both Cartesian slopes overridden where r == 0) because the azimuthal slope does not vanish there',
                          '%s hands the non-zero azimuthal slope `%s` to surface_normal_from_cylindrical_derivatives and uses its r == 0 value (ft/r := 0): for a surface that is not symmetric about '
                          'its local origin the ray through that origin (the chief ray of an off-axis conic) gets a normal without the slope across the decentre' % (mname, ast.unparse(ft_arg) if ft_arg is not None else '?'), m.loc(c))
    if ncall < 2:
        if not getattr(run, 'axis_on_values', None):
            raise AnalysisError('Surface: fewer than two closures convert cylindrical slopes to a normal')
        run.info('C19.axis0: the closures of Surface that convert cylindrical slopes to a normal are not where this reading looks (%d found); '
                 'the ray through the local origin was decided on values for %d surfaces' % (ncall, run.axis_on_values))
    # formula: x = fp cos t - ft sin t / r ; y = fp sin t + ft cos t / r
    it = install_pi(Interp(db, NormDomain()))
    dom = it.dom
    R = dom.R
    dom.nonzero = {'r'}
    res = [p for p in it.run(g, kwargs=lambda: {'fp': dom.sym('fp'), 'ft': dom.sym('ft'), 'r': dom.sym('r'), 't': dom.sym('t')}) if p.outcome == 'return']
    okf = False
    for p in res:
        v = p.value
        if isinstance(v, Tup) and len(v.items) == 2 and all(dom.rat(z) is not None for z in v.items):
            fp, ft_, r_, t_ = [Rat(R.atom(a)) for a in ('fp', 'ft', 'r', 't')]
            ct, st = Rat(R.trig('cos', R.atom('t'))), Rat(R.trig('sin', R.atom('t')))
            # away from the axis
            okf = okf or (dom.rat(v.items[0]) == fp * ct - ft_ * st / r_ and dom.rat(v.items[1]) == fp * st + ft_ * ct / r_)
    run.check(okf, 'C19.normal', g.qual, 'polar to cartesian', 'dz/dx = fp cos t - ft sin t / r, dz/dy = fp sin t + ft cos t / r (off axis)', 'polar-to-Cartesian derivative formula changed', g.loc())
    # conic FFp closure wiring
    fc = db.func(SF + 'Surface.conic')
    ffp = [n for n in ast.walk(fc.node) if isinstance(n, ast.FunctionDef) and n is not fc.node]
    ok = len(ffp) == 1 and match_all(ffp[0], ['(V_r, V_t) = cart_to_polar(x, y, vec_to_grid=False)', 'V_rsq = V_r * V_r', "V_z = conic_sag(V_params['c'], V_params['k'], V_rsq)",
                                              "V_dr = conic_sag_der(V_params['c'], V_params['k'], V_r)", '(V_ddx, V_ddy) = surface_normal_from_cylindrical_derivatives(V_dr, 0, V_r, V_t)',
                                              'return (V_z, V_ddx, V_ddy)']) is not None
    # (a reading of the closure's statements; what the closure computes is decided by closure_gradient_rules -- the slopes it returns are
    # the derivative of the sag it returns -- so a closure written another way is not a report here)
    if ok:
        run.ok('C19.normal', fc.qual, 'conic wiring: sag from r^2, slope from r, same (c, k)')
    else:
        run.info('C19.normal: the conic closure is not in the statement form this reading knows; its slopes are judged against its sag by the closure rule')


NONNEG_CALLS = {'abs', 'np.abs', 'np.absolute', 'np.fabs', 'np.hypot', 'np.sqrt', 'truenp.abs', 'np.linalg.norm'}


def _single_def(fi, name, before):
    defs = [n for n in walk_no_nested(fi.node) if isinstance(n, ast.Assign) and any(isinstance(t, ast.Name) and t.id == name for t in n.targets)]
    return defs


def _nonneg(fi, expr, depth=0):
    """Syntactic proof that expr >= 0 elementwise."""
    if isinstance(expr, ast.Call) and ast.unparse(expr.func) in NONNEG_CALLS:
        return True
    if isinstance(expr, ast.BinOp) and isinstance(expr.op, ast.Mult) and ast.dump(expr.left) == ast.dump(expr.right):
        return True
    if isinstance(expr, ast.BinOp) and isinstance(expr.op, ast.Pow) and isinstance(expr.right, ast.Constant) and isinstance(expr.right.value, int) and expr.right.value % 2 == 0:
        return True
    if isinstance(expr, ast.BinOp) and isinstance(expr.op, ast.Add):
        return _nonneg(fi, expr.left, depth) and _nonneg(fi, expr.right, depth)
    if isinstance(expr, ast.Name) and depth < 4:
        defs = _single_def(fi, expr.id, expr)
        return bool(defs) and all(_nonneg(fi, d.value, depth + 1) for d in defs)
    return False


def indexspace_rules(run, db):
    """Newton-Raphson with per-ray convergence masking works in two index spaces: GLOBAL ray numbers (0..nrays) and LOCAL
    positions in the current sub-batch of unconverged rays.  Typestate over the loop body: a global-sized array is only
    subscripted by a global index set, a local-sized array only by a local one, and the carried index set stays global."""
    fn = db.func(SM + 'newton_raphson_solve_s')
    loops = [n for n in walk_no_nested(fn.node) if isinstance(n, ast.For) and 'maxiter' in ast.unparse(n.iter)]
    if len(loops) != 1:
        raise AnalysisError('newton_raphson_solve_s: iteration loop not found')
    lp = loops[0]
    GA, LA, GI, LI = 'global array', 'local array', 'global index', 'local index'
    env = {}
    # before the loop: parameters and nrays-sized buffers are global arrays; mask = arange(nrays) is the global index set
    for st in fn.node.body:
        if st is lp:
            break
        if isinstance(st, ast.Assign) and isinstance(st.targets[0], ast.Name):
            t, v = st.targets[0].id, ast.unparse(st.value)
            if 'nrays' in v or 'empty_like(P1)' in v or t == 'sj':
                env[t] = GI if 'arange' in v else GA
    env.update({'P1': GA, 'S': GA})
    gi_names = [k for k, v in env.items() if v == GI]
    if len(gi_names) != 1:
        raise AnalysisError('newton_raphson_solve_s: the set of ray numbers (`... = arange(nrays)`) was not found before the loop')
    MASK = gi_names[0]
    problems = []
    # arrays carried from one pass to the next (other than the set of ray numbers) are working copies of the rays still iterating:
    # sub-batch arrays, addressed by position in the sub-batch -- at loop entry the sub-batch is every ray, so a buffer sized by nrays
    # before the loop is the same thing
    from .common import loop_carried
    for c_ in loop_carried(lp):
        if c_ != MASK and env.get(c_) == GA and any(isinstance(n, ast.Assign) and any(isinstance(t, ast.Name) and t.id == c_ for t in n.targets) for n in ast.walk(lp)):
            env[c_] = LA

    def typ(e):
        if isinstance(e, ast.Name):
            return env.get(e.id)
        if isinstance(e, ast.Subscript):
            base, idx = typ(e.value), e.slice
            its = idx.elts if isinstance(idx, ast.Tuple) else [idx]
            kinds = [typ(i) for i in its if not isinstance(i, (ast.Slice, ast.Constant)) and ast.unparse(i) not in ('np.newaxis', '...')]
            kinds = [k for k in kinds if k in (GI, LI)]
            if base == GA:
                if LI in kinds:
                    problems.append((e, 'the global-sized array `%s` is subscripted with the LOCAL index `%s`' % (ast.unparse(e.value), ast.unparse(idx))))
                return LA if GI in kinds else GA
            if base == LA:
                if GI in kinds:
                    problems.append((e, 'the sub-batch array `%s` is subscripted with the GLOBAL index `%s`' % (ast.unparse(e.value), ast.unparse(idx))))
                return LA
            if base == GI:
                if GI in kinds:
                    problems.append((e, 'the global index set `%s` is subscripted with another global index set' % ast.unparse(e.value)))
                return GI if LI in kinds else base
            if base == LI:
                return LI
            return None
        if isinstance(e, ast.UnaryOp):
            return typ(e.operand)
        if isinstance(e, ast.Compare):
            ts = [typ(e.left)] + [typ(c) for c in e.comparators]
            return LI if LA in ts else (GI if GA in ts else None)
        if isinstance(e, ast.BinOp):
            ts = {typ(e.left), typ(e.right)}
            if GA in ts and LA in ts:
                problems.append((e, 'a global-sized and a sub-batch array are combined in `%s`' % ast.unparse(e)))
            return LA if LA in ts else (GA if GA in ts else None)
        if isinstance(e, ast.Call):
            fname = ast.unparse(e.func)
            if fname in ('np.take', 'numpy.take') and len(e.args) >= 2:
                return typ(ast.Subscript(value=e.args[0], slice=e.args[1], ctx=ast.Load()))          # np.take(a, idx) is a[idx]
            if isinstance(e.func, ast.Attribute) and e.func.attr == 'take' and len(e.args) >= 1 and typ(e.func.value) is not None:
                return typ(ast.Subscript(value=e.func.value, slice=e.args[0], ctx=ast.Load()))
            ats = [typ(a) for a in e.args]
            if fname.endswith('nonzero') or fname.endswith('flatnonzero') or fname.endswith('argwhere') or fname.endswith('where') and len(e.args) == 1:
                return LI if LI in ats else (GI if GI in ats else None)          # positions within the array that was tested
            if fname in ('abs', 'np.abs', '_multi_dot', 'FFp') or fname.startswith('np.'):
                return LA if LA in ats else (GA if GA in ats else None)
            return LA if LA in ats else None
        if isinstance(e, ast.Tuple):
            return None
        return None

    def run_block(stmts):
        for st in stmts:
            if isinstance(st, ast.Assign):
                tv = typ(st.value)
                for t in st.targets:
                    if isinstance(t, ast.Name):
                        if t.id == MASK and tv != GI:
                            problems.append((st, '`%s` replaces the carried set of GLOBAL ray numbers by %s: from the second shrink on, positions within the sub-batch are used as ray numbers, '
                                             'so the wrong rays are kept and their hit points are garbage' % (norm_stmt(st), 'a %s' % tv if tv else 'a value that is not a selection of it')))
                        env[t.id] = tv
                    elif isinstance(t, ast.Tuple):
                        for el in t.elts:
                            if isinstance(el, ast.Name):
                                env[el.id] = LA if isinstance(st.value, ast.Call) and ast.unparse(st.value.func) == 'FFp' else tv
                    elif isinstance(t, ast.Subscript):
                        bt = typ(t)          # checks the index space of the store target
                        vt = typ(st.value)
                        if typ(t.value) == GA and vt == GA and not isinstance(st.value, ast.Attribute):
                            problems.append((st, 'a global-sized value is stored through a global index in `%s`' % norm_stmt(st)))
            elif isinstance(st, ast.If):
                typ(st.test)
                run_block(st.body)
                run_block(st.orelse)
            elif isinstance(st, ast.Expr):
                typ(st.value)
    run_block(lp.body)
    run_block(lp.body)          # second pass: the state carried into the next iteration
    seen = set()
    for node, msg in problems:
        if msg in seen:
            continue
        seen.add(msg)
        run.finding('C19.normal', fn.qual, 'index space: %s' % msg[:60], 'Newton iteration index spaces: ' + msg, fn.loc(node))
    if not problems:
        known = sorted(k for k, v in env.items() if v)
        run.ok('C19.normal', fn.qual, 'index spaces consistent: global arrays by ray number, sub-batch arrays by position (%d names typed)' % len(known))
    if sum(1 for v in env.values() if v) < 10:
        raise AnalysisError('newton_raphson_solve_s: fewer than 10 names typed (%s)' % env)


def rotation_rules(run, db):
    """Tilt lists become rotation matrices: make_rotation_matrix(zyx) is orthogonal with determinant +1 for all three angles,
    which is what makes `R^T` the inverse frame transform."""
    from .common import norm_interp, block_as_function
    from ..domains.normdom import Arr
    f = db.func('prysm.coordinates.make_rotation_matrix')
    body = f.node.body
    start = next((i for i, st in enumerate(body) if isinstance(st, ast.Assign) and isinstance(st.value, ast.Call) and ast.unparse(st.value.func).endswith('cos')), None)
    if start is None or not isinstance(body[-1], ast.Return):
        raise AnalysisError('make_rotation_matrix: matrix block not found')
    ret = ast.unparse(body[-1].value)
    fn, params = block_as_function(f, body[start:-1], [ret], 'matrix')
    it, dom = norm_interp(db)
    R = dom.R
    res = [p for p in it.run(fn, kwargs=lambda: {p_: (Const(None) if p_ == ret else dom.sym(p_)) for p_ in params}) if p.outcome == 'return']
    if len(res) != 1 or not isinstance(res[0].value.items[0], Arr) or res[0].value.items[0].shape != (3, 3):
        raise AnalysisError('make_rotation_matrix: result is not a concrete 3x3 matrix')
    M = res[0].value.items[0]
    e = lambda i, j: dom.rat(M.get(i, j))
    bad = []
    for i in range(3):
        for j in range(3):
            acc = Rat(R.const(0))
            for k in range(3):
                acc = acc + e(k, i) * e(k, j)
            if not (acc == Rat(R.const(1 if i == j else 0))):
                bad.append('(R^T R)[%d,%d] = %s' % (i, j, acc.key()))
    det = e(0, 0) * (e(1, 1) * e(2, 2) - e(1, 2) * e(2, 1)) - e(0, 1) * (e(1, 0) * e(2, 2) - e(1, 2) * e(2, 0)) + e(0, 2) * (e(1, 0) * e(2, 1) - e(1, 1) * e(2, 0))
    run.check(not bad and det == Rat(R.const(1)), 'C19.rigid', f.qual, 'orthogonality', 'R^T R == I and det R == 1 for every (z, y, x) angle triple',
              'make_rotation_matrix is not a rotation: %s; det = %s -- R^T is then not the inverse of R, so going into and out of a tilted surface frame is not a rigid motion and direction cosines lose unit length'
              % ('; '.join(bad[:2]), det.key()), f.loc())
    # unpacking: (z, y, x) angles, degrees unless told otherwise, short tuples zero-filled
    ok = match_all(f.node, ['(V_g, V_b, V_a) = zyx', 'zyx = truenp.radians(zyx)', 'V_c1 = truenp.cos(V_a)', 'V_c2 = truenp.cos(V_b)', 'V_c3 = truenp.cos(V_g)',
                            'V_s1 = truenp.sin(V_a)', 'V_s2 = truenp.sin(V_b)', 'V_s3 = truenp.sin(V_g)']) is not None \
        and any(isinstance(n, ast.If) and ast.unparse(n.test).replace(' ', '') == 'notradians' and len(n.body) == 1 for n in walk_no_nested(f.node))
    if ok:
        run.ok('C19.rigid', f.qual, 'zyx = (about z, about y, about x), converted from degrees once (the unpacking has the form this rule knows)')
    elif hasattr(run, 'info'):
        run.info('C19.rigid: the angle unpacking of make_rotation_matrix has another form; which angle turns about which axis is not decided (orthogonality is)')
    # a tilt given as angles is converted by make_rotation_matrix, None stays None: decided on what _none_or_rotmat returns
    from .common import capture_calls
    from ..core.interp import Domain
    fs = db.func(SF + '_none_or_rotmat')

    class Tk(Value):
        def __init__(self, name):
            self.name = name

    class TD(Domain):
        def call_ext(self, dotted, args, kwargs, node):
            if dotted == 'builtins.isinstance' and args and isinstance(args[0], Tk):
                names = [getattr(a, 'dotted', getattr(a, 'name', '')) for a in (args[1].items if isinstance(args[1], Tup) else [args[1]])]
                return Const(any(n.rsplit('.', 1)[-1] in ('tuple', 'list', 'Iterable', 'Sequence') for n in names))
            if dotted == 'builtins.type' and args and isinstance(args[0], Tk):
                return Tk('type:tuple')
            if dotted == 'builtins.type' and args and isinstance(args[0], Const):
                return Tk('type:' + type(args[0].v).__name__)
            return None

        def compare(self, op, a, b, node):
            if isinstance(a, Tk) and a.name.startswith('type:'):
                names = [getattr(x, 'name', getattr(x, 'dotted', '')) for x in (b.items if isinstance(b, Tup) else [b])]
                hit = any(str(n).rsplit('.', 1)[-1] == a.name[5:] for n in names)
                if isinstance(op, (ast.In, ast.Eq, ast.Is)):
                    return hit
                if isinstance(op, (ast.NotIn, ast.NotEq, ast.IsNot)):
                    return not hit
            return None
    for label, arg, want in (('None', Const(None), 'none'), ('a tuple of angles', Tk('angles'), 'matrix')):
        dm_ = TD()
        itd = Interp(db, dm_)
        paths, calls = capture_calls(itd, dm_, fs, lambda: {fs.params[0]: arg}, {f.qual}, lambda f_, b_: Tk('ROT'))
        rets = [p_ for p_ in paths if p_.outcome == 'return']
        if not rets:
            raise AnalysisError('_none_or_rotmat(%s): no returning path' % label)
        for p_ in rets:
            v = p_.value
            if want == 'none':
                okv = isinstance(v, Const) and v.v is None and not calls
            else:
                if isinstance(v, Unknown):
                    raise AnalysisError('_none_or_rotmat(%s): the returned value is not followed' % label)
                okv = isinstance(v, Tk) and v.name == 'ROT' and len(calls) >= 1 and all(isinstance(list(c_[1].values())[0], Tk) and list(c_[1].values())[0].name == 'angles' for c_ in calls)
            run.check(okv, 'C19.rigid', fs.qual, 'tilt given as ' + label, 'a tilt given as %s %s' % (label, 'stays None (no rotation)' if want == 'none' else 'is converted by make_rotation_matrix'),
                      '_none_or_rotmat(%s) returns %r' % (label, getattr(v, 'name', v)), fs.loc())


def state_rules(run, db):
    """Per-surface and per-iteration state: what may flow from one iteration to the next, and the convergence predicate."""
    from .common import loop_carried
    ft = db.func(SM + 'raytrace')
    loops = [n for n in walk_no_nested(ft.node) if isinstance(n, ast.For) and 'surfaces' in ast.unparse(n.iter)]
    if len(loops) != 1:
        raise AnalysisError('raytrace: per-surface loop not found')
    carried = loop_carried(loops[0])
    bw = match_all(ft.node, ['(V_P0, V_S) = transform_to_local_coords(V_P, V_surf.P, V_S, V_surf.R)', 'V_Sn = refract(V_nj, V_np, V_S, V_r)'])
    if bw is None:
        # the loop is not in the form this structural rule reads (stages moved to helpers): what flows from surface to surface is
        # decided by the interpretation of raytrace on lists of surfaces (frame_rules: stages), including a mirror inside glass and
        # an untilted surface after a tilted one
        run.ok('C19.rigid', ft.qual, 'per-surface state: decided by interpretation of raytrace on surface lists (structural form not recognised)')
        bw = None
    if bw is not None:
        _raytrace_state(run, ft, loops, carried, bw)
    _newton_state(run, db)


def _raytrace_state(run, ft, loops, carried, bw):
    from .common import loop_carried
    allowed = {bw['V_P'], bw['V_S'], bw['V_nj']}
    NJ = bw['V_nj']
    extra = sorted(carried - allowed)
    run.check(not extra, 'C19.rigid', ft.qual, 'per-surface state',
              'only the ray (Pj, Sj) and the current index nj flow from one surface to the next; everything else is recomputed from the surface at hand (carried: %s)' % sorted(carried),
              'in the per-surface loop `%s` may keep its value from an EARLIER surface (read before it is assigned on some path through the loop body): a surface without that '
              'attribute is then processed with the previous surface\'s value (e.g. a stale rotation R^T applied to an untilted surface after a tilted one)' % ', '.join(extra), ft.loc(loops[0]))
    from .common import reaching_at_end, ENTRY
    reach = reaching_at_end(loops[0].body, NJ)
    bad = []
    for d in reach:
        if d is ENTRY:
            continue
        ok_d = isinstance(d, ast.Assign) and ast.unparse(d.value) == bw['V_np']
        if ok_d:
            par = [n for n in ast.walk(loops[0]) if isinstance(n, ast.If) and d in n.body + n.orelse]
            ok_d = any('STYPE_REFRACT' in ast.unparse(n.test) and d in n.body for n in par) or any(d in n.orelse for n in par)
        if not ok_d:
            bad.append(norm_stmt(d))
    run.check(not bad, 'C19.rigid', ft.qual, 'running index', 'the index the ray travels in changes only at a refracting surface (to that surface\'s index); mirrors and evaluation surfaces leave it alone',
              'the running refractive index can be set by %s: a mirror inside glass followed by a refracting surface is then traced with the wrong incident index (Snell violated there)' % bad, ft.loc(loops[0]))
    missing = sorted(allowed - carried)
    if missing:
        raise AnalysisError('raytrace: expected loop-carried state %s not found' % missing)


def _newton_state(run, db):
    from .common import loop_carried
    # Newton-Raphson: only the set of unconverged rays is carried; the convergence test is two-sided
    fn = db.func(SM + 'newton_raphson_solve_s')
    loops = [n for n in walk_no_nested(fn.node) if isinstance(n, ast.For) and 'maxiter' in ast.unparse(n.iter)]
    if len(loops) != 1:
        raise AnalysisError('newton_raphson_solve_s: iteration loop not found')
    carried = loop_carried(loops[0])
    mk_ = [n.targets[0].id for n in fn.node.body if isinstance(n, ast.Assign) and isinstance(n.targets[0], ast.Name) and 'arange(nrays' in ast.unparse(n.value).replace(' ', '')]
    if len(mk_) != 1:
        # the set of unconverged rays is kept some other way (a boolean array, say): what is carried is not judged here
        raise AnalysisError('newton_raphson_solve_s: the index set of unconverged rays (arange(nrays)) is not found; the iteration state is not followed')
    state_err = None
    if carried != set(mk_):
        # a working set of the unconverged rays carried along with (or instead of) their indices is another way of doing the same thing: what
        # it holds for which ray is the index-space rule's business (a global-sized array addressed with a local index is reported there);
        # this reading only knows the organisation in which nothing but the index set is carried
        state_err = 'newton_raphson_solve_s: the iteration carries %s, not only the index set of unconverged rays; the iteration state is not followed' % sorted(carried)
    else:
        run.ok('C19.normal', fn.qual, 'only the index set of unconverged rays is carried between Newton iterations (the step lengths live in sj)')
    # a tolerance test spelled np.isclose / np.allclose brings numpy's default RELATIVE tolerance (1e-5) with it unless rtol=0 is given:
    # the iteration then stops as soon as the step is below 1e-5 |s| instead of eps
    close = [n for n in ast.walk(loops[0]) if isinstance(n, ast.Call) and ast.unparse(n.func).split('.')[-1] in ('isclose', 'allclose')
             and any(isinstance(x, ast.Name) and x.id == 'eps' for x in ast.walk(n))]
    for c in close:
        rt = [k.value for k in c.keywords if k.arg == 'rtol'] + (list(c.args[2:3]) if len(c.args) > 2 else [])
        zero = bool(rt) and isinstance(rt[0], ast.Constant) and rt[0].value == 0
        run.check(zero, 'C19.normal', fn.qual, 'convergence test', 'the closeness test `%s` is absolute (rtol=0)' % ast.unparse(c)[:80],
                  'the convergence test `%s` keeps numpy\'s default relative tolerance rtol=1e-5: a ray is declared converged when its Newton step is below 1e-5 |s| rather than eps, '
                  'and the point returned sits off the surface by that much' % ast.unparse(c)[:80], fn.loc(c))
    tests = [n for n in ast.walk(loops[0]) if isinstance(n, ast.Compare) and len(n.ops) == 1 and any(isinstance(x, ast.Name) and x.id == 'eps' for x in ast.walk(n))]
    if not tests and not close:
        raise AnalysisError('newton_raphson_solve_s: convergence test against eps not found')
    for c in tests:
        lhs, op, rhs = c.left, c.ops[0], c.comparators[0]
        if isinstance(op, (ast.Gt, ast.GtE)):
            lhs, rhs = rhs, lhs
        ok = isinstance(op, (ast.Lt, ast.LtE, ast.Gt, ast.GtE)) and ast.unparse(rhs) == 'eps' and _nonneg(fn, lhs)
        run.check(ok, 'C19.normal', fn.qual, 'convergence test', 'a ray counts as converged when the MAGNITUDE of its Newton step is below eps (`%s`, left side provably >= 0)' % ast.unparse(c),
                  'the convergence test `%s` compares a signed quantity with eps: every ray whose Newton step is negative (negative sag with +z rays, rays travelling in -z, an '
                  'overshooting step) is declared converged at once and its tangent-plane point is returned as the intersection' % ast.unparse(c), fn.loc(c))
    if state_err:
        raise AnalysisError(state_err)


def closure_gradient_rules(run, db):
    """Every Surface factory hands the constructor a closure FFp(x, y) -> (z, dz/dx, dz/dy): the two slopes are the partial derivatives
    of THAT sag.  The factory is interpreted with symbolic parameters, the closure it builds is called at a generic point x = r cos t,
    y = r sin t (r != 0), and the slopes are compared with the symbolic derivative of the returned sag transformed to Cartesian
    components.  cart_to_polar is summarised as (r, t); np.where on r == 0 takes the generic branch (the axis is C19.axis0's)."""
    from ..core.norm import diff
    from ..core.interp import ClassRef
    from .common import norm_interp, bind_call
    SFQ = 'prysm.x.raytracing.surfaces.'
    ci = db.cls(SFQ + 'Surface')
    init = db.method(ci, '__init__')
    # factories: classmethods that define a closure (whatever it is called) or go through another factory of the class
    # factories: the classmethods of Surface; which of them hand a sag / slope function to the constructor is seen by running them
    # (a closure defined in the method, a module-level helper bound with functools.partial, another factory of the class ...)
    facts = [(nm, m) for nm, m in sorted(ci.methods.items()) if 'classmethod' in m.decorators and m.params]
    if len(facts) < 3:
        raise AnalysisError('Surface: fewer than three factories (%s)' % [nm for nm, _ in facts])
    n_ok = 0
    skipped = []
    for nm, m in facts:
        it, dom = norm_interp(db)
        R = dom.R
        dom.nonzero = {'r'}
        captured = {}
        op, oe, oi = dom.call_prysm, dom.call_ext, dom.instantiate

        def call_prysm(fi, args, kws, node, op=op, dom=dom):
            if fi.name == 'cart_to_polar':
                return Tup([dom.sym('r'), dom.sym('t')])
            return op(fi, args, kws, node) if op else None

        def call_ext(dotted, args, kws, node, oe=oe):
            if dotted == 'numpy.where' and len(args) == 3 and isinstance(args[0], Const) and isinstance(args[0].v, bool):
                return args[1] if args[0].v else args[2]
            if dotted in ('numpy.zeros_like', 'numpy.ones_like') and args and dom.rat(args[0]) is not None:
                return Const(0 if dotted.endswith('zeros_like') else 1)
            return oe(dotted, args, kws, node)

        def instantiate(c_, args, kws, node, oi=oi, captured=captured):
            if c_ is ci:
                captured['b'] = bind_call(init, args, kws)
                return Unknown('Surface')
            return oi(c_, args, kws, node) if oi else None
        dom.call_prysm, dom.call_ext, dom.instantiate = call_prysm, call_ext, instantiate
        kw = {}
        for p_ in m.params[1:]:
            kw[p_] = Const('refl') if p_ == 'typ' else (Const(None) if p_ in ('n', 'R', 'bounding') else (Unknown('P') if p_ == 'P' else dom.sym('par_' + p_)))
        res = [q for q in it.run(m, kwargs=lambda: dict(kw), args=lambda: [ClassRef(ci)]) if q.outcome == 'return']
        ffp = captured.get('b', {}).get('FFp')
        if not res or ffp is None:
            continue          # not a closure-building factory (or its parameters are not scalars)
        rr, tt = Rat(R.atom('r')), Rat(R.atom('t'))
        ct, st = Rat(R.trig('cos', tt)), Rat(R.trig('sin', tt))
        it._reset_run([])
        try:
            v = it.call_value(ffp, [dom.lift(rr * ct), dom.lift(rr * st)], {}, None, None)
        except Exception as e:
            skipped.append('%s (%s)' % (nm, str(e)[:60]))
            continue
        items = v.items if isinstance(v, Tup) else None
        if items is None or len(items) != 3 or any(dom.rat(q) is None for q in items):
            skipped.append('%s (result outside NORM)' % nm)
            continue
        z, dx, dy = [dom.rat(q) for q in items]
        zr, zt = diff(z, 'r', R), diff(z, 't', R)
        wx, wy = ct * zr - st * zt / rr, st * zr + ct * zt / rr
        n_ok += 1
        run.check(dx == wx and dy == wy, 'C19.normal', m.qual, 'slopes of the closure', 'the slopes Surface.%s returns with the sag are the partial derivatives of that sag' % nm,
                  'Surface.%s: at x = r cos t, y = r sin t the closure returns the sag %s with slopes (%s, %s), but the derivatives of that sag are (%s, %s): the surface normal is not normal to the surface'
                  % (nm, z.key()[:80], dx.key()[:90], dy.key()[:90], wx.key()[:90], wy.key()[:90]), m.loc())
    if skipped and hasattr(run, 'info'):
        run.info('C19.normal: closures not decided at a generic point: %s' % '; '.join(skipped))
    if n_ok < 2:
        raise AnalysisError('Surface: fewer than two factory closures could be followed (%s)' % '; '.join(skipped))


def check(run, db, tier):
    run.trust('vector algebra in NORM: vectors as linear combinations of {S, r} with Gram atoms S.S = 1, S.r = c, r.r = rho^2',
              "Snell's law in vector form: the tangential component scales by n/n'; mirror law S' = S - 2 (S.n) n")
    run.assume('not decided: Newton-Raphson convergence and intersection tolerance; total internal reflection (sqrt of a negative number) is outside the quantifier')
    run.rule('C19.unit', "refract/reflect return unit direction cosines for a normal of any length; refraction keeps the tangential component times n/n'; reflection is the mirror law")
    run.rule('C19.rigid', 'local/global frame transforms are R(X-P) and R X + P with directions rotated only; raytrace uses (P, R) in and (P, R^T) out')
    run.rule('C19.normal', 'the normal handed to the interaction is the gradient of z - sag; Newton step and first guess; polar-to-Cartesian slope formula')
    run.rule('C19.axis0', 'no unguarded division by the radial coordinate on the normal path')
    # the ray through the local origin decided on values first (constructors run, the stored closure called on a two-ray bundle):
    # the reading of the closures in normal_rules defers to it when it does not find them where it looks
    from .c19values import axis_value_rules, frame_value_rules, sag_normal_value_rules
    run.sag_normal_on_values = run.group(sag_normal_value_rules, run, db)
    run.axis_on_values = run.group(axis_value_rules, run, db)
    run.frames_on_values = run.group(frame_value_rules, run, db)
    for fn in (vector_rules, frame_rules, normal_rules, rotation_rules, state_rules, indexspace_rules, closure_gradient_rules):
        run.group(fn, run, db)
    run.forgive('axis_value_rules', ['normal_rules'])
    run.forgive('frame_value_rules', ['frame_rules'])
    run.forgive('sag_normal_value_rules', ['normal_rules'])
    # the slopes handed to the normal are the derivatives of the sag (shared with C09.rule)
    from .c02 import Proxy
    from . import c09
    run.group(c09.offaxis_rules, Proxy(run, {'C09.rule': 'C19.normal'}), db)
    run.group(c09.sag_rules, Proxy(run, {'C09.rule': 'C19.normal'}), db)
    run.require_instances('C19.unit', 4)
    run.require_instances('C19.rigid', 6)
