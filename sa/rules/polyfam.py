"""Reference definitions of the polynomial families (the oracle of the ORDER/NORM rules).

Sources: DLMF 18.9.1-2 (Jacobi, P^{(a,b)}_{n+1} = (A_n x + B_n) P_n - C_n P_{n-1}), 18.9 table (Hermite, Laguerre),
Lidl/Mullen (Dickson polynomials D_0 = 2, E_0 = 1), DLMF 18.9.15 (Jacobi derivative)."""
from fractions import Fraction

from ..core.norm import Rat
from ..domains.order import Family, OrderDomain

PJ = 'prysm.polynomials.jacobi.'
PH = 'prysm.polynomials.hermite.'
PL = 'prysm.polynomials.laguerre.'
PD = 'prysm.polynomials.dickson.'


def _x(dom):
    return Rat(dom.R.atom('x'))


def jacobi_abc(dom, a, b, n):
    n = n if isinstance(n, Rat) else Rat(dom.R.const(n))
    s = 2 * n + a + b
    A = (s + 1) * (s + 2) / (2 * (n + 1) * (n + a + b + 1))
    B = (a * a - b * b) * (s + 1) / (2 * (n + 1) * (n + a + b + 1) * s)
    C = (n + a) * (n + b) * (s + 2) / ((n + 1) * (n + a + b + 1) * s)
    return A, B, C


def fam_jacobi(dom, pv):
    a, b = pv['alpha'], pv['beta']
    x = _x(dom)
    one = Rat(dom.R.const(1))

    def c1(m):
        A, B, _ = jacobi_abc(dom, a, b, m)
        return A * x + B

    def c2(m):
        return jacobi_abc(dom, a, b, m)[2]
    return Family('jacobi', pv, one, (a + 1) + (a + b + 2) * (x - 1) / 2, c1, c2)


def fam_hermite_He(dom, pv):
    x = _x(dom)
    return Family('hermite_He', pv, Rat(dom.R.const(1)), x, lambda m: x, lambda m: m if isinstance(m, Rat) else Rat(dom.R.const(m)))


def fam_hermite_H(dom, pv):
    x = _x(dom)
    return Family('hermite_H', pv, Rat(dom.R.const(1)), 2 * x, lambda m: 2 * x, lambda m: 2 * (m if isinstance(m, Rat) else Rat(dom.R.const(m))))


def fam_laguerre(dom, pv):
    a = pv['alpha']
    x = _x(dom)
    R_ = lambda m: m if isinstance(m, Rat) else Rat(dom.R.const(m))
    return Family('laguerre', pv, Rat(dom.R.const(1)), a + 1 - x, lambda m: (2 * R_(m) + 1 + a - x) / (R_(m) + 1), lambda m: (R_(m) + a) / (R_(m) + 1))


def fam_dickson1(dom, pv):
    x = _x(dom)
    return Family('dickson1', pv, Rat(dom.R.const(2)), x, lambda m: x, lambda m: pv['alpha'])


def fam_dickson2(dom, pv):
    x = _x(dom)
    return Family('dickson2', pv, Rat(dom.R.const(1)), x, lambda m: x, lambda m: pv['alpha'])


FAMILIES = {'jacobi': fam_jacobi, 'hermite_He': fam_hermite_He, 'hermite_H': fam_hermite_H, 'laguerre': fam_laguerre,
            'dickson1': fam_dickson1, 'dickson2': fam_dickson2}

AB = {'alpha': 'alpha', 'beta': 'beta'}
FUN_TABLE = {
    PJ + 'jacobi': ('jacobi', AB), PJ + 'jacobi_seq': ('jacobi', AB), PJ + 'jacobi_der_seq': ('jacobi', {'alpha': ('alpha', 1), 'beta': ('beta', 1)}),
    PH + 'hermite_He': ('hermite_He', {}), PH + 'hermite_He_seq': ('hermite_He', {}), PH + 'hermite_He_der_seq': ('hermite_He', {}),
    PH + 'hermite_H': ('hermite_H', {}), PH + 'hermite_H_seq': ('hermite_H', {}), PH + 'hermite_H_der_seq': ('hermite_H', {}),
    PL + 'laguerre': ('laguerre', {'alpha': 'alpha'}), PL + 'laguerre_seq': ('laguerre', {'alpha': 'alpha'}),
    PD + 'dickson1': ('dickson1', {'alpha': 'alpha'}), PD + 'dickson1_seq': ('dickson1', {'alpha': 'alpha'}),
    PD + 'dickson2': ('dickson2', {'alpha': 'alpha'}), PD + 'dickson2_seq': ('dickson2', {'alpha': 'alpha'}),
}

# value functions: qualname -> (family, parameter names of the function, in order)
VALUE_FUNS = {
    PJ + 'jacobi': ('jacobi', ['alpha', 'beta']), PH + 'hermite_He': ('hermite_He', []), PH + 'hermite_H': ('hermite_H', []),
    PL + 'laguerre': ('laguerre', ['alpha']), PD + 'dickson1': ('dickson1', ['alpha']), PD + 'dickson2': ('dickson2', ['alpha']),
}
SEQ_FUNS = {
    PJ + 'jacobi_seq': ('jacobi', ['alpha', 'beta']), PH + 'hermite_He_seq': ('hermite_He', []), PH + 'hermite_H_seq': ('hermite_H', []),
    PL + 'laguerre_seq': ('laguerre', ['alpha']), PD + 'dickson1_seq': ('dickson1', ['alpha']), PD + 'dickson2_seq': ('dickson2', ['alpha']),
}


def mk_order(db):
    from ..core.interp import Interp
    from ..domains.normdom import install_pi
    dom = OrderDomain(FAMILIES, FUN_TABLE)
    it = install_pi(Interp(db, dom))
    return it, dom
