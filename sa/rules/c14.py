"""C14 -- writing then reading an instrument file returns the same map."""
import ast
import struct

from ..core.db import AnalysisError, norm_stmt, walk_no_nested
from ..core.interp import Interp, Domain, Value, Const, Tup, Unknown, Obj, DictV, ExtRef, Slice
from ..core.norm import Rat
from ..domains.normdom import NormDomain, Sym, install_pi
from .common import norm_interp, returns, as_rat

IO = 'prysm.io.'


# --------------------------------------------------------------------------
# orientation: flips compose in Z2 x Z2, with the rank the array has at that point
# --------------------------------------------------------------------------
class FlipArr(Value):
    def __init__(self, rank, ud=0, lr=0, dims=None, label=''):
        self.rank, self.ud, self.lr, self.dims, self.label = rank, ud, lr, dims, label

    def __repr__(self):
        return 'FlipArr(rank=%d, ud=%d, lr=%d, dims=%r)' % (self.rank, self.ud, self.lr, self.dims)

    def like(self, **kw):
        d = dict(rank=self.rank, ud=self.ud, lr=self.lr, dims=self.dims, label=self.label)
        d.update(kw)
        return FlipArr(**d)


class Token(Value):
    """A header value identified by its role name (e.g. 'rows', 'cols', 'GRD[1]')."""

    def __init__(self, name):
        self.name = name

    def __repr__(self):
        return 'Token(%s)' % self.name

    def __eq__(self, o):
        return isinstance(o, Token) and o.name == self.name

    def __hash__(self):
        return hash(self.name)


class FlipDomain(Domain):
    name = 'FLIP'

    def param(self, fi, name, default):
        return default if default is not None else Unknown('param')

    def call_ext(self, dotted, args, kwargs, node):
        last = dotted.rsplit('.', 1)[-1]
        a0 = args[0] if args else None
        if isinstance(a0, FlipArr):
            if last == 'flipud':
                if a0.rank >= 2:
                    return a0.like(ud=a0.ud ^ 1)
                return a0.like(ud=a0.ud ^ 1, lr=a0.lr ^ 1)        # reversing the serialised buffer
            if last == 'fliplr':
                if a0.rank >= 2:
                    return a0.like(lr=a0.lr ^ 1)
                raise AnalysisError('fliplr applied to a rank-1 array')
            if last == 'flip':
                ax = kwargs.get('axis', args[1] if len(args) > 1 else None)
                if isinstance(ax, Const) and ax.v in (0, -2) and a0.rank == 2:
                    return a0.like(ud=a0.ud ^ 1)
                if isinstance(ax, Const) and ax.v in (1, -1) and a0.rank == 2:
                    return a0.like(lr=a0.lr ^ 1)
                if a0.rank == 1:
                    return a0.like(ud=a0.ud ^ 1, lr=a0.lr ^ 1)
                return Unknown('flip')
            if last in ('copy', 'isnan', 'around', 'abs', 'asarray', 'array', 'ascontiguousarray', 'nan_to_num', 'isfinite', 'round'):
                return a0
            if last in ('nanmin', 'nanmax', 'min', 'max'):
                return Unknown('scalar')
            if last == 'savetxt':
                return Const(None)
            if last in ('transpose',) or last == 'rot90':
                return Unknown('transpose/rot90 not in the flip group model')
        if last == 'where' and len(args) == 3 and any(isinstance(a, FlipArr) for a in args[1:]):
            # np.where(mask, a, b): the mask must be in the orientation of the data it selects from (same event as a masked store)
            data = [a for a in args[1:] if isinstance(a, FlipArr)][0]
            other = [a for a in args[1:] if a is not data]
            self.interp.emit('arrstore', arr=data, index=args[0], value=other[0] if other else None, node=node)
            return data
        if last == 'savetxt' and len(args) > 1 and isinstance(args[1], FlipArr):
            self.interp.emit('serialise', arr=args[1], node=node)
            return Const(None)
        if last in ('frombuffer', 'fromstring', 'loadtxt', 'fromfile'):
            return FlipArr(1, label=last)
        if last == 'dtype' or dotted.startswith('numpy.int') or dotted.startswith('numpy.uint') or dotted.startswith('numpy.float'):
            return Unknown('dtype')
        return None

    def getattr(self, v, name, node):
        if isinstance(v, FlipArr):
            if name == 'shape':
                if v.dims is not None:
                    return Tup(list(v.dims))
                return Unknown('shape')
            if name == 'ndim':
                return Const(v.rank)
            if name == 'size':
                return Token('size')
            if name == 'T':
                return Unknown('transpose')
        return None

    def method(self, v, name, args, kwargs, node):
        if isinstance(v, FlipArr) and name in ('ravel', 'flatten', 'reshape', 'tobytes', 'copy', 'astype'):
            o = kwargs.get('order')
            if o is not None and not (isinstance(o, Const) and o.v in (None, 'C')):
                self.interp.emit('layout-order', arr=v, order=o, node=node, method=name)
        if isinstance(v, FlipArr):
            if name in ('astype', 'copy', 'newbyteorder'):
                return v
            if name == 'tobytes':
                self.interp.emit('serialise', arr=v, node=node, order=kwargs.get('order'))
                return Unknown('bytes')
            if name in ('ravel', 'flatten'):
                return v.like(rank=1)
            if name == 'reshape':
                shp = args[0] if len(args) == 1 else Tup(args)
                if isinstance(shp, Tup) and len(shp.items) == 2:
                    self.interp.emit('reshape', arr=v, dims=list(shp.items), node=node)
                    return v.like(rank=2, dims=list(shp.items))
                if isinstance(shp, Tup) and len(shp.items) == 3:
                    return Unknown('rank 3')
                return Unknown('reshape')
            if name in ('mean', 'sum', 'min', 'max'):
                return Unknown('scalar')
        return None

    def binop(self, op, a, b, node):
        for x, y in ((a, b), (b, a)):
            if isinstance(x, FlipArr):
                if isinstance(y, FlipArr) and (y.ud, y.lr, y.rank) != (x.ud, x.lr, x.rank):
                    return Unknown('arrays of different orientation combined')
                return x
        if isinstance(a, Token) or isinstance(b, Token):
            return Token('(%s)' % ' '.join(str(getattr(z, 'name', getattr(z, 'v', z))) for z in (a, b)))
        return None

    def augassign(self, op, target, val, node):
        if isinstance(target, FlipArr):
            return target
        return None

    def subscript(self, v, idx, node):
        if isinstance(v, FlipArr):
            if isinstance(idx, Const) and isinstance(idx.v, int):
                return Unknown('element')
            # x[::-1] reverses axis 0, x[:, ::-1] axis 1: the same group elements as flipud / fliplr
            items = list(idx.items) if isinstance(idx, Tup) else [idx]
            out, ax = v, 0
            for x in items:
                if isinstance(x, Const) and x.v is None:
                    continue
                if isinstance(x, Const) and x.v is Ellipsis:
                    return v if len(items) == 1 else Unknown('subscript with an ellipsis among other indices')
                if isinstance(x, Slice):
                    st_ = x.step.v if isinstance(x.step, Const) else 'unknown'
                    full = all(isinstance(z, Const) and z.v is None for z in (x.lo, x.hi))
                    if st_ in (None, 1):
                        pass
                    elif st_ == -1 and full:
                        if ax == 0:
                            out = out.like(ud=out.ud ^ 1) if out.rank >= 2 else out.like(ud=out.ud ^ 1, lr=out.lr ^ 1)
                        elif ax == 1 and out.rank >= 2:
                            out = out.like(lr=out.lr ^ 1)
                        else:
                            return Unknown('reversal of an axis the flip model does not have')
                    else:
                        return Unknown('strided subscript')
                ax += 1
            return out
        return None

    def store_subscript(self, target, idx, val, node):
        if isinstance(target, FlipArr):
            self.interp.emit('arrstore', arr=target, index=idx, value=val, node=node)
            return True
        return None

    def compare(self, op, a, b, node):
        if isinstance(a, FlipArr):
            return None
        return None

    def truth(self, v):
        return None

    def iterate(self, v, node):
        return None


def _layout_order(run, fw, results):
    """Serialisation is in C (row-major) index order whatever the memory layout of the caller's array."""
    seen = set()
    for p in results:
        for e in p.events:
            if e['kind'] == 'layout-order' and e['node'].lineno not in seen:
                seen.add(e['node'].lineno)
                run.finding('C14.orient', fw.qual, norm_stmt(e['node']), '`%s` flattens/serialises in an order that follows the MEMORY layout of the array (order=%r): a Fortran-ordered or transposed-view '
                            'map is written column-major under a row-major header and reads back transposed or scrambled' % (norm_stmt(e['node']), getattr(e['order'], 'v', e['order'])), fw.loc(e['node']))
    if not seen:
        run.ok('C14.orient', fw.qual, 'the map is flattened in C index order')


def _mask_orientation(run, fw, results):
    """Boolean-mask stores: the mask was taken from an array in the same orientation as the array it is applied to."""
    n = 0
    seen = set()
    for p in results:
        for e in p.events:
            if e['kind'] != 'arrstore' or not isinstance(e['index'], FlipArr):
                continue
            n += 1
            a, m = e['arr'], e['index']
            key = (e['node'].lineno, a.ud, a.lr, a.rank, m.ud, m.lr, m.rank)
            if key in seen:
                continue
            seen.add(key)
            run.check((a.ud, a.lr, a.rank) == (m.ud, m.lr, m.rank), 'C14.sentinel', fw.qual, 'mask orientation `%s`' % norm_stmt(e['node']),
                      'the invalid-sample mask is taken from the map in the orientation of the array it is applied to',
                      '`%s`: the mask was computed from the map %s but is applied to the map %s: invalid samples are written at mirrored positions and the valid samples at the true positions are lost'
                      % (norm_stmt(e['node']), _orient(m), _orient(a)), fw.loc(e['node']))
    if n == 0:
        raise AnalysisError('%s: no boolean-mask store of the invalid samples found' % fw.qual)


def _orient(a):
    return {(0, 0): 'as given', (1, 0): 'flipped up-down', (0, 1): 'flipped left-right', (1, 1): 'flipped both ways'}[(a.ud, a.lr)] + (' (rank %d)' % a.rank if a.rank != 2 else '')


def orientation_rules(run, db):
    # ---- Zygo
    fw, fr = db.func(IO + 'write_zygo_dat'), db.func(IO + 'read_zygo_dat')
    dom = FlipDomain()
    it = Interp(db, dom)
    rows, cols = Token('rows'), Token('cols')

    def call_prysm(fi, args, kwargs, node):
        if fi.qual == IO + '_zygo_metadata_helper':
            return None
        if fi.qual == IO + 'read_zygo_metadata':
            d = DictV()
            for k, v in (('cn_width', cols), ('cn_height', rows), ('ac_width', Const(0)), ('ac_height', Const(0)), ('ac_n_buckets', Const(0)), ('header_size', Const(834)),
                         ('phase_res', Const(1)), ('scale_factor', Unknown('S')), ('wavelength', Unknown('W')), ('obliquity_factor', Unknown('O'))):
                d.set(Const(k), v)
            return d
        return None
    dom.call_prysm = call_prysm
    wres = [p for p in it.run(fw, kwargs=lambda: {'file': Unknown('file'), 'phase': FlipArr(2, dims=[rows, cols], label='map'), 'dx': Unknown('dx'), 'wavelength': Unknown('wvl'), 'intensity': Const(None)})]
    ser = [e for p in wres for e in p.events if e['kind'] == 'serialise']
    if not ser:
        raise AnalysisError('write_zygo_dat: serialisation (tobytes) of the phase array not found')
    _mask_orientation(run, fw, wres)
    _layout_order(run, fw, wres)
    wflip = {(e['arr'].ud, e['arr'].lr, e['arr'].rank) for e in ser}
    if len(wflip) != 1:
        raise AnalysisError('write_zygo_dat: paths serialise differently oriented arrays')
    (wud, wlr, wrank), = wflip
    rres = [p for p in it.run(fr, kwargs=lambda: {'file': Unknown('file'), 'multi_intensity_action': Const('first')}) if p.outcome == 'return']
    if not rres:
        raise AnalysisError('read_zygo_dat: no returning path')
    for p in rres:
        v = p.value
        ph = v.get(Const('phase')) if isinstance(v, DictV) else None
        if not isinstance(ph, FlipArr):
            raise AnalysisError('read_zygo_dat: phase is not an array on path %s: %r' % (p.conds, ph))
        net = (ph.ud ^ wud, ph.lr ^ wlr)
        run.check(net == (0, 0) and ph.rank == 2, 'C14.orient', fr.qual, 'zygo orientation', 'reader flips compose with the writer flips to the identity (rank-aware)',
                  'write_zygo_dat then read_zygo_dat returns the map %s: the reader applies its flip %s' %
                  ({(1, 0): 'upside down', (0, 1): 'mirrored left-right', (1, 1): 'rotated by 180 degrees'}.get(net, 'with rank %d' % ph.rank),
                   'to the rank-1 buffer before reshape (which reverses both axes)' if net[1] else 'inconsistently'), fr.loc())
        run.check(ph.dims is not None and ph.dims == [rows, cols], 'C14.header', fr.qual, 'zygo shape roles', 'reshape((cn_height, cn_width)) matches the writer (height=shape[0], width=shape[1])',
                  'reader reshapes to %r but the writer stores height=shape[0], width=shape[1]' % (ph.dims,), fr.loc())
    # writer header fields for the shape
    # the header table is the local bound to _zygo_metadata_helper(); its overrides are <table>['field'][3] = value
    from ..core.pattern import find
    tabs = {b_['V_d'] for b_, _ in find(fw.node, 'V_d = _zygo_metadata_helper()')}
    sets = {}
    if len(tabs) == 1:
        for b_, n in find(fw.node, '%s[E_k][3] = E_v' % sorted(tabs)[0]):
            if isinstance(b_['E_k'], ast.Constant) and isinstance(b_['E_k'].value, str):
                sets[b_['E_k'].value] = ast.unparse(b_['E_v'])
    if not sets:
        # or: the overrides are collected in a dict {'field': value, ...} / dict(field=value, ...) handed to a helper that applies them to the table
        fields = {'scale_factor', 'obliquity_factor', 'lateral_resolution', 'cn_width', 'cn_height', 'cn_n_bytes', 'wavelength', 'phase_res', 'timestamp'}
        for n in walk_no_nested(fw.node):
            if isinstance(n, ast.Dict) and n.keys and all(isinstance(k, ast.Constant) and isinstance(k.value, str) for k in n.keys) and len({k.value for k in n.keys} & fields) >= 4:
                sets = {k.value: ast.unparse(v) for k, v in zip(n.keys, n.values)}
            if isinstance(n, ast.Call) and ast.unparse(n.func) == 'dict' and len({k.arg for k in n.keywords} & fields) >= 4:
                sets = {k.arg: ast.unparse(k.value) for k in n.keywords}
    if not sets:
        raise AnalysisError('write_zygo_dat: the header overrides (table[field][3] = value, or a dict of them) were not found')
    run.check(sets.get('cn_width') == 'phase.shape[1]' and sets.get('cn_height') == 'phase.shape[0]', 'C14.header', fw.qual, 'zygo shape fields', 'cn_width=shape[1], cn_height=shape[0]',
              'writer stores cn_width=%s, cn_height=%s' % (sets.get('cn_width'), sets.get('cn_height')), fw.loc())
    run.check(sets.get('cn_n_bytes', '').replace(' ', '') == 'phase.size*4', 'C14.header', fw.qual, 'zygo byte count', 'cn_n_bytes = 4 bytes per sample', 'cn_n_bytes = %s' % sets.get('cn_n_bytes'), fw.loc())
    return sets


def codev_rules(run, db):
    fw, fr = db.func(IO + 'write_codev_gridint'), db.func(IO + 'read_codev_gridint')
    # ---- writer: orientation and header tokens
    dom = FlipDomain()
    it = Interp(db, dom)
    rows, cols = Token('rows'), Token('cols')
    wres = it.run(fw, kwargs=lambda: {'array': FlipArr(2, dims=[rows, cols], label='map'), 'filename': Unknown('f'), 'comment': Const('c'), 'typ': Const('SUR'), 'nnb': Const(False)})
    ser = [e for p in wres for e in p.events if e['kind'] == 'serialise']
    if not ser:
        raise AnalysisError('write_codev_gridint: np.savetxt of the array not found')
    _mask_orientation(run, fw, wres)
    _layout_order(run, fw, wres)
    wflip = {(e['arr'].ud, e['arr'].lr) for e in ser}
    if len(wflip) != 1:
        raise AnalysisError('write_codev_gridint: inconsistent orientations serialised')
    (wud, wlr), = wflip
    # header f-string
    hdr = None
    for n in walk_no_nested(fw.node):
        if isinstance(n, ast.JoinedStr) and any(isinstance(v, ast.Constant) and 'GRD' in str(v.value) for v in n.values):
            hdr = n
    if hdr is None:
        raise AnalysisError('write_codev_gridint: GRD header f-string not found')
    toks = []      # sequence of ('lit', text) / ('val', expr)
    for v in hdr.values:
        if isinstance(v, ast.Constant):
            for t in str(v.value).split():
                toks.append(('lit', t))
        else:
            toks.append(('val', ast.unparse(v.value)))
    # shape unpack in the writer
    unp = None
    for n in walk_no_nested(fw.node):
        if isinstance(n, ast.Assign) and ast.unparse(n.value) == 'array.shape' and isinstance(n.targets[0], ast.Tuple):
            unp = [ast.unparse(e) for e in n.targets[0].elts]
    if unp is None or len(unp) != 2:
        raise AnalysisError('write_codev_gridint: shape unpack not found')
    wrow, wcol = unp

    def after(tok, k=1):
        for i, t in enumerate(toks):
            if t == ('lit', tok) and i + k < len(toks):
                return toks[i + k]
        return None
    g1, g2 = after('GRD', 1), after('GRD', 2)
    # ---- reader: which GRD token becomes rows of reshape
    # the reader's locals by the header token they are parsed from: under `if <tokens>[<i>].upper() == 'TOK':` the statement
    # `<name> = conv(<tokens>[<i> + k])` makes <name> the k-th value of TOK
    tokvar = {}
    for n in walk_no_nested(fr.node):
        if not (isinstance(n, ast.If) and isinstance(n.test, ast.Compare) and len(n.test.ops) == 1 and isinstance(n.test.ops[0], ast.Eq)
                and isinstance(n.test.comparators[0], ast.Constant) and isinstance(n.test.comparators[0].value, str)):
            continue
        tok = n.test.comparators[0].value
        for st in n.body:
            if isinstance(st, ast.Assign) and isinstance(st.targets[0], ast.Name) and isinstance(st.value, ast.Call) and len(st.value.args) == 1:
                a_ = st.value.args[0]
                if isinstance(a_, ast.Subscript) and isinstance(a_.slice, ast.BinOp) and isinstance(a_.slice.op, ast.Add) and isinstance(a_.slice.right, ast.Constant):
                    tokvar[(tok, a_.slice.right.value)] = st.targets[0].id
    grd = {v: k for (tok, k), v in tokvar.items() if tok == 'GRD'}
    resh = [n for n in walk_no_nested(fr.node) if isinstance(n, ast.Call) and isinstance(n.func, ast.Attribute) and n.func.attr == 'reshape']
    if len(resh) != 1 or not grd:
        raise AnalysisError('read_codev_gridint: GRD parsing / reshape not recognised')
    shp = resh[0].args[0]
    if not (isinstance(shp, ast.Tuple) and len(shp.elts) == 2):
        raise AnalysisError('read_codev_gridint: reshape argument is not a pair')
    r_rows, r_cols = [ast.unparse(e) for e in shp.elts]
    rk, ck = grd.get(r_rows), grd.get(r_cols)
    w_rows_k = 1 if g1 == ('val', wrow) else (2 if g2 == ('val', wrow) else None)
    w_cols_k = 1 if g1 == ('val', wcol) else (2 if g2 == ('val', wcol) else None)
    run.check(rk is not None and rk == w_rows_k and ck == w_cols_k, 'C14.header', fw.qual, 'GRD token order',
              'the writer puts the row/column counts where the reader takes them from (rows = GRD token %s)' % rk,
              'writer emits GRD <%s> <%s> (rows first: token %s) but the reader reshapes to (token %s, token %s): non-square maps are scrambled' % (g1[1] if g1 else '?', g2[1] if g2 else '?', w_rows_k, rk, ck), fw.loc(hdr))
    # reader orientation
    dom2 = FlipDomain()
    it2 = Interp(db, dom2)
    rres = [p for p in it2.run(fr, kwargs=lambda: {'file': Unknown('file')}) if p.outcome == 'return']
    okpaths = 0
    for p in rres:
        v = p.value
        a = v.items[0] if isinstance(v, Tup) and v.items else None
        if not isinstance(a, FlipArr):
            continue
        okpaths += 1
        net = (a.ud ^ wud, a.lr ^ wlr)
        run.check(net == (0, 0) and a.rank == 2, 'C14.orient', fr.qual, 'codev orientation', 'reader flip composes with the writer flip to the identity',
                  'write_codev_gridint then read_codev_gridint returns the map flipped (%s)' % (net,), fr.loc())
        break
    if not okpaths:
        raise AnalysisError('read_codev_gridint: no analysable returning path')
    # sentinel and scale tokens
    nda_w = after('NDA')
    # the invalid-sample mask is the local bound to np.isnan(array), whatever it is called
    masks = [n for n in walk_no_nested(fw.node) if isinstance(n, ast.Assign) and isinstance(n.targets[0], ast.Name) and ast.unparse(n.value) in ('np.isnan(array)', '~np.isfinite(array)')]
    MASKW = masks[0].targets[0].id if len(masks) == 1 else None
    stores = [n for n in walk_no_nested(fw.node) if isinstance(n, ast.Assign) and isinstance(n.targets[0], ast.Subscript) and ast.unparse(n.targets[0].slice) == MASKW]
    run.check(nda_w is not None and nda_w[0] == 'lit' and len(stores) == 1 and ast.unparse(stores[0].value) == nda_w[1], 'C14.sentinel', fw.qual, 'NDA', 'invalid samples are stored as the NDA value written in the header',
              'header NDA %s but invalid samples are stored as %s' % (nda_w, [ast.unparse(s.value) for s in stores]), fw.loc())
    # NaN mask taken before the integer cast
    lines = {ast.unparse(n.targets[0]): n.lineno for n in walk_no_nested(fw.node) if isinstance(n, ast.Assign)}
    cast = [n.lineno for n in walk_no_nested(fw.node) if isinstance(n, ast.Call) and isinstance(n.func, ast.Attribute) and n.func.attr == 'astype']
    run.check(MASKW in lines and cast and lines[MASKW] < min(cast), 'C14.sentinel', fw.qual, 'mask before cast', 'NaN mask is taken before the integer cast', 'NaN mask is not taken before the cast to int16', fw.loc())
    NDAR = tokvar.get(('NDA', 1))
    rmask = [n for n in walk_no_nested(fr.node) if isinstance(n, ast.Assign) and isinstance(n.value, ast.Compare) and len(n.value.ops) == 1 and isinstance(n.value.ops[0], ast.Eq)
             and NDAR in (ast.unparse(n.value.left), ast.unparse(n.value.comparators[0]))]
    rnan = [n for n in walk_no_nested(fr.node) if isinstance(n, ast.Assign) and isinstance(n.targets[0], ast.Subscript) and ast.unparse(n.value) == 'np.nan']
    run.check(len(rmask) == 1 and len(rnan) == 1 and rmask[0].lineno < rnan[0].lineno, 'C14.sentinel', fr.qual, 'NDA', 'reader marks samples equal to the header NDA as NaN', 'reader NDA handling changed', fr.loc())
    # scale: (x/1e3 * scale) * (1000 * WVL / SSZ) == x with WVL = header literal, SSZ = scale
    it3, dom3 = norm_interp(db)
    R = dom3.R
    x, scale = Rat(R.atom('x')), Rat(R.atom('scale'))
    wvl_w = after('WVL')
    ssz_w = after('SSZ')
    # writer side scaling expressions
    wexp = None
    pre = None
    SCALE = ssz_w[1] if ssz_w is not None and ssz_w[0] == 'val' and ssz_w[1].isidentifier() else None
    if SCALE is None:
        raise AnalysisError('write_codev_gridint: the SSZ header token is not a local name')
    for n in walk_no_nested(fw.node):
        if isinstance(n, ast.Assign) and ast.unparse(n.targets[0]) == 'array':
            t = ast.unparse(n.value).replace(' ', '')
            if t == 'array/1000.0' or t == 'array/1e3':
                pre = Rat(R.const(1)) / 1000
            if t in ('array*%s' % SCALE, '%s*array' % SCALE):
                wexp = True
    rexp = None
    WVLR, SSZR = tokvar.get(('WVL', 1)), tokvar.get(('SSZ', 1))
    if WVLR is None or SSZR is None:
        raise AnalysisError('read_codev_gridint: WVL / SSZ header values are not parsed into locals')
    for n in walk_no_nested(fr.node):
        if isinstance(n, ast.Assign) and isinstance(n.targets[0], ast.Name) and {WVLR, SSZR} <= {x_.id for x_ in ast.walk(n.value) if isinstance(x_, ast.Name)}:
            fr_frame = {WVLR: Sym(Rat(R.atom('wvl'))), SSZR: Sym(Rat(R.atom('ssz')))}
            from ..core.interp import Frame
            class _A(Value):
                pass
            # evaluate the multiplier (second operand of the product)
            v = n.value
            if isinstance(v, ast.BinOp) and isinstance(v.op, ast.Mult):
                it3._reset_run([])
                rexp = dom3.rat(it3.ev(v.right, Frame(fr, fr.module, fr_frame)))
    ok = pre is not None and wexp and rexp is not None and wvl_w is not None and wvl_w[0] == 'lit' and ssz_w == ('val', SCALE)
    if ok:
        wv = Rat(R.const(__import__('fractions').Fraction(wvl_w[1])))
        total = (x * pre * scale) * rexp.subs({'wvl': wv, 'ssz': scale})
        ok = total == x
    run.check(ok, 'C14.scale', fr.qual, 'codev scale', 'reader scale o writer scale == identity (nm -> um -> counts -> nm) with the WVL/SSZ the writer stores',
              'Code V scaling does not compose to the identity (writer pre=%s, WVL=%s, SSZ=%s, reader multiplier=%s)' % (pre, wvl_w, ssz_w, rexp.key() if rexp is not None else None), fr.loc())
    # quantisation scale: positive and bounded -> 32767 / max |valid|
    sc = [n for n in walk_no_nested(fw.node) if isinstance(n, ast.Assign) and ast.unparse(n.targets[0]) == SCALE]
    if len(sc) != 1:
        raise AnalysisError('write_codev_gridint: scale assignment not found')
    MAGS = {x_.id for x_ in ast.walk(sc[0].value) if isinstance(x_, ast.Name)}          # the magnitude the scale divides by
    res = it3.run(fw, kwargs=lambda: {'array': dom3.sym('arr'), 'filename': Unknown('f'), 'comment': Const('c'), 'typ': Const('SUR'), 'nnb': Const(False)})
    vals = []
    for p in res:
        if p.frame is not None and SCALE in p.frame.env:
            vals.append((p, dom3.rat(p.frame.env[SCALE])))
    bad = []
    for p, r in vals:
        if r is None:
            bad.append('non-scalar')
            continue
        if r.num.is_const() and r.den.is_const():
            c = r.num.const_value() / r.den.const_value()
            if not (0 < c <= 32767):
                bad.append(r.key())
            # a constant scale is only safe when the path condition bounds the MAGNITUDE of the data from above
            guards = [(ast.parse(ct, mode='eval').body, tr) for ct, tr in p.conds]
            bounded = any(isinstance(g, ast.Compare) and len(g.ops) == 1 and isinstance(g.left, ast.Name) and g.left.id in MAGS and
                          ((tr and isinstance(g.ops[0], (ast.Lt, ast.LtE))) or ((not tr) and isinstance(g.ops[0], (ast.Gt, ast.GtE)))) for g, tr in guards)
            if not bounded:
                bad.append('constant scale %s chosen under the conditions %s, none of which bounds max|value| from above' % (r.key(), [(ct, tr) for ct, tr in p.conds]))
            continue
        ok = False
        # 32767 / max(abs(nanmin(A)), abs(nanmax(A))) for one and the same A built from the input array
        inv = (32767 / r)
        if inv.den.is_const() and len(inv.num.t) == 1:
            (m, c), = inv.num.t.items()
            if len(m) == 1 and m[0][1] == 1 and c / inv.den.const_value() == 1:
                atom = m[0][0]
                info = R.info.get(atom)
                if info and info[0] == 'max' and len(info[1]) == 2:
                    inner = []
                    for z in info[1]:
                        ats = list(z.atoms()) if hasattr(z, 'atoms') else []
                        if len(ats) == 1 and R.info.get(ats[0], ('',))[0] == 'abs':
                            q = R.info[ats[0]][1][0]
                            qa = list(q.atoms())
                            if len(qa) == 1 and R.info.get(qa[0], ('',))[0] in ('nanmin', 'nanmax', 'min', 'max'):
                                inner.append((R.info[qa[0]][0], R.info[qa[0]][1][0].key()))
                    kinds = sorted(k.replace('nan', '') for k, _ in inner)
                    ok = kinds == ['max', 'min'] and len({a_ for _, a_ in inner}) == 1 and 'arr' in inner[0][1]
        if not ok:
            bad.append(r.key())
    run.check(bool(vals) and not bad, 'C14.range', fw.qual, 'quantisation scale', 'scale == 32767 / max(|min valid|, |max valid|): positive, and |x*scale| <= 32767 for every value range',
              'the int16 quantisation scale is %s; it is not 32767/max(|min|,|max|) of the valid data, so for some value ranges (all-positive above 1 um, all-negative) it is negative or too large and the product overflows int16'
              % sorted(set(bad)), fw.loc(sc[0]))


def struct_rules(run, db):
    it, dom = norm_interp(db)
    f = db.func(IO + '_zygo_metadata_helper')
    res = returns(it.run(f), f)
    d = res[0].value
    if not isinstance(d, DictV) or len(d.entries) < 100:
        raise AnalysisError('_zygo_metadata_helper does not evaluate to the field table')
    spans = []
    for k, v in d.entries:
        if not (isinstance(k, Const) and isinstance(v, Tup) and len(v.items) == 4 and all(isinstance(x, Const) for x in v.items[:3])):
            raise AnalysisError('zygo field table entry %r not constant' % (k,))
        fmt, lo, hi = v.items[0].v, v.items[1].v, v.items[2].v
        try:
            size = struct.calcsize(fmt)
        except struct.error as e:
            run.finding('C14.struct', f.qual, 'field %s' % k.v, 'invalid struct format %r: %s' % (fmt, e), f.loc())
            continue
        run.check(size == hi - lo, 'C14.struct', f.qual, 'field %s' % k.v, '%s: calcsize(%s) == %d-%d' % (k.v, fmt, hi, lo),
                  'field %s: format %r packs %d bytes but the table reserves bytes [%d, %d)' % (k.v, fmt, size, lo, hi), f.loc())
        spans.append((lo, hi, k.v))
    spans.sort()
    for (l1, h1, k1), (l2, h2, k2) in zip(spans, spans[1:]):
        run.check(h1 <= l2, 'C14.struct', f.qual, 'overlap %s/%s' % (k1, k2), 'fields %s and %s do not overlap' % (k1, k2), 'fields %s [%d,%d) and %s [%d,%d) overlap' % (k1, l1, h1, k2, l2, h2), f.loc())
    run.check(spans[-1][1] <= 834, 'C14.struct', f.qual, 'header size', 'all fields lie within the 834-byte header', 'field %s ends at byte %d > 834' % (spans[-1][2], spans[-1][1]), f.loc())
    hs = d.get(Const('header_size'))
    run.check(isinstance(hs, Tup) and hs.items[3] == Const(834), 'C14.struct', f.qual, 'header_size default', 'header_size default is 834', 'header_size default is %r' % (hs,), f.loc())
    for q, nm in ((IO + 'write_zygo_dat', 'writer'), (IO + 'read_zygo_metadata', 'reader')):
        fi = db.func(q)
        from .common import reachable_calls
        if '_zygo_metadata_helper' in reachable_calls(db, fi):
            run.ok('C14.struct', fi.qual, '%s uses the shared field table' % nm)
        elif getattr(run, 'c14_decided', {}).get('zygo'):
            # sharing one table is a means; what it is for -- every field the reader decodes is read with the code and at the place it was
            # written -- was decided by composition on this tree
            run.info('C14.struct: the %s does not call _zygo_metadata_helper; that reader and writer agree on the layout of every field that is read back was decided by composition' % nm)
        else:
            raise AnalysisError('the %s does not call _zygo_metadata_helper and the layout agreement was not decided by composition: which table it uses is not followed' % nm)
    fw = db.func(IO + 'write_zygo_dat')
    # the header buffer may be allocated by a helper the writer calls
    mod_ = fw.module
    owners = [fw] + [g for g in mod_.functions.values() if g.name in reachable_calls(db, fw)]
    bufs = [n for g in owners for n in walk_no_nested(g.node) if isinstance(n, ast.Call) and ast.unparse(n.func).endswith('create_string_buffer')]
    if len(bufs) != 1 or not bufs[0].args:
        if getattr(run, 'c14_decided', {}).get('zygo'):
            # a header of another length than the header_size the reader skips would misplace every sample: decided by composition
            run.info('C14.struct: the allocation of the header buffer is not read (no single create_string_buffer call); that the phase block starts where the reader '
                     'looks for it was decided by composition')
            return
        raise AnalysisError('write_zygo_dat: the allocation of the header buffer (one create_string_buffer call) is not found')
    from ..core.interp import Interp as _Interp, Domain as _Domain, Frame as _Frame
    _it = _Interp(db, _Domain())
    _it._reset_run([])
    size_v = _it.ev(bufs[0].args[0], _Frame(None, mod_, {}))           # a literal or a module-level constant
    if not (isinstance(size_v, Const) and isinstance(size_v.v, int)):
        raise AnalysisError('write_zygo_dat: the size of the header buffer (%s) is not a constant this rule follows' % ast.unparse(bufs[0].args[0]))
    run.check(size_v.v == 834, 'C14.struct', fw.qual, 'buffer size', 'header buffer is 834 bytes', 'the header buffer is %d bytes, the format has an 834-byte header' % size_v.v, fw.loc())


def _field_sources(fi, e, depth=0):
    """Where a value comes from: set of (callee name, (field, ...)) for a name / constant-subscript chain whose root local is
    bound to a call (`z = read(...)`, `m = z['meta']`, `r = m['lateral_resolution']` -> ('read', ('meta', 'lateral_resolution')))."""
    chain = []
    while isinstance(e, ast.Subscript) and isinstance(e.slice, ast.Constant):
        chain.insert(0, e.slice.value)
        e = e.value
    out = set()
    if isinstance(e, ast.Call):
        out.add((ast.unparse(e.func), tuple(chain)))
    elif isinstance(e, ast.Name) and depth < 6:
        for n in walk_no_nested(fi.node):
            if isinstance(n, ast.Assign) and any(isinstance(t, ast.Name) and t.id == e.id for t in n.targets):
                for c_, ch in _field_sources(fi, n.value, depth + 1):
                    out.add((c_, ch + tuple(chain)))
    return out


def zygo_scale_rules(run, db, sets):
    from ..core.pattern import find
    it, dom = norm_interp(db)
    R = dom.R
    fw, fr = db.func(IO + 'write_zygo_dat'), db.func(IO + 'read_zygo_dat')
    from ..core.interp import Frame
    orig_ext = dom.call_ext

    def call_ext(dotted, args, kwargs, node):
        # orientation is the FLIP domain's business; for the scale a flip is the identity
        if dotted in ('numpy.flipud', 'numpy.fliplr', 'numpy.flip', 'numpy.ascontiguousarray') and args:
            return args[0]
        return orig_ext(dotted, args, kwargs, node)
    dom.call_ext = call_ext

    def env_of(fi, seed, stop=None):
        """evaluate every top-level `name = expr` in source order (names seeded by role are kept)."""
        it._reset_run([])
        fr_ = Frame(fi, fi.module, dict(seed))
        for st in sorted([n for n in walk_no_nested(fi.node) if isinstance(n, ast.Assign) and isinstance(n.targets[0], ast.Name)], key=lambda s_: s_.lineno):
            if stop is not None and st.lineno >= stop:
                break
            if st.targets[0].id in seed and st.targets[0].id not in fi.params:
                continue
            try:
                fr_.env[st.targets[0].id] = it.ev(st.value, fr_)
            except Exception:
                fr_.env[st.targets[0].id] = Unknown('eval')
        return fr_
    # writer: counts = phase / 1e9 * (1/sf) with sf = W S O / R; the cast statement is `<name> = (<expression>).astype(<int>)`
    casts = [n for n in walk_no_nested(fw.node) if isinstance(n, ast.Assign) and isinstance(n.targets[0], ast.Name) and isinstance(n.value, ast.Call)
             and isinstance(n.value.func, ast.Attribute) and n.value.func.attr == 'astype' and not isinstance(n.value.func.value, ast.Name)]
    cnt = None
    if len(casts) == 1:
        wf = env_of(fw, {'wavelength': dom.sym('wavelength'), 'phase': dom.sym('x')}, stop=casts[0].lineno)
        wf.env['phase'] = dom.sym('x')
        it._reset_run([])
        cnt = dom.rat(it.ev(casts[0].value.func.value, wf))
    IM = casts[0].targets[0].id if len(casts) == 1 else None
    # reader: phase = raw * (W S O / R) * 1e9 with header values; the locals are identified by the header field they are read from
    roles = {'wavelength': 'Wh', 'scale_factor': 'Sh', 'obliquity_factor': 'Oh', 'phase_res': 'res_h'}
    seed = {}
    for b_, n in find(fr.node, 'V_x = V_m[E_k]'):
        if isinstance(b_['E_k'], ast.Constant) and b_['E_k'].value in roles:
            seed[b_['V_x']] = dom.sym(roles[b_['E_k'].value])
    for b_, n in find(fr.node, 'V_R = ZYGO_PHASE_RES_FACTORS[V_res]'):
        if b_['V_res'] in seed:
            seed[b_['V_R']] = dom.sym('Rh')
    if len(seed) != 5:
        raise AnalysisError('read_zygo_dat: the header values (wavelength, scale_factor, obliquity_factor, phase_res and its factor) are not all read into locals: %s' % sorted(seed))
    rf = env_of(fr, seed)
    rets = [n for n in walk_no_nested(fr.node) if isinstance(n, ast.Return) and isinstance(n.value, ast.Dict)]
    out_phase = {ast.unparse(v) for n in rets for k, v in zip(n.value.keys, n.value.values) if isinstance(k, ast.Constant) and k.value == 'phase'}
    mult = None
    nm = 0
    for n in sorted([n for n in walk_no_nested(fr.node) if isinstance(n, ast.AugAssign) and isinstance(n.op, ast.Mult)], key=lambda s_: s_.lineno):
        it._reset_run([])
        try:
            v_ = dom.rat(it.ev(n.value, rf))
        except Exception:
            v_ = None
        if v_ is not None and v_.atoms() & {'Wh', 'Sh', 'Oh', 'Rh'} and ast.unparse(n.target) in out_phase:
            mult = v_
            nm += 1
    if nm > 1:
        raise AnalysisError('read_zygo_dat: the returned phase is scaled more than once')
    if cnt is None or mult is None:
        # the conversion lives in a helper / another statement form: nothing to compose, nothing to report
        raise AnalysisError('zygo scale: the writer\'s nm -> counts conversion (%s) or the reader\'s counts -> nm scale (%s) is not followed'
                            % ('found' if cnt is not None else 'not found', 'found' if mult is not None else 'not found'))
    ok = True
    detail = 'writer counts = %s, reader scale = %s' % (cnt.key(), mult.key())
    if ok:
        # header values the writer stores: W = wavelength/1e6, S = 1, O = 1, phase_res = 1 -> R = factor[1]
        try:
            # the stored values may be written through locals of the writer (phase_res = 1 ...): evaluate them in its environment
            wenv = env_of(fw, {'wavelength': dom.sym('wavelength'), 'phase': dom.sym('x')})
            it._reset_run([])
            Wst = dom.rat(it.ev(ast.parse(sets.get('wavelength', 'None'), mode='eval').body, wenv))
            Sst = dom.rat(it.ev(ast.parse(sets.get('scale_factor', 'None'), mode='eval').body, wenv))
            Ost = dom.rat(it.ev(ast.parse(sets.get('obliquity_factor', 'None'), mode='eval').body, wenv))
            res_v = it.ev(ast.parse(sets.get('phase_res', 'None'), mode='eval').body, wenv)
        except Exception as e:
            raise AnalysisError('zygo header values not analysable: %s' % e)
        table = it.lookup_global('ZYGO_PHASE_RES_FACTORS', fw.module)
        Rst = table.get(Const(int(res_v.v))) if isinstance(res_v, Const) and isinstance(res_v.v, int) else None
        if None in (Wst, Sst, Ost) or Rst is None:
            raise AnalysisError('zygo header values (W,S,O,phase_res) not found in the writer')
        total = cnt * mult.subs({'Wh': Wst, 'Sh': Sst, 'Oh': Ost, 'Rh': dom.rat(Rst)})
        ok = total == Rat(R.atom('x'))
        detail = 'composition = %s' % total.key()
    run.check(ok, 'C14.scale', fr.qual, 'zygo scale', 'reader scale o writer scale == identity with the (W, S, O, phase_res) the writer stores in the header',
              'Zygo scaling does not compose to the identity: %s' % detail, fr.loc())
    # sentinel: the invalid samples of the integer array get the invalid-phase constant, by a masked store or by np.where
    sw = []          # (statement, mask name, stored value text)
    for n in walk_no_nested(fw.node):
        if isinstance(n, ast.Assign) and isinstance(n.targets[0], ast.Subscript) and isinstance(n.targets[0].value, ast.Name) and n.targets[0].value.id == IM \
                and isinstance(n.targets[0].slice, ast.Name):
            sw.append((n, n.targets[0].slice.id, ast.unparse(n.value)))
        if isinstance(n, ast.Assign) and isinstance(n.value, ast.Call) and ast.unparse(n.value.func) in ('np.where', 'numpy.where') and len(n.value.args) == 3 \
                and isinstance(n.value.args[0], ast.Name) and ast.unparse(n.value.args[2]) == IM:
            sw.append((n, n.value.args[0].id, ast.unparse(n.value.args[1])))
    rw = [n for n in walk_no_nested(fr.node) if isinstance(n, ast.Assign) and isinstance(n.targets[0], ast.Subscript) and ast.unparse(n.value) == 'np.nan']
    if len(sw) != 1 or len(rw) != 1:
        raise AnalysisError('zygo sentinel: the store of the invalid-phase code in the writer (%d found) or the NaN store in the reader (%d found) is not followed' % (len(sw), len(rw)))
    ok = sw[0][2] == 'ZYGO_INVALID_PHASE' and 'ZYGO_INVALID_PHASE' in ast.unparse(rw[0].targets[0]) and '>=' in ast.unparse(rw[0].targets[0])
    run.check(ok, 'C14.sentinel', fw.qual, 'zygo sentinel', 'writer stores and reader tests the same invalid-phase constant', 'Zygo invalid-phase sentinel differs between writer and reader', fw.loc())
    MASK = sw[0][1] if len(sw) == 1 else None
    mk = [n for n in walk_no_nested(fw.node) if isinstance(n, ast.Assign) and ast.unparse(n.targets[0]) == MASK]
    cast = casts
    # the mask is isnan of the very array that is scaled and cast (the already flipped map), taken before the cast
    cast_names = {x.id for x in ast.walk(casts[0].value.func.value) if isinstance(x, ast.Name)} if len(casts) == 1 else set()
    okmask = len(mk) == 1 and len(cast) == 1 and mk[0].lineno < cast[0].lineno and isinstance(mk[0].value, ast.Call) and ast.unparse(mk[0].value.func).endswith('isnan') \
        and len(mk[0].value.args) == 1 and isinstance(mk[0].value.args[0], ast.Name) and mk[0].value.args[0].id in cast_names
    if okmask:
        src = mk[0].value.args[0].id
        flp = [n for n in walk_no_nested(fw.node) if isinstance(n, ast.Assign) and ast.unparse(n.targets[0]) == src and 'flip' in ast.unparse(n.value)]
        okmask = all(f_.lineno < mk[0].lineno for f_ in flp)
    run.check(okmask, 'C14.sentinel', fw.qual, 'zygo mask', 'NaN mask taken from the (already flipped) map before the integer cast', 'NaN mask is not taken from the flipped map before the cast', fw.loc())
    # lateral resolution / wavelength round trip through Interferogram: decided by interpreting the loader (the file readers
    # summarised as dictionaries of symbols, the constructor inlined) and composing it with the values the writer stores
    from .common import capture_calls, bind_call
    from ..core.interp import DictV, Obj
    fi = db.func('prysm.interferogram.Interferogram.from_zygo_dat')
    itl, doml = norm_interp(db)
    itt_, domt_ = norm_interp(db)
    ft_ = db.func(IO + '_zygo_metadata_helper')
    tv = returns(itt_.run(ft_), ft_)[0].value
    table_fields = [(k.v, (v.items[3].v if isinstance(v.items[3], Const) else None)) for k, v in tv.entries if isinstance(k, Const) and isinstance(v, Tup) and len(v.items) == 4]
    if len(table_fields) < 100:
        raise AnalysisError('the Zygo header table could not be evaluated')

    def reader_result(fi_, b_):
        meta = DictV()
        if fi_.name == 'read_zygo_dat':
            # every field of the header table is present in the metadata of a .dat file: numbers as symbols, text fields with their default
            for k_, v_ in table_fields:
                meta.set(Const(k_), Const(v_) if isinstance(v_, str) else doml.sym('H_' + k_))
            meta.set(Const('lateral_resolution'), doml.sym('LR'))
            meta.set(Const('wavelength'), doml.sym('WLm'))
        else:
            meta.set(Const('Lateral Resolution'), doml.sym('LRx'))
            meta.set(Const('Wavelength'), doml.sym('WLx'))
        d = DictV()
        d.set(Const('phase'), doml.sym('PH_' + fi_.name))
        d.set(Const('intensity'), doml.sym('INT_' + fi_.name))
        d.set(Const('meta'), meta)
        return d
    paths, rcalls = capture_calls(itl, doml, fi, lambda: {'path': doml.sym('path'), 'multi_intensity_action': Const('first')}, {IO + 'read_zygo_dat', IO + 'read_zygo_datx'}, reader_result)
    loaded = [p_ for p_ in paths if p_.outcome == 'return' and isinstance(p_.value, Obj)]
    if not loaded:
        raise AnalysisError('from_zygo_dat: no path returns an Interferogram')
    RL = doml.R
    AL = lambda nme: Rat(RL.atom(nme))
    dat_paths = 0
    for p_ in loaded:
        o = p_.value
        ph = doml.rat(o.attrs.get('data'))
        if ph is None or ph.key() != 'PH_read_zygo_dat':
            continue                    # the .datx branch is outside this property
        dat_paths += 1
        dxv, wlv = doml.rat(o.attrs.get('dx')), doml.rat(o.attrs.get('wavelength'))
        it._reset_run([])
        wenv2 = Frame(fw, fw.module, {'dx': dom.sym('dx'), 'wavelength': dom.sym('wavelength')})
        try:
            lr_w = dom.rat(it.ev(ast.parse(sets.get('lateral_resolution', 'None'), mode='eval').body, wenv2))
            wl_w = dom.rat(it.ev(ast.parse(sets.get('wavelength', 'None'), mode='eval').body, wenv2))
        except Exception:
            lr_w = wl_w = None
        okdx = dxv is not None and lr_w is not None and dxv.atoms() <= {'LR'} and Rat(dom.R.atom('dx')) == _resub(dom, dxv, 'LR', lr_w)
        run.check(okdx, 'C14.scale', fi.qual, 'lateral resolution', 'dx: mm -> m in the file -> mm on load',
                  'lateral resolution units do not round trip: the writer stores %s, the loader turns the stored value LR into dx = %s' % (sets.get('lateral_resolution'), dxv.key() if dxv is not None else '?'), fi.loc())
        okwl = wlv is not None and wl_w is not None and wlv.atoms() <= {'WLm'} and Rat(dom.R.atom('wavelength')) == _resub(dom, wlv, 'WLm', wl_w)
        run.check(okwl, 'C14.scale', fi.qual, 'wavelength field', "the loaded object's wavelength is the header field 'wavelength' (the one write_zygo_dat stores), m -> um",
                  "the loaded wavelength is %s of the header (writer stores %s under 'wavelength'): a saved wavelength does not come back unchanged" % (wlv.key() if wlv is not None else repr(o.attrs.get('wavelength')), sets.get('wavelength')), fi.loc())
        inten = doml.rat(o.attrs.get('intensity')) if o.attrs.get('intensity') is not None else None
        okm = inten is not None and inten.key() == 'INT_read_zygo_dat' and isinstance(o.attrs.get('meta'), DictV) and o.attrs['meta'].get(Const('lateral_resolution')) is not None
        run.check(okm, 'C14.scale', fi.qual, 'loader wiring', 'phase, intensity and header of the file go to the object', 'from_zygo_dat does not hand the intensity / header of the file to the object', fi.loc())
    if dat_paths == 0:
        raise AnalysisError('from_zygo_dat: no path loads a .dat file')
    fs = db.func('prysm.interferogram.Interferogram.save_zygo_dat')
    its, doms = norm_interp(db)
    cis = db.cls('prysm.interferogram.Interferogram')

    def mkself_s():
        o = Obj(cis)
        o.attrs.update({'data': doms.sym('DATA'), 'dx': doms.sym('DX'), 'wavelength': doms.sym('WL'), 'intensity': Const(None), '_latcaled': Unknown('calibration flag')})
        return o
    paths, wcalls = capture_calls(its, doms, fs, lambda: {'file': doms.sym('file')}, {IO + 'write_zygo_dat'}, lambda fi_, b_: Const(None), self_obj=mkself_s)
    keys_ = lambda v_: doms.rat(v_).key() if v_ is not None and doms.rat(v_) is not None else repr(v_)
    oks = len(wcalls) >= 1 and all(keys_(c_[1].get('phase')) == 'DATA' and keys_(c_[1].get('dx')) == 'DX' and keys_(c_[1].get('wavelength')) == 'WL' for c_ in wcalls)
    run.check(oks, 'C14.scale', fs.qual, 'save', 'save passes data [nm], dx [mm], wavelength [um]', 'save_zygo_dat calls write_zygo_dat with %s' % [{k: keys_(v) for k, v in c_[1].items()} for c_ in wcalls], fs.loc())


def _resub(dom_target, r_src, atom, value):
    """r_src (a Rat of another ring, affine in `atom` with constant coefficients) evaluated at atom = value, in dom_target's ring."""
    from ..core.norm import Rat as _R
    R = dom_target.R
    ring = r_src.num.R
    z = r_src.subs({atom: _R(ring.const(0))})
    o = r_src.subs({atom: _R(ring.const(1))})
    if z is None or o is None or not (z.num.is_const() and z.den.is_const() and o.num.is_const() and o.den.is_const()):
        return None
    c0 = z.num.const_value() / z.den.const_value()
    c1 = o.num.const_value() / o.den.const_value() - c0
    return _R(R.const(c0)) + _R(R.const(c1)) * value


def trunc_rules(run, db):
    from ..core.pattern import match_all
    fr = db.func(IO + 'read_zygo_dat')
    tries = [n for n in walk_no_nested(fr.node) if isinstance(n, ast.Try)]
    is_fb = lambda st: isinstance(st, ast.Assign) and isinstance(st.value, ast.Call) and ast.unparse(st.value.func).endswith('frombuffer')
    phase_try = [t for t in tries if t.body and is_fb(t.body[0])]
    if len(phase_try) != 1:
        raise AnalysisError('read_zygo_dat: try around the phase block (np.frombuffer) not found')
    t = phase_try[0]
    fb = match_all(t.body[0], ['V_raw = np.frombuffer(V_c, offset=E_off, count=V_n, dtype=E_dt)'])
    if fb is None:
        raise AnalysisError('read_zygo_dat: the phase block is not read by np.frombuffer(contents, offset=..., count=..., dtype=...)')
    for h in t.handlers:
        body = h.body
        ends_raise = isinstance(body[-1], ast.Raise)
        warns = any(isinstance(n, ast.Call) and ast.unparse(n.func) == 'warnings.warn' for st in body for n in ast.walk(st))
        marks = [st for st in body if isinstance(st, ast.Assign) and isinstance(st.targets[0], ast.Subscript) and ast.unparse(st.value) == 'ZYGO_INVALID_PHASE']
        tail = False
        cover = False
        if marks:
            sl = marks[0].targets[0].slice
            tail = isinstance(sl, ast.Slice) and sl.upper is None and isinstance(sl.lower, ast.UnaryOp) and isinstance(sl.lower.op, ast.USub) and isinstance(sl.lower.operand, ast.Name)
            if tail:
                # the number of marked samples must be ceil(missing bytes / 4) with missing = 4 * count - (len(contents) - offset): covers every partially missing sample
                env = {'V_c': fb['V_c'], 'V_n': fb['V_n'], 'V_bt': sl.lower.operand.id}
                for count in ('V_bt = math.ceil(len(V_miss) / 4)', 'V_bt = -(-len(V_miss) // 4)'):
                    for valid in (['V_o = E_off', 'V_valid = len(V_c) - V_o'], ['V_valid = len(V_c) - E_off']):
                        b_ = match_all(body, valid + ['V_miss = bytes(V_n * 4 - V_valid)', count], env=dict(env))
                        if b_ is not None and ast.dump(b_['E_off']) == ast.dump(fb['E_off']):
                            cover = True
        run.check(ends_raise or (warns and marks and tail and cover), 'C14.trunc', fr.qual, 'truncated phase block',
                  'a short phase block is rejected, or warned about and the missing tail (ceil(missing bytes/4) samples) marked invalid',
                  'truncated-data handler neither raises nor (warns and marks every missing sample invalid): warn=%s, marks=%s, tail-slice=%s, covers-all-missing=%s' % (warns, bool(marks), tail, cover), fr.loc(h))
    # the marked samples must survive: sentinel test happens after the handler and is >=
    # intensity block: no handler (a short buffer raises)
    has_fb = lambda st: isinstance(st, ast.Assign) and any(isinstance(x_, ast.Call) and ast.unparse(x_.func).endswith('frombuffer') for x_ in ast.walk(st.value))
    inten = [n for n in walk_no_nested(fr.node) if has_fb(n) and not any(any(x is n for x in ast.walk(tt)) for tt in tries)]
    run.check(bool(inten), 'C14.trunc', fr.qual, 'truncated intensity block', 'a file cut inside the intensity block raises (no handler)', 'the intensity block read is wrapped in a handler', fr.loc())


def check(run, db, tier):
    run.trust('FLIP domain: np.flipud on a rank-1 buffer reverses it, which after reshape is a flip of both axes; flips form Z2 x Z2',
              'struct.calcsize for the header formats (constant folding in the checker); NORM for the scale compositions',
              'Code V grid format: GRD <nx> <ny>: the reader convention (first token = columns) is the reference')
    run.assume('not decided: the one-quantisation-step error bound itself and int32 range of Zygo counts (values); Zygo ASCII / datx paths')
    run.rule('C14.orient', 'reader flips compose with the writer flips to the identity, taking the array rank at each flip into account (Zygo, Code V)')
    run.rule('C14.header', 'header tokens/fields are written and read in the same roles (rows/columns, byte count)')
    run.rule('C14.struct', 'the Zygo field table is self-consistent (sizes, no overlap, 834 bytes) and shared by reader and writer')
    run.rule('C14.scale', 'reader scale o writer scale is the identity given the header values the writer stores; dx and wavelength units round trip')
    run.rule('C14.sentinel', 'the same invalid-sample constant is written and tested; NaN masks are taken before integer casts')
    run.rule('C14.range', 'Code V quantisation scale is 32767/max|valid| (positive, no int16 overflow for any value range)')
    run.rule('C14.trunc', 'a truncated data block raises, or warns and marks every missing sample invalid')
    run.rule('C14.compose', 'the reader interpreted on the symbolic file the writer produces returns the map that went in: shape, orientation, invalid samples, '
             'values up to the quantisation, wavelength and spacing (2x3, 3x2, 1x3, 3x1 maps of symbolic samples; Code V also at the line width the writer names; '
             'Zygo also with a camera frame)')
    # decided by composition first (FILE domain): these do not read how the routines are organised
    from . import c14compose as cmp_
    decided = {}
    for key, fn in (('codev', cmp_.codev_compose_rules), ('zygo', cmp_.zygo_compose_rules), ('trunc', cmp_.zygo_truncation_rules), ('ifg', cmp_.interferogram_compose_rules)):
        decided[key] = run.group(fn, run, db)
    decided['zygo+ifg'] = min(decided['zygo'] or 0, decided['ifg'] or 0)
    run.c14_decided = decided

    def reading(fn, key, credits):
        # a rule group that reads the organisation of the routines (statements, locals by role): when it cannot read them and the same
        # facts were decided by composition, that is said and the instance floors it would have filled are credited
        def rule(*a):
            try:
                return fn(*a)
            except AnalysisError as e:
                if not decided.get(key):
                    raise
                run.info('%s does not read this organisation of the routines (%s); the facts it states were decided by composition (%d compositions)'
                         % (fn.__name__, str(e)[:160], decided[key]))
                for r_, n_ in credits:
                    run.credit(r_, n_, '%s refused; decided by composition' % fn.__name__)
                return None
        rule.__name__ = fn.__name__
        return rule
    sets = run.group(reading(orientation_rules, 'zygo', (('C14.orient', 1),)), run, db) or {}
    run.group(reading(codev_rules, 'codev', (('C14.orient', 1), ('C14.scale', 1))), run, db)
    run.group(struct_rules, run, db)
    if sets:
        run.group(reading(zygo_scale_rules, 'zygo+ifg', (('C14.scale', 3),)), run, db, sets)
    elif decided.get('zygo+ifg'):
        run.credit('C14.scale', 3, 'the header overrides were not read; Zygo scale and the unit conversions of the Interferogram layer decided by composition')
        run.info('zygo_scale_rules not run (the header overrides of write_zygo_dat were not read): scale, sentinel, mask placement and the unit conversions '
                 'around the file layer were decided by composition')
    run.group(reading(trunc_rules, 'trunc', ()), run, db)
    run.forgive('codev_compose_rules', ['codev_rules'], (('C14.compose', 8),))
    run.forgive('zygo_compose_rules', ['orientation_rules', 'zygo_scale_rules', 'struct_rules'], (('C14.compose', 6),))
    run.forgive('interferogram_compose_rules', ['zygo_scale_rules'], (('C14.compose', 2),))
    run.forgive('zygo_truncation_rules', ['trunc_rules'], (('C14.trunc', 40),))
    run.require_instances('C14.struct', 150)
    run.require_instances('C14.orient', 2)
    run.require_instances('C14.scale', 4)
    run.require_instances('C14.compose', 14)
    run.require_instances('C14.trunc', 40)
