"""C09 -- derivative functions are the derivatives of the functions they name."""
import ast

from ..core.db import AnalysisError, norm_stmt, walk_no_nested
from ..core.interp import Const, Tup, Unknown, Frame, _Return, Slice
from ..core.norm import Rat, diff, NormError
from ..domains.normdom import Sym
from . import polyfam as PF
from . import c07, c08
from .common import norm_interp, returns, as_rat

P = 'prysm.polynomials.'
Q = 'prysm.polynomials.qpoly.'


def identity_rules(run, db):
    """*_der(n) against the reference identity in terms of the value function (uninterpreted)."""
    table = [
        (PF.PJ + 'jacobi_der', PF.PJ + 'jacobi', ['alpha', 'beta'],
         lambda d, n, pv, V: (n + pv['alpha'] + pv['beta'] + 1) / 2 * V(n - 1, pv['alpha'] + 1, pv['beta'] + 1), 'd/dx P_n^(a,b) = (n+a+b+1)/2 P_(n-1)^(a+1,b+1)'),
        (PF.PH + 'hermite_He_der', PF.PH + 'hermite_He', [], lambda d, n, pv, V: n * V(n - 1), "He_n' = n He_(n-1)"),
        (PF.PH + 'hermite_H_der', PF.PH + 'hermite_H', [], lambda d, n, pv, V: 2 * n * V(n - 1), "H_n' = 2 n H_(n-1)"),
        (PF.PL + 'laguerre_der', PF.PL + 'laguerre', ['alpha'], lambda d, n, pv, V: -V(n - 1, pv['alpha'] + 1), "d/dx L_n^(a) = -L_(n-1)^(a+1)"),
    ]
    for qual, vq, pnames, ref, text in table:
        f = db.func(qual)
        it, dom = PF.mk_order(db)
        R = dom.R
        dom.lower['n'] = 0
        vname = vq.split('.')[-1]

        def call_prysm(fi, args, kwargs, node, dom=dom, vq=vq):
            if fi.qual == vq:
                return dom.func_atom(fi.name, list(args))
            return None
        dom.call_prysm = call_prysm
        n = Rat(R.atom('n'))
        x = Rat(R.atom('x'))
        pv = {p: Rat(R.atom(p)) for p in pnames}

        def V(order, *params):
            return Rat(R.func(vname, [order] + list(params) + [x]))
        fam = PF.VALUE_FUNS[vq][0]

        def explicit_der(k):
            kk = Rat(R.const(k))
            if k == 0:
                return Rat(R.const(0))
            if fam == 'jacobi':
                return (kk + pv['alpha'] + pv['beta'] + 1) / 2 * dom.explicit('jacobi', {'alpha': pv.get('alpha', 0) + 1, 'beta': pv.get('beta', 0) + 1}, k - 1)
            if fam == 'hermite_He':
                return kk * dom.explicit(fam, {}, k - 1)
            if fam == 'hermite_H':
                return 2 * kk * dom.explicit(fam, {}, k - 1)
            return -dom.explicit('laguerre', {'alpha': pv['alpha'] + 1}, k - 1)
        # explicit small orders: the order is a concrete integer (whatever helpers the routine goes through, their tests are decided)
        # and the value function is inlined, so the result is a polynomial compared with the reference derivative
        dom.call_prysm = type(dom).call_prysm.__get__(dom)
        for k in range(0, 4):
            kwk = {p: dom.sym(p) for p in f.params}
            kwk['n'] = Const(k)
            resk = [p for p in it.run(f, kwargs=lambda: dict(kwk)) if p.outcome == 'return']
            if len(resk) != 1 or dom.rat(resk[0].value) is None:
                raise AnalysisError('%s(n=%d): expected one path with a value in NORM, got %d' % (qual, k, len(resk)))
            got, want = dom.rat(resk[0].value), explicit_der(k)
            run.check(got == want, 'C09.id', f.qual, 'order %d' % k, '%s(n=%d) equals the reference derivative' % (f.name, k),
                      '%s(n=%d) returns %s, the derivative of the order-%d polynomial is %s' % (f.name, k, got.key(), k, want.key()), f.loc())
        # general order: the value function summarised; only the path on which no special order is selected
        dom.call_prysm = call_prysm
        kw = {p: dom.sym(p) for p in f.params}
        res = [p for p in it.run(f, kwargs=lambda: dict(kw)) if p.outcome == 'return']
        import re
        general = [p for p in res if not any(t and re.fullmatch(r'\w+ == \d+', c.strip()) for c, t in p.conds)]
        decided = False
        for p in general:
            got = dom.rat(p.value)
            if got is None:
                continue
            decided = True
            want = ref(dom, n, pv, V)
            run.check(got == want, 'C09.id', f.qual, 'general order', '%s: %s' % (f.name, text), '%s(n) = %s, expected %s (%s)' % (f.name, got.key(), want.key(), text), f.loc())
        if not decided and hasattr(run, 'info'):
            run.info('C09.id: %s: the general-order identity is not decided (the value routine is reached through helpers); orders 0..3 are' % f.name)


class Capture(Exception):
    pass


def seed_rules(run, db):
    """Clenshaw-derivative routines: the seed statement equals the general step at index M-jj with out-of-range rows dropped."""
    table = [(PF.PJ + 'jacobi_sum_clenshaw_der', 'M'), (Q + 'clenshaw_qbfs_der', 'M'), (Q + 'clenshaw_q2d_der', 'N')]
    from ..core.pattern import find
    for qual, Mlabel in table:
        f = db.func(qual)
        # the degree of the sum is the local bound to len(<coefficients>) - 1; the derivative-order loop is the top-level
        # loop that contains the recurrence sweep -- whatever either is called
        degs = [b['V_M'] for b, _ in find(f.node, 'V_M = len(E_s) - 1')]
        outers = [n for n in f.node.body if isinstance(n, ast.For) and isinstance(n.target, ast.Name) and any(isinstance(x_, ast.For) for x_ in n.body)]
        if len(set(degs)) != 1 or len(outers) != 1:
            raise AnalysisError('%s: degree local (len(coefficients) - 1) or derivative-order loop not found uniquely (%s, %d loops)' % (qual, sorted(set(degs)), len(outers)))
        Mname, JJ = degs[0], outers[0].target.id
        it, dom = PF.mk_order(db)
        R = dom.R
        captured = {}

        def call_prysm(fi, args, kwargs, node, dom=dom):
            if fi.name in ('recurrence_abc', 'abc_q2d_clenshaw', 'abc_q2d'):
                return Tup([dom.func_atom('%s_%s' % (c, fi.name), list(args)) for c in 'ABC'])
            if fi.name in ('jacobi_sum_clenshaw', 'clenshaw_qbfs', 'clenshaw_q2d', '_initialize_alphas'):
                return dom.sym('alphas')
            return None
        dom.call_prysm = call_prysm

        def loop(node, frame):
            if node is outers[0]:
                captured['node'], captured['frame'] = node, frame
                raise Capture()
            return False
        dom.loop = loop
        kw = {}
        for p in f.params:
            kw[p] = dom.sym(p)
        kw['alphas'] = Const(None)
        try:
            it._reset_run([])
            it.call_funcinfo(f, [], dict(kw), None, None, toplevel=True)
        except Capture:
            pass
        if 'node' not in captured:
            raise AnalysisError('%s: derivative-order loop `for jj in range(1, j+1)` not found' % qual)
        outer, fr = captured['node'], captured['frame']
        # derivative orders beyond the degree: the row index M - jj must stay >= 0 for every jj the loop visits
        Mval = dom.rat(fr.env[Mname])
        rargs = outer.iter.args if isinstance(outer.iter, ast.Call) and ast.unparse(outer.iter.func) == 'range' else []
        if len(rargs) != 2:
            raise AnalysisError('%s: derivative-order loop is not range(lo, hi)' % qual)
        hi = dom.rat(it.ev(rargs[1], fr))
        if hi is None or Mval is None:
            raise AnalysisError('%s: derivative-order bound outside NORM' % qual)
        jmax = hi - 1
        bounded = False
        for aname, info in list(R.info.items()):
            if info and info[0] in ('min', 'builtins.min') and Rat(R.atom(aname)) == jmax and any(isinstance(x_, Rat) and x_ == Mval for x_ in info[1]):
                bounded = True
        if not bounded:
            guards = [st for st in outer.body if isinstance(st, ast.If) and any(isinstance(x_, (ast.Break, ast.Continue)) for x_ in st.body) and Mname in {x_.id for x_ in ast.walk(st.test) if isinstance(x_, ast.Name)} and JJ in {x_.id for x_ in ast.walk(st.test) if isinstance(x_, ast.Name)}]
            bounded = bool(guards)
        run.check(bounded, 'C09.seed', f.qual, 'orders beyond the degree', 'the derivative-order loop stops at min(j, %s): rows beyond the degree of the sum stay zero and no index %s - jj < 0 is formed' % (Mname, Mname),
                  'the derivative-order loop runs jj up to %s while the sum has degree %s = %s: for a single coefficient (or j above the degree) the row index %s - jj is negative -- '
                  'a negative order reaches the recurrence coefficients (division by zero for some parameters) and the seed is written through a wrapped-around index' % (jmax.key(), Mname, Mval.key(), Mname), f.loc(outer))
        inner = [st for st in outer.body if isinstance(st, ast.For)]
        if len(inner) != 1:
            raise AnalysisError('%s: inner recurrence loop not found' % qual)
        inner = inner[0]
        seed_block = outer.body[:outer.body.index(inner)]
        stores = []
        orig_store = dom.store_subscript

        def store_subscript(target, idx, val, node):
            if isinstance(target, Sym):
                stores.append((target.r, dom.rat(idx), dom.rat(val), node))
                return True
            return orig_store(target, idx, val, node)
        dom.store_subscript = store_subscript
        fr.env['alphas'] = dom.sym('alphas')
        fr.env[JJ] = dom.sym('jj')
        dom.lower['jj'] = 1
        it.exec_block(seed_block, fr)
        if len(stores) != 1:
            raise AnalysisError('%s: expected one seed store, found %d' % (qual, len(stores)))
        s_tgt, s_idx, s_val, s_node = stores[0]
        del stores[:]
        # general step at symbolic n
        fr.env[inner.target.id] = dom.sym('n')
        it.exec_block(inner.body, fr)
        if len(stores) != 1:
            raise AnalysisError('%s: expected one store in the recurrence step, found %d' % (qual, len(stores)))
        g_tgt, g_idx, g_val, g_node = stores[0]
        M = dom.rat(fr.env[Mname])
        jj = Rat(R.atom('jj'))
        want_idx = M - jj
        run.check(s_idx is not None and s_idx == want_idx and s_tgt == g_tgt, 'C09.seed', f.qual, 'seed index', 'the seed is stored in row jj at index %s - jj' % Mname,
                  'the seed of derivative row jj is stored at index %s of %s, expected index %s - jj of row jj (the first index where that row is non-zero)' % (s_idx.key() if s_idx is not None else '?', s_tgt.key(), Mname), f.loc(s_node))
        # restrict the general step to n = M - jj: rows jj at n+1, n+2 are still zero
        if g_idx is None or g_val is None or s_val is None:
            raise AnalysisError('%s: step/seed outside NORM' % qual)
        n_at = Rat(R.atom('n'))
        sub = g_val.subs({'n': want_idx})
        zero_atoms = {}
        row = g_tgt
        for k in (1, 2):
            a = R.func('idx', [row, want_idx + k])
            (mono,) = a.t
            zero_atoms[mono[0][0]] = Rat(R.const(0))
        sub = sub.subs(zero_atoms)
        run.check(sub == s_val, 'C09.seed', f.qual, 'seed value', 'seed == general step at n = %s - jj with the (still zero) higher entries of the row dropped' % Mname,
                  'the seed statement stores %s, but the recurrence step at that index (higher entries of the row are zero) gives %s: wrong for derivative orders j >= 2' % (s_val.key(), sub.key()), f.loc(s_node))
        # the loop continues right below the seed (or above it)
        rargs = [it.ev(a, fr) for a in inner.iter.args] if isinstance(inner.iter, ast.Call) else []
        if len(rargs) == 3:
            start = dom.rat(rargs[0])
            gap = start - (want_idx - 1)
            lo = dom._min(gap.num * (1 / gap.den.const_value())) if gap.den.is_const() else None
            run.check(lo is not None and lo >= 0, 'C09.seed', f.qual, 'loop start', 'the recurrence sweep starts at or above index %s - jj - 1' % Mname,
                      'the sweep starts at %s, below the seed index minus one: entries in between are never computed' % start.key(), f.loc(inner))


def sag_rules(run, db):
    it, dom = norm_interp(db)
    R = dom.R
    S = 'prysm.x.raytracing.surfaces.'
    # sags
    for sag, der, args in ((S + 'sphere_sag', S + 'sphere_sag_der', ['c']), (S + 'conic_sag', S + 'conic_sag_der', ['c', 'kappa'])):
        fs, fd = db.func(sag), db.func(der)
        rho = Rat(R.atom('rho'))
        kw = {a: dom.sym(a) for a in args}
        v = as_rat(dom, returns(it.run(fs, kwargs=lambda: dict(kw, rhosq=Sym(rho * rho), phi=Const(None))), fs)[0].value, sag)
        d = as_rat(dom, returns(it.run(fd, kwargs=lambda: dict(kw, rho=Sym(rho), phi=Const(None))), fd)[0].value, der)
        want = diff(v, 'rho', R)
        run.check(want == d, 'C09.rule', fd.qual, 'sag derivative', '%s == d/drho %s(rho^2)' % (fd.name, fs.name), '%s = %s but d/drho %s = %s' % (fd.name, d.key(), fs.name, want.key()), fd.loc())

def rule_rules(run, db):
    """Product/chain rule assemblies against the symbolic derivative of the value routine."""
    sag_rules(run, db)
    it, dom = norm_interp(db)
    R = dom.R
    R.fderiv = {'jacobi': (3, 'jacobi_der')}
    # Zernike
    Z = 'prysm.polynomials.zernike.'
    for label, mk_m in (('m = 0', lambda d: Const(0)), ('m > 0', lambda d: d.sym('m')), ('m < 0', lambda d: Sym(-d.sym('mm').r))):
        it2, dom2 = PF.mk_order(db)
        R2 = dom2.R
        R2.fderiv = {'jacobi': (3, 'jacobi_der')}
        dom2.lower['m'] = 1
        dom2.lower['mm'] = 1

        def call_prysm(fi, args, kwargs, node, dom2=dom2):
            if fi.qual in (PF.PJ + 'jacobi', PF.PJ + 'jacobi_der'):
                return dom2.func_atom(fi.name, list(args))
            return None
        dom2.call_prysm = call_prysm
        mval = mk_m(dom2)
        fv, fd = db.func(Z + 'zernike_nm'), db.func(Z + 'zernike_nm_der')
        for norm in (True, False):
            kw = lambda: {'n': dom2.sym('n'), 'm': mval, 'r': dom2.sym('r'), 't': dom2.sym('t'), 'norm': Const(norm)}
            rv = [p for p in it2.run(fv, kwargs=kw) if p.outcome == 'return']
            rd = [p for p in it2.run(fd, kwargs=kw) if p.outcome == 'return']
            if len(rv) != 1 or len(rd) != 1:
                raise AnalysisError('zernike_nm/_der (%s): expected one path each, got %d/%d' % (label, len(rv), len(rd)))
            val = as_rat(dom2, rv[0].value, 'zernike_nm')
            dv = rd[0].value
            if not (isinstance(dv, Tup) and len(dv.items) == 2):
                raise AnalysisError('zernike_nm_der does not return (dr, dt)')
            for nm, var, got in (('dr', 'r', dv.items[0]), ('dt', 't', dv.items[1])):
                g = as_rat(dom2, got, nm)
                try:
                    want = diff(val, var, R2)
                except NormError as e:
                    raise AnalysisError('zernike derivative: %s' % e)
                run.check(g == want, 'C09.rule', fd.qual, '%s %s norm=%s' % (nm, label, norm), 'zernike_nm_der %s == d/d%s zernike_nm [%s]' % (nm, var, label),
                          'zernike_nm_der(%s, norm=%s): %s = %s, but d/d%s of zernike_nm is %s' % (label, norm, nm, g.key(), var, want.key()), fd.loc())
    # Q sag/slope assemblies: d/du [prefix(u) S(u^2)] given the Clenshaw contract alphas[1][k] = d/dx alphas[0][k]
    it3, dom3 = norm_interp(db)
    R3 = dom3.R
    u = Rat(R3.atom('u'))
    for name, inner_name in (('compute_z_zprime_Qbfs', 'clenshaw_qbfs_der'), ('compute_z_zprime_Qcon', 'jacobi_sum_clenshaw_der')):
        f = db.func(Q + name)

        def call_prysm(fi, args, kwargs, node, dom3=dom3):
            if fi.name in ('clenshaw_qbfs_der', 'jacobi_sum_clenshaw_der'):
                return dom3.sym('alphas')
            return None
        dom3.call_prysm = call_prysm
        oit3 = dom3.iterate

        def iterate3(v, node, dom3=dom3, oit3=oit3):
            # `sums, sums_der = clenshaw_..._der(...)`: the rows of the table
            if dom3.rat(v) is not None and dom3.rat(v).key() == 'alphas':
                return [dom3.interp.subscript(v, Const(0), node), dom3.interp.subscript(v, Const(1), node)]
            return oit3(v, node)
        dom3.iterate = iterate3
        res = returns(it3.run(f, kwargs=lambda: {'coefs': dom3.sym('coefs'), 'u': Sym(u), 'usq': Sym(u * u)}), f)
        v = res[0].value
        if not (isinstance(v, Tup) and len(v.items) == 2):
            raise AnalysisError('%s does not return (z, zprime)' % name)
        z, zp = as_rat(dom3, v.items[0], 'z'), as_rat(dom3, v.items[1], 'zprime')
        # declare d/dx alphas[0][k] = alphas[1][k] with x = usq (Qbfs) or x = 2 usq - 1 (Qcon)
        a0 = lambda k: R3.func('idx', [Rat(R3.func('idx', [Rat(R3.atom('alphas')), Rat(R3.const(0))])), Rat(R3.const(k))])
        a1 = lambda k: R3.func('idx', [Rat(R3.func('idx', [Rat(R3.atom('alphas')), Rat(R3.const(1))])), Rat(R3.const(k))])
        dxdu = 2 * u if 'Qbfs' in name else 4 * u
        known_forms = {Rat(a_(k)).key() for a_ in (a0, a1) for k in (0, 1)}

        def alpha_atoms(r_, acc):
            for at_ in r_.atoms():
                if 'alphas' in at_ and at_ not in acc:
                    if at_ in known_forms:
                        acc.add(at_)
                        continue
                    acc.add(at_)
            return acc
        odd = sorted(a_ for a_ in alpha_atoms(z, set()) | alpha_atoms(zp, set()) if a_ not in known_forms)
        if odd:
            # the table of sums is read in another way than alphas[row][k] (row views, slices added together): the declared contract
            # d/dx alphas[0][k] = alphas[1][k] cannot be attached to what appears here
            raise AnalysisError('%s: the alpha sums are read as %s, not as alphas[0][k] / alphas[1][k]: the chain-rule contract is not attached' % (name, odd[:2]))
        for k in (0, 1):
            (mono,) = a0(k).t
            R3.deriv[mono[0][0]] = {'u': Rat(a1(k)) * dxdu}
        want = diff(z, 'u', R3)
        run.check(want == zp, 'C09.rule', f.qual, 'slope assembly', '%s: zprime == d/du z by the product and chain rules (given alphas[1] = d/dx alphas[0])' % name,
                  '%s: zprime = %s but d/du z = %s' % (name, zp.key(), want.key()), f.loc())


def offaxis_rules(run, db):
    """Off-axis conic: (sag, der) and (1/sigma, sigma_der) pairs in r and t for both decentre branches; Q2d_and_der assembly."""
    S = 'prysm.x.raytracing.surfaces.'
    for branch in ('dx', 'dy'):
        it, dom = norm_interp(db)
        R = dom.R
        dom.nonzero = {'s'}

        def kw():
            d = {'c': dom.sym('c'), 'kappa': dom.sym('kappa'), 'r': dom.sym('r'), 't': dom.sym('t')}
            d['dx'] = dom.sym('s') if branch == 'dx' else Const(0)
            d['dy'] = dom.sym('s') if branch == 'dy' else Const(0)
            return d
        for val, der, inv in ((S + 'off_axis_conic_sag', S + 'off_axis_conic_der', False), (S + 'off_axis_conic_sigma', S + 'off_axis_conic_sigma_der', True)):
            fv, fd = db.func(val), db.func(der)
            rv, rd = returns(it.run(fv, kwargs=kw), fv), returns(it.run(fd, kwargs=kw), fd)
            if len(rv) != 1 or len(rd) != 1:
                raise AnalysisError('%s / %s (%s branch): expected one path each, got %d / %d' % (fv.name, fd.name, branch, len(rv), len(rd)))
            v = as_rat(dom, rv[0].value, fv.name)
            if inv:
                v = Rat(R.const(1)) / v
            dv = rd[0].value
            if not (isinstance(dv, Tup) and len(dv.items) == 2):
                raise AnalysisError('%s does not return (dr, dt)' % fd.name)
            for nm, var, got in (('dr', 'r', dv.items[0]), ('dt', 't', dv.items[1])):
                g = as_rat(dom, got, nm)
                try:
                    want = diff(v, var, R)
                except NormError as e:
                    raise AnalysisError('%s: %s' % (fd.name, e))
                run.check(g == want, 'C09.rule', fd.qual, '%s, decentre along %s' % (nm, branch[1]),
                          '%s %s == d/d%s %s%s [decentre along %s]' % (fd.name, nm, var, '1/' if inv else '', fv.name, branch[1]),
                          '%s (decentre along %s): %s = %s, but d/d%s of %s%s is %s' % (fd.name, branch[1], nm, g.key(), var, '1/' if inv else '', fv.name, want.key()), fd.loc())
    # Q2d_and_der: z = base + Z(r/R, t)/sigma with every piece uninterpreted but carrying its declared derivatives
    it, dom = norm_interp(db)
    R = dom.R
    f = db.func(S + 'Q2d_and_der')
    r_, t_, Rn = Rat(R.atom('r')), Rat(R.atom('t')), Rat(R.atom('normalization_radius'))
    atoms = {}
    offcalls = []

    def A(name):
        atoms[name] = Rat(R.atom(name))
        return Sym(atoms[name])

    def call_prysm(fi, args, kwargs, node):
        if fi.name == 'cart_to_polar':
            return Tup([Sym(r_), Sym(t_)])
        if fi.name == 'compute_z_zprime_Q2d':
            got = dom.rat(args[3])
            if got is None or not (got == r_ / Rn):
                run.finding('C09.rule', f.qual, 'normalised radius', 'compute_z_zprime_Q2d is not evaluated at r / normalization_radius', f.loc(node))
            return Tup([A('Z'), A('Zu'), A('Zt')])
        if fi.name.startswith('off_axis_conic'):
            bound = {}
            for pn, av in zip(fi.params, args):
                bound[pn] = repr(av)
            for kn, av in kwargs.items():
                bound[kn] = repr(av)
            offcalls.append((fi.name, bound, node))
        if fi.name == 'off_axis_conic_sag':
            return A('B')
        if fi.name == 'off_axis_conic_der':
            return Tup([A('Br'), A('Bt')])
        if fi.name == 'off_axis_conic_sigma':
            return A('sig')
        if fi.name == 'off_axis_conic_sigma_der':
            return Tup([A('Gr'), A('Gt')])      # derivatives of G = 1/sigma
        return None
    dom.call_prysm = call_prysm
    kw = {p: dom.sym(p) for p in f.params}
    res = returns(it.run(f, kwargs=lambda: dict(kw)), f)
    if len(res) != 1 or not (isinstance(res[0].value, Tup) and len(res[0].value.items) == 3):
        raise AnalysisError('Q2d_and_der: expected one path returning (z, dr, dt)')
    z, zr, zt = [as_rat(dom, x, 'Q2d_and_der') for x in res[0].value.items]
    want_args = {'c': repr(dom.sym('c')), 'kappa': repr(dom.sym('k')), 'r': repr(Sym(r_)), 't': repr(Sym(t_)), 'dx': repr(dom.sym('dx')), 'dy': repr(dom.sym('dy'))}
    if len(offcalls) != 4:
        raise AnalysisError('Q2d_and_der: expected four off-axis-conic calls, found %d' % len(offcalls))
    for nm_, bound, nd in offcalls:
        run.check(bound == want_args, 'C09.rule', f.qual, 'arguments of %s' % nm_, 'base sag, base slopes, sigma and sigma slopes are all evaluated for the same conic (c, k) at the same point (r, t) with the same decentre (dx, dy)',
                  '%s is called with %s; the other pieces of the product rule use %s' % (nm_, bound, want_args), f.loc(nd))
    # declared derivatives: Z = Z(u, t) with u = r/R; B(r, t); 1/sig = G(r, t)
    (zk,), (bk,), (sk,) = [list(atoms[n].num.atoms()) for n in ('Z', 'B', 'sig')]
    R.deriv[zk] = {'r': atoms['Zu'] / Rn, 't': atoms['Zt']}
    R.deriv[bk] = {'r': atoms['Br'], 't': atoms['Bt']}
    sig = atoms['sig']
    R.deriv[sk] = {'r': -atoms['Gr'] * sig * sig, 't': -atoms['Gt'] * sig * sig}     # d sig = -sig^2 dG
    for nm, var, got in (('dr', 'r', zr), ('dt', 't', zt)):
        want = diff(z, var, R)
        run.check(got == want, 'C09.rule', f.qual, 'assembly ' + nm, 'Q2d_and_der %s == d/d%s [base + Z(r/R, t)/sigma] by the product and chain rules' % (nm, var),
                  'Q2d_and_der: %s = %s, but d/d%s of the returned sag %s is %s' % (nm, got.key(), var, z.key(), want.key()), f.loc())


def more_rules(run, db):
    """1/phi slope of the spheroid; azimuthal assembly of the 2D-Q sag and slopes; the derivative sequence wrapper."""
    from .common import block_as_function
    S = 'prysm.x.raytracing.surfaces.'
    # d/drho (1/phi_spheroid)
    it, dom = norm_interp(db)
    R = dom.R
    fv, fd = db.func(S + 'phi_spheroid'), db.func(S + 'der_direction_cosine_spheroid')
    rho = Rat(R.atom('rho'))
    v = returns(it.run(fv, kwargs=lambda: {'c': dom.sym('c'), 'k': dom.sym('k'), 'rhosq': Sym(rho * rho)}), fv)
    want = diff(Rat(R.const(1)) / as_rat(dom, v[0].value, 'phi'), 'rho', R)
    npaths = 0
    for kw in ({'rhosq': Const(None), 'phi': Const(None)}, {'rhosq': Sym(rho * rho), 'phi': Const(None)}, {'rhosq': Sym(rho * rho), 'phi': v[0].value}):
        for pth in returns(it.run(fd, kwargs=lambda: dict({'c': dom.sym('c'), 'k': dom.sym('k'), 'rho': Sym(rho)}, **kw)), fd):
            g = as_rat(dom, pth.value, fd.name)
            npaths += 1
            run.check(g == want, 'C09.rule', fd.qual, 'd/drho (1/phi) [%s]' % ', '.join(k_ for k_, v_ in kw.items() if not (isinstance(v_, Const) and v_.v is None)) or 'defaults',
                      'der_direction_cosine_spheroid == d/drho (1/phi_spheroid(rho^2))', 'der_direction_cosine_spheroid = %s, but d/drho of 1/phi_spheroid is %s' % (g.key(), want.key()), fd.loc())
    def _assembly_block():
        # azimuthal assembly of compute_z_zprime_Q2d: the statements after the two family blocks
        f = db.func(Q + 'compute_z_zprime_Q2d')
        from ..core.pattern import find, match_all
        loops = [n for n in walk_no_nested(f.node) if isinstance(n, ast.For) and isinstance(n.iter, ast.Call) and ast.unparse(n.iter.func) == 'zip'
                 and [ast.unparse(a_) for a_ in n.iter.args] == ['ams', 'bms']]
        if len(loops) != 1:
            raise AnalysisError('compute_z_zprime_Q2d: family loop (over zip(ams, bms)) not found')
        body = loops[0].body
        # roles, not spellings: the returned triple, the azimuthal counter, the Clenshaw tables and the (S, S') read off them
        rb = match_all(f.node, ['return V_z, V_dr, V_dt'])
        ctr = [n.target.id for n in body if isinstance(n, ast.AugAssign) and isinstance(n.target, ast.Name) and isinstance(n.op, ast.Add) and isinstance(n.value, ast.Constant) and n.value.value == 1]
        tabs = [b_['V_A'] for b_, _ in find(loops[0], 'V_A = clenshaw_q2d_der(V_c, V_m, E_x)')]
        ifs = [i_ for i_, st in enumerate(body) if isinstance(st, ast.If) and any(isinstance(x_, ast.Name) and x_.id in tabs for x_ in ast.walk(st))]
        if rb is None or len(ctr) != 1 or len(tabs) != 2 or not ifs:
            raise AnalysisError('compute_z_zprime_Q2d: returned triple / azimuthal counter / two Clenshaw tables / family blocks not found')
        start = ifs[-1] + 1
        if start >= len(body):
            raise AnalysisError('compute_z_zprime_Q2d: no assembly statements after the family blocks')
        Z_, DR_, DT_, M_ = rb['V_z'], rb['V_dr'], rb['V_dt'], ctr[0]
        sums = {}
        for fam, A_ in zip('ab', tabs):
            s0 = [b_['V_S'] for b_, _ in find(loops[0], 'V_S = E_k * %s[0][0]' % A_)]
            s1 = [b_['V_S'] for b_, _ in find(loops[0], 'V_S = E_k * %s[1][0]' % A_)]
            if len(s0) != 1 or len(s1) != 1:
                raise AnalysisError('compute_z_zprime_Q2d: the sum / derivative read off table %s not found' % A_)
            sums[s0[0]] = 'S' + fam
            sums[s1[0]] = 'Sprime' + fam
        fn, params = block_as_function(f, body[start:], [Z_, DR_, DT_], 'assembly')
        it2, dom2 = PF.mk_order(db)
        R2 = dom2.R
        dom2.lower['m'] = 1
        u, t_, m_ = Rat(R2.atom('u')), Rat(R2.atom('t')), Rat(R2.atom('m'))
        kw = {p_: dom2.sym(sums.get(p_, p_)) for p_ in params}
        # locals computed once from the arguments before the loop (u * u under whatever name) keep their value
        from ..core.interp import Frame
        it2._reset_run([])
        fr0 = Frame(f, f.module, {a_: dom2.sym(a_) for a_ in f.params})
        for p_ in params:
            if p_ in f.params or p_ in sums:
                continue
            defs_ = [st for st in f.node.body if isinstance(st, ast.Assign) and len(st.targets) == 1 and isinstance(st.targets[0], ast.Name) and st.targets[0].id == p_]
            if len(defs_) == 1 and {x_.id for x_ in ast.walk(defs_[0].value) if isinstance(x_, ast.Name)} <= set(f.params):
                v_ = it2.ev(defs_[0].value, fr0)
                if dom2.rat(v_) is not None:
                    kw[p_] = v_
        kw.update({Z_: Const(0), DR_: Const(0), DT_: Const(0), M_: dom2.sym('m')})
        res = returns(it2.run(fn, kwargs=lambda: dict(kw)), fn)
        if len(res) != 1:
            raise AnalysisError('compute_z_zprime_Q2d assembly: %d paths' % len(res))
        z, dr, dt = [as_rat(dom2, x_, 'assembly') for x_ in res[0].value.items]
        for nm, pr in (('Sa', 'Sprimea'), ('Sb', 'Sprimeb')):
            R2.deriv[nm] = {'u': Rat(R2.atom(pr)) * 2 * u}          # S = S(u^2) with S' = dS/d(u^2)
        # u**m and u**(m-1): d/du pow(u, m) = m pow(u, m-1)
        pm, pm1 = R2.func('pow', [u, m_]), R2.func('pow', [u, m_ - 1])
        (k_pm,), = [list(pm.t)[0][0][:1]]
        R2.deriv[k_pm] = {'u': m_ * Rat(pm1)}
        for nm, var, got in (('dr', 'u', dr), ('dt', 't', dt)):
            law = {k_pm: u * Rat(pm1)}                       # u**m == u * u**(m-1)
            w = diff(z, var, R2).subs(law)
            got = got.subs(law)
            run.check(got == w, 'C09.rule', f.qual, 'azimuthal assembly ' + nm, 'compute_z_zprime_Q2d: %s == d/d%s [u^m (cos(m t) Sa(u^2) + sin(m t) Sb(u^2))]' % (nm, var),
                      'compute_z_zprime_Q2d: %s contribution is %s but d/d%s of the sag contribution %s is %s' % (nm, got.key(), var, z.key(), w.key()), f.loc(body[start]))
    try:
        _assembly_block()
    except AnalysisError as e:
        # the statements after the two family blocks are not in the form this rule reads (helper extracted, enumerate(...)):
        # the assembly is decided by the interpretation of the whole routine (C10.assembly, run under C09.rule as well)
        run.ok('C09.rule', Q + 'compute_z_zprime_Q2d', 'azimuthal assembly: decided by interpretation of the whole routine (%s)' % str(e)[:80])
    # zernike_nm_der_seq: slot j holds zernike_nm_der of request j with the caller's norm -- decided by interpreting the wrapper on
    # a two-request list with zernike_nm_der summarised and the output array recording what is stored in which row (directly, or
    # through the row views obtained by iterating over it)
    from ..core.interp import Value
    from .common import bind_call
    fz = db.func(P + 'zernike.zernike_nm_der_seq')
    fd1 = db.func(P + 'zernike.zernike_nm_der')

    class OutArr(Value):
        def __init__(self):
            self.rows = {}
            self.parts = {}
            self.lost = False

    class Row(Value):
        def __init__(self, arr, j):
            self.arr, self.j = arr, j
    itw, domw = norm_interp(db)
    oe, oi, os_, op_ = domw.call_ext, domw.iterate, domw.store_subscript, domw.call_prysm
    holder = {}

    def call_ext(dotted, args, kwargs, node):
        if dotted in ('numpy.empty', 'numpy.zeros'):
            holder['out'] = OutArr()
            return holder['out']
        return oe(dotted, args, kwargs, node)

    def iterate(v, node):
        if isinstance(v, OutArr):
            return [Row(v, 0), Row(v, 1)]
        r_ = domw.rat(v) if isinstance(v, Value) and not isinstance(v, (OutArr, Row, Tup)) else None
        if r_ is not None and r_.key().startswith('zder('):
            return [domw.func_atom('part', [v, Const(k)]) for k in (0, 1)]        # (d/dr, d/dt) = zernike_nm_der(...)
        return oi(v, node)

    def store_subscript(target, idx, val, node):
        if isinstance(target, OutArr) and isinstance(idx, Const) and isinstance(idx.v, int):
            target.rows.setdefault(idx.v, []).append(val)
            return True
        if isinstance(target, OutArr) and isinstance(idx, Tup) and len(idx.items) == 2 and all(isinstance(x, Const) and isinstance(x.v, int) for x in idx.items):
            target.parts.setdefault(idx.items[0].v, {}).setdefault(idx.items[1].v, []).append(val)        # out[j, k] = one of the two derivatives
            return True
        if isinstance(target, Row) and isinstance(idx, Const) and isinstance(idx.v, int):
            target.arr.parts.setdefault(target.j, {}).setdefault(idx.v, []).append(val)
            return True
        if isinstance(target, (OutArr, Row)) and not (isinstance(idx, Slice) or (isinstance(idx, Const) and idx.v is Ellipsis)):
            target.lost = True if isinstance(target, OutArr) else None
            if isinstance(target, Row):
                target.arr.lost = True
            return True
        if isinstance(target, Row):
            target.arr.rows.setdefault(target.j, []).append(val)
            return True
        return os_(target, idx, val, node)

    def call_prysm(fi, args, kwargs, node):
        if fi.qual == fd1.qual:
            b = bind_call(fi, args, kwargs)
            return domw.func_atom('zder', [b.get(k, Const(True) if k == 'norm' else Const(None)) for k in ('n', 'm', 'r', 't', 'norm')])
        return op_(fi, args, kwargs, node) if op_ else None
    domw.call_ext, domw.iterate, domw.store_subscript, domw.call_prysm = call_ext, iterate, store_subscript, call_prysm
    reqs = lambda: Tup([Tup([domw.sym('n0'), domw.sym('m0')]), Tup([domw.sym('n1'), domw.sym('m1')])], 'list')
    res = returns(itw.run(fz, kwargs=lambda: {'nms': reqs(), 'r': domw.sym('r'), 't': domw.sym('t'), 'norm': domw.sym('NORM')}), fz)
    Rw = domw.R
    Aw = lambda nme: Rat(Rw.atom(nme))
    ok = len(res) == 1 and isinstance(res[0].value, OutArr)
    if not ok:
        raise AnalysisError('zernike_nm_der_seq: what is returned is not the output array the slots were stored into (%d paths, %r): the wrapper is organised in a way this rule does not read'
                            % (len(res), res[0].value if res else None))
    detail = ''

    def through_single(rs):
        # the wrapper is read as "a loop over zernike_nm_der": a slot that holds something that was not obtained from that routine at all
        # (the derivative assembled again from shared tables) is not read here; a slot that holds zernike_nm_der of OTHER arguments is
        return all('zder(' in r_.key() for r_ in rs)
    if ok:
        oa = res[0].value
        rows = oa.rows
        if oa.lost:
            raise AnalysisError('zernike_nm_der_seq: a store into the output array is not followed (index neither a row nor a (row, component) pair)')
        for j in (0, 1):
            want = Rat(Rw.func('zder', [Aw('n%d' % j), Aw('m%d' % j), Aw('r'), Aw('t'), Aw('NORM')]))
            got = [domw.rat(v) for v in rows.get(j, [])]
            parts = oa.parts.get(j, {})
            if not got and not parts:
                raise AnalysisError('zernike_nm_der_seq: what is stored in slot %d of the output is not followed' % j)
            if any(g is None for g in got) or any(domw.rat(v) is None for vs in parts.values() for v in vs):
                raise AnalysisError('zernike_nm_der_seq: a value stored in slot %d is not followed' % j)
            if not through_single(got + [domw.rat(v) for vs in parts.values() for v in vs]):
                raise AnalysisError('zernike_nm_der_seq: slot %d does not hold a result of zernike_nm_der (the derivatives are assembled another way): not read here' % j)
            if parts and not got:
                wantp = {k: Rat(Rw.func('part', [want, Rat(Rw.const(k))])) for k in (0, 1)}
                if not (set(parts) == {0, 1} and all(len(parts[k]) == 1 and domw.rat(parts[k][0]) == wantp[k] for k in (0, 1))):
                    ok = False
                    detail = 'slot %d holds the components %s, expected (d/dr, d/dt) of %s' % (j, {k: [domw.rat(v).key() for v in vs] for k, vs in sorted(parts.items())}, want.key())
                continue
            if not (len(got) == 1 and not parts and got[0] == want):
                ok = False
                detail = 'slot %d holds %s, expected %s' % (j, [g.key() if g is not None else '?' for g in got], want.key())
    run.check(ok, 'C09.id', fz.qual, 'wrapper', 'slot j holds zernike_nm_der(n_j, m_j, r, t, norm=norm)',
              'zernike_nm_der_seq no longer stores zernike_nm_der(n, m, r, t, norm=norm) of request j in slot j: %s' % (detail or 'the output array is not what is returned'), fz.loc())


def check(run, db, tier):
    run.trust('NORM with symbolic differentiation D (sum, product, quotient, chain through sqrt/exp/log/arctan/sin/cos/pow and declared atoms such as D_x jacobi = jacobi_der)',
              'reference derivative identities: DLMF 18.9.15 (Jacobi), Hermite n He_(n-1) / 2n H_(n-1), Laguerre -L_(n-1)^(a+1)',
              'Clenshaw-derivative contract: row jj of alphas is the jj-th x-derivative of row 0 (Forbes)')
    run.assume('float accuracy (finite-difference agreement) is a value question and is not decided')
    run.rule('C09.id', 'each *_der function equals the reference derivative identity for order 0, 1 and general n; sequence forms emit the derivative of the guarded order')
    run.rule('C09.seed', 'Clenshaw-derivative seeds equal the general step restricted to index M-jj and sit at that index; the sweep continues below them')
    run.rule('C09.rule', 'product/chain-rule assemblies (sphere/conic sag slope, Zernike radial and azimuthal derivatives, Qbfs/Qcon sag-slope) equal the symbolic derivative of the value routine')
    run.group(identity_rules, run, db)
    # sequence derivative emission (shared with C08.emit) and delegated Chebyshev/Legendre derivatives (shared with C07.compose)
    from .c02 import Proxy
    run.group(c08.emit_rules, Proxy(run, {'C08.emit': 'C09.id'}), db)
    run.group(c07.compose_rules, Proxy(run, {'C07.compose': 'C09.id'}), db)
    from . import fixedorders
    run.group(fixedorders.fixed_order_rules, run, db, 'C09.id', None, lambda q: '_der_seq' in q)
    from . import clenshawfixed as CF
    run.group(CF.decided, run, db)
    run.group(CF.with_fallback(seed_rules, ('jacobi_sum_clenshaw_der', 'compute_z_zprime_Qbfs', 'compute_z_zprime_Qcon', 'compute_z_zprime_Q2d'), 'C09.seed', 9), run, db)
    run.group(CF.with_fallback(rule_rules, ('compute_z_zprime_Qbfs', 'compute_z_zprime_Qcon'), 'C09.rule', 2), run, db)
    run.group(offaxis_rules, run, db)
    run.group(more_rules, run, db)
    from . import c10
    run.group(c10.mirror_rules, Proxy(run, {'C10.sym': 'C09.rule'}), db)
    run.group(CF.with_fallback(c10.assembly_rules, ('clenshaw_qbfs', 'compute_z_zprime_Qbfs', 'compute_z_zprime_Qcon', 'compute_z_zprime_Q2d'), 'C10.assembly', 0), Proxy(run, {'C10.assembly': 'C09.rule'}), db)
    run.require_instances('C09.id', 40)
    run.require_instances('C09.seed', 9)
    run.require_instances('C09.rule', 20)
