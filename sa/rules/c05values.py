"""C05 on values: to_fpm_and_back on small concrete arrays of symbolic samples is, cell by cell,
unfocus_fixed_sampling(focus_fixed_sampling(w) * fpm) with the spacings in their roles and the same shift and engine on both legs --
whatever helpers, records or fused steps the routine uses."""
from ..core.db import AnalysisError
from ..core.interp import Const, Tup
from ..core.norm import Rat
from ..domains.filedom import file_interp, FArr, DType

P = 'prysm.propagation.'


def _field(dom, tag, shape, cplx=True):
    cells = []
    for i in range(shape[0]):
        for j in range(shape[1]):
            a = dom.rat(dom.sym('%sr%d%d' % (tag, i, j)))
            cells.append(dom.lift(a + dom.R.I * dom.rat(dom.sym('%si%d%d' % (tag, i, j)))) if cplx else dom.sym('%sr%d%d' % (tag, i, j)))
    return FArr.of(shape, cells, DType('c', 16) if cplx else DType('f', 8))


def _ret(it, f, label, **kw):
    res = it.run(f, kwargs=lambda: dict(kw))
    rets = [p for p in res if p.outcome == 'return']
    if len(rets) != len(res) or not rets:
        raise AnalysisError('%s: not every path returns' % label)
    vals = []
    for p in rets:
        v = p.value
        if not isinstance(v, FArr):
            raise AnalysisError('%s: the field that is returned is not followed: %r' % (label, v))
        vals.append(v)
    return vals


def roundtrip_value_rules(run, db):
    f, ff, fu = db.func(P + 'to_fpm_and_back'), db.func(P + 'focus_fixed_sampling'), db.func(P + 'unfocus_fixed_sampling')
    n_ok = 0
    for wshape, mshape, shift in (((2, 2), (2, 3), (0, 0)), ((2, 3), (3, 2), (0, 0)), ((2, 2), (2, 2), (1, 0))):
        it, dom = file_interp(db)
        dom.positive = {'dx', 'efl', 'wavelength', 'fpm_dx'}
        dom.nonzero = {'dx', 'efl', 'wavelength', 'fpm_dx'}
        sh = Tup([Const(shift[0]), Const(shift[1])])
        common = {'dx': dom.sym('dx'), 'efl': dom.sym('efl'), 'wavelength': dom.sym('wavelength'), 'fpm_dx': dom.sym('fpm_dx')}
        label = 'to_fpm_and_back, %dx%d field, %dx%d mask, shift %s, matrix-DFT engine' % (wshape + mshape + (shift,))
        w = _field(dom, 'w', wshape)
        m = _field(dom, 'm', mshape)
        got = _ret(it, f, label, wavefunction=w, fpm=m, shift=sh, method=Const('mdft'), **common)
        # the composition, leg by leg
        at = _ret(it, ff, label + ' (first leg)', wavefunction=_field(dom, 'w', wshape), input_dx=common['dx'], prop_dist=common['efl'], wavelength=common['wavelength'],
                  output_dx=common['fpm_dx'], output_samples=Tup([Const(mshape[0]), Const(mshape[1])]), shift=sh, method=Const('mdft'))
        prod = dom.binop(__import__('ast').Mult(), at[0], _field(dom, 'm', mshape), None)
        back = _ret(it, fu, label + ' (second leg)', wavefunction=prod, input_dx=common['fpm_dx'], prop_dist=common['efl'], wavelength=common['wavelength'],
                    output_dx=common['dx'], output_samples=Tup([Const(wshape[0]), Const(wshape[1])]), shift=sh, method=Const('mdft'))
        ref = [dom.rat(c) for c in back[0].values()]
        if any(c is None for c in ref):
            raise AnalysisError('%s: the composition of the two legs is not followed' % label)
        for g in got:
            cells = [dom.rat(c) for c in g.values()]
            if any(c is None for c in cells):
                raise AnalysisError('%s: a sample of the result is not followed' % label)
            ok = tuple(g.shape) == tuple(back[0].shape) and all(x == y for x, y in zip(cells, ref))
            detail = ''
            if not ok:
                if tuple(g.shape) != tuple(back[0].shape):
                    detail = 'shapes %s and %s' % (tuple(g.shape), tuple(back[0].shape))
                else:
                    k = next(i for i, (x, y) in enumerate(zip(cells, ref)) if not (x == y))
                    detail = 'sample (%d, %d) is %s, the composition gives %s' % (k // g.shape[1], k % g.shape[1], cells[k].key()[:120], ref[k].key()[:120])
            run.check(ok, 'C05.roundtrip', f.qual, 'composition on values', '%s: equals unfocus_fixed_sampling(focus_fixed_sampling(w) * fpm) cell by cell' % label,
                      '%s: differs from unfocus_fixed_sampling(focus_fixed_sampling(w) * fpm) -- %s' % (label, detail), f.loc())
            n_ok += ok
    return n_ok
