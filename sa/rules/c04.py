"""C04 -- one origin convention (index n//2), decided per parity class by the INDEX domain."""
import ast

from ..core.db import AnalysisError, norm_stmt, walk_no_nested
from ..core.interp import Interp, Const, Tup, Unknown, Slice, Obj, Value
from ..domains.index import IndexDomain, Shaped, Ranged, parity_classes, ptxt
from ..domains.normdom import install_pi, Sym
from ..core.norm import Rat


def mk(db, par, fresh=None):
    dom = IndexDomain(parities=par)
    if fresh:
        dom.fresh_lengths = list(fresh)
    it = install_pi(Interp(db, dom))
    return it, dom


def half(dom, v):
    """n//2 in the current parity class."""
    return dom.floordiv(dom.rat(v), dom.rat(Const(2)), None)


def eq(dom, a, b):
    ra, rb = dom.rat(a), dom.rat(b)
    return ra is not None and rb is not None and ra == rb


def sh(dom, v):
    r = dom.rat(v)
    return r.key() if r is not None else repr(v)


def var_on_paths(results, name):
    out = []
    for p in results:
        if p.frame is not None and name in p.frame.env:
            out.append((p, p.frame.env[name]))
    return out


def coord_dtype_rules(run, db):
    nvec = 0
    for qual in ('prysm.psf.centroid', 'prysm.psf.encircled_energy', 'prysm.coordinates.make_xy_grid', 'prysm.fttools.fftrange', 'prysm.otf.mtf_from_psf', 'prysm.otf.ptf_from_psf',
                 'prysm.otf.otf_from_psf', 'prysm._richdata.RichData.x', 'prysm._richdata.RichData.y'):
        try:
            fi_ = db.func(qual)
        except Exception:
            continue
        nvec += 1
        coord_names = set()
        bad_casts = []
        # an index vector created in the dtype of the data, in the routine or in a helper of its module it calls
        from .memo import _reach
        for hq in sorted(_reach(db, [fi_], depth=2)):
            h_ = db.func(hq)
            if h_.module is not fi_.module:
                continue
            for n_ in ast.walk(h_.node):
                if isinstance(n_, ast.Call) and ast.unparse(n_.func).split('.')[-1] in ('arange', 'fftrange', 'linspace', 'fftfreq', 'indices'):
                    for k_ in n_.keywords:
                        if k_.arg == 'dtype' and any(isinstance(x_, ast.Attribute) and x_.attr == 'dtype' and isinstance(x_.value, ast.Name) and x_.value.id in h_.params for x_ in ast.walk(k_.value)):
                            bad_casts.append(n_)
        for n_ in walk_no_nested(fi_.node):
            if isinstance(n_, ast.Assign) and any(isinstance(c_, ast.Call) and ast.unparse(c_.func).split('.')[-1] in ('fftrange', 'arange', 'make_xy_grid', 'fftfreq') for c_ in ast.walk(n_.value)):
                for t_ in n_.targets:
                    coord_names |= {x_.id for x_ in ast.walk(t_) if isinstance(x_, ast.Name)}
        for n_ in ast.walk(fi_.node):
            if isinstance(n_, ast.Call) and isinstance(n_.func, ast.Attribute) and n_.func.attr == 'astype' and n_.args:
                recv = n_.func.value
                is_coord = any(isinstance(c_, ast.Call) and ast.unparse(c_.func).split('.')[-1] in ('fftrange', 'arange', 'fftfreq') for c_ in ast.walk(recv)) or \
                    (isinstance(recv, ast.Name) and recv.id in coord_names)
                from_data = any(isinstance(x_, ast.Attribute) and x_.attr == 'dtype' and isinstance(x_.value, ast.Name) and x_.value.id in fi_.params for x_ in ast.walk(n_.args[0]))
                if is_coord and from_data:
                    bad_casts.append(n_)
        run.check(not bad_casts, 'C04.range', fi_.qual, 'coordinate dtype', 'signed coordinate vectors (zero at n//2, negative before it) are not cast to a dtype taken from the data',
                  '`%s` casts an origin-referenced index vector to the dtype of the data: for unsigned-integer images the negative half wraps around and the reported position is wrong'
                  % (ast.unparse(bad_casts[0]) if bad_casts else ''), fi_.loc(bad_casts[0]) if bad_casts else fi_.loc())


def centroid_probe(run, db, rule):
    """psf.centroid decided on a probe: for an image that is zero except for one sample at index (i, j) (i, j symbols), the centroid
    in samples is (i, j) and in spatial units dx*(i - r//2), dx*(j - c//2), for every parity of r and c.  The image is an abstract
    "delta" array: its total is 1, a marginal sum is a delta vector, a delta vector times an index vector picks one entry;
    scipy's center_of_mass is summarised by its contract."""
    from ..domains.index import Ranged
    f = db.func('prysm.psf.centroid')

    class Delta(Value):
        """an array with one unit sample: lengths and position per remaining axis"""
        def __init__(self, lens, pos):
            self.lens, self.pos = list(lens), list(pos)

    class Picked(Value):
        """an array whose only non-zero sample has the value `v`"""
        def __init__(self, v):
            self.v = v
    n_judged = 0
    for par in parity_classes(['r', 'c']):
        it, dom = mk(db, par)
        I, J = dom.integer('i'), dom.integer('j')
        og, om, oe, ob = dom.getattr, dom.method, dom.call_ext, dom.binop

        def getattr_(v, name, node, og=og, dom=dom):
            if isinstance(v, Delta):
                if name == 'shape':
                    return Tup(list(v.lens))
                if name == 'ndim':
                    return Const(len(v.lens))
                if name in ('dtype', 'size'):
                    return Unknown(name)
                return None
            return og(v, name, node)

        def method(v, name, args, kwargs, node, om=om, dom=dom):
            if isinstance(v, Delta) and name == 'sum':
                ax = kwargs.get('axis', args[0] if args else None)
                if ax is None or (isinstance(ax, Const) and ax.v is None):
                    return Const(1)
                axes = [a.v for a in ax.items] if isinstance(ax, Tup) and all(isinstance(a, Const) for a in ax.items) else ([ax.v] if isinstance(ax, Const) and isinstance(ax.v, int) else None)
                if axes is None:
                    return Unknown('sum over axes that are not followed')
                axes = [a % len(v.lens) for a in axes]
                keep = [k for k in range(len(v.lens)) if k not in axes]
                if not keep:
                    return Const(1)
                return Delta([v.lens[k] for k in keep], [v.pos[k] for k in keep])
            if isinstance(v, Delta) and name in ('astype', 'copy'):
                return v
            if isinstance(v, Picked) and name == 'sum' and not args and not kwargs:
                return v.v
            return om(v, name, args, kwargs, node)

        def call_ext(dotted, args, kwargs, node, oe=oe, dom=dom):
            last = dotted.rsplit('.', 1)[-1]
            a0 = args[0] if args else None
            if last == 'center_of_mass' and isinstance(a0, Delta):
                return Tup(list(a0.pos))
            if last == 'sum' and dotted.startswith('numpy.') and isinstance(a0, (Delta, Picked)):
                return method(a0, 'sum', args[1:], kwargs, node)
            if dotted == 'builtins.float' and a0 is not None and dom.rat(a0) is not None:
                return a0
            return oe(dotted, args, kwargs, node)

        def binop(op, a, b, node, ob=ob, dom=dom):
            if isinstance(op, ast.Mult):
                for d_, r_ in ((a, b), (b, a)):
                    if isinstance(d_, Delta) and len(d_.lens) == 1 and isinstance(r_, Ranged):
                        if not eq(dom, d_.lens[0], r_.n):
                            return Unknown('index vector of another length')
                        return Picked(dom.interp.binop(ast.Add(), r_.start, dom.interp.binop(ast.Mult(), d_.pos[0], r_.step, node), node))
            if isinstance(a, Picked) and dom.rat(b) is not None and isinstance(op, (ast.Mult, ast.Div)):
                return Picked(dom.interp.binop(op, a.v, b, node))
            return ob(op, a, b, node)
        dom.getattr, dom.method, dom.call_ext, dom.binop = getattr_, method, call_ext, binop
        mkdata = lambda: Delta([dom.length('r'), dom.length('c')], [I, J])
        for unit in ('spatial', 'pixels'):
            res = [p for p in it.run(f, kwargs=lambda: {'data': mkdata(), 'dx': dom.sym('dx'), 'unit': Const(unit)}) if p.outcome == 'return']
            if len(res) != 1:
                raise AnalysisError('centroid probe: expected one path for unit=%s, got %d' % (unit, len(res)))
            v = res[0].value
            items = v.items if isinstance(v, Tup) else None
            if items is None or len(items) != 2 or any(dom.rat(x) is None for x in items):
                raise AnalysisError('centroid probe: the result is not followed (%r)' % (v,))
            if unit == 'spatial':
                want = [dom.rat(dom.sym('dx')) * (dom.rat(p_) - dom.rat(half(dom, dom.length(n_)))) for p_, n_ in ((I, 'r'), (J, 'c'))]
            else:
                want = [dom.rat(I), dom.rat(J)]
            ok = all(dom.rat(x) == w for x, w in zip(items, want))
            n_judged += 1
            run.check(ok, rule, f.qual, 'centroid of a single sample, unit=%s' % unit,
                      'one sample at (i, j) has its centroid at %s [%s]' % ('dx*(i - r//2), dx*(j - c//2)' if unit == 'spatial' else '(i, j)', ptxt(par)),
                      'for an image with one sample at (i, j) the centroid (unit=%s) comes out as (%s), expected (%s), for %s: the origin of the spatial centroid is not the sample n//2'
                      % (unit, ', '.join(sh(dom, x) for x in items), ', '.join(w.key() for w in want), ptxt(par)), f.loc())
    return n_judged


def centre_sites(run, db, rule='C04.centre', only=None):
    """Centre-index sites: the locals bound by halving a shape equal s//2 of the axis they address.  `only` restricts to
    functions whose qualified name starts with one of the given prefixes (used by C15 for the OTF products)."""
    want_site = lambda q: only is None or any(q.startswith(o) for o in only)

    def _halvings(fi):
        lens_ = _shape_locals(fi)
        return _halvings_(fi, lens_)

    def _halvings_(fi, lens_):
        """Assignments that halve a length: the locals they bind are the function's centre indices, whatever they are called."""
        out = []
        for n in walk_no_nested(fi.node):
            if not (isinstance(n, ast.Assign) and len(n.targets) == 1):
                continue
            t = n.targets[0]
            names = [t.id] if isinstance(t, ast.Name) else ([e.id for e in t.elts] if isinstance(t, (ast.Tuple, ast.List)) and all(isinstance(e, ast.Name) for e in t.elts) else None)
            if not names:
                continue
            halves = [b for b in ast.walk(n.value) if isinstance(b, ast.BinOp) and isinstance(b.op, (ast.FloorDiv, ast.Div, ast.RShift))
                      and isinstance(b.right, ast.Constant) and b.right.value in (1, 2)]
            srcs = [x for x in ast.walk(n.value) if (isinstance(x, ast.Attribute) and x.attr == 'shape') or (isinstance(x, ast.Name) and (x.id in fi.params or x.id in lens_))]
            if halves and srcs:
                out.append((n, names, isinstance(t, ast.Name)))
        return out

    def _shape_locals(fi):
        """locals unpacked or copied from a shape (`ny, nx = data.shape`): lengths under another name."""
        out = set()
        for n in walk_no_nested(fi.node):
            if isinstance(n, ast.Assign) and any((isinstance(x, ast.Attribute) and x.attr == 'shape') or (isinstance(x, ast.Name) and x.id in fi.params and 'shape' in x.id)
                                                 for x in ast.walk(n.value)) \
                    and not any(isinstance(b, ast.BinOp) for b in ast.walk(n.value)):
                out |= {x.id for t in n.targets for x in ast.walk(t) if isinstance(x, ast.Name)}
        return out

    def _use_axis(fi, name):
        """the array axis a centre index addresses, read off the subscripts it appears in: X[a, b] -> a is axis 0, b axis 1; X[a] -> axis 0."""
        axes_ = set()
        for n in walk_no_nested(fi.node):
            if isinstance(n, ast.Subscript):
                sl = n.slice
                elts = sl.elts if isinstance(sl, ast.Tuple) else [sl]
                for k, e in enumerate(elts):
                    if any(isinstance(x, ast.Name) and x.id == name for x in ast.walk(e)) and not isinstance(e, ast.Slice):
                        axes_.add(k)
        return axes_

    def _helpers(fi, depth=2):
        """prysm functions of the same module that fi calls (helpers extracted from it are looked through), to the given depth."""
        out, seen = [], {fi.qual}

        def rec(f, d):
            if d == 0:
                return
            for n in walk_no_nested(f.node):
                if not isinstance(n, ast.Call):
                    continue
                g = None
                if isinstance(n.func, ast.Name):
                    r = db.resolve_name(f.module, n.func.id)
                    g = r if hasattr(r, 'qual') and isinstance(getattr(r, 'node', None), ast.FunctionDef) else None
                elif isinstance(n.func, ast.Attribute) and isinstance(n.func.value, ast.Name) and n.func.value.id == 'self' and f.cls is not None:
                    g = db.method(f.cls, n.func.attr)
                if g is not None and g.qual not in seen and g.module is fi.module:
                    seen.add(g.qual)
                    out.append(g)
                    rec(g, d - 1)
        rec(fi, depth)
        return out

    def _halving_helper_calls(fi, helpers):
        """assignments in fi whose value is a call of a helper that returns a halved (shape) argument: the locals they bind are centre indices too."""
        halving = set()
        for h in helpers:
            if any(isinstance(b, ast.BinOp) and isinstance(b.op, (ast.FloorDiv, ast.Div, ast.RShift)) and isinstance(b.right, ast.Constant) and b.right.value in (1, 2)
                   for r_ in walk_no_nested(h.node) if isinstance(r_, ast.Return) and r_.value is not None for b in ast.walk(r_.value)):
                halving.add(h.name)
        out = []
        for n in walk_no_nested(fi.node):
            if isinstance(n, ast.Assign) and len(n.targets) == 1 and isinstance(n.value, ast.Call) and ast.unparse(n.value.func).split('.')[-1] in halving:
                t = n.targets[0]
                names = [t.id] if isinstance(t, ast.Name) else ([e.id for e in t.elts] if isinstance(t, (ast.Tuple, ast.List)) and all(isinstance(e, ast.Name) for e in t.elts) else None)
                if names:
                    out.append((n, names, isinstance(t, ast.Name)))
        return out

    def otf_on_values():
        if getattr(db, '_otf_values', None) is None:
            from .c15values import otf_value_rules
            from ..core.report import Run as _Run
            q_ = _Run(getattr(run, 'prop', 'C04'), 'quick', '')
            try:
                n_ = otf_value_rules(q_, db)
                db._otf_values = n_ if not q_.findings else 0
            except AnalysisError:
                db._otf_values = 0
        return db._otf_values

    def centre_site(qual, ctx, lens, axes, select=None, what=None):
        if not want_site(qual):
            return
        """the locals bound by halving a shape must equal s//2 of the lengths named in axes (by position when unpacked)."""
        fi = db.func(qual)
        helpers = _helpers(fi)
        cands = [(fi, c) for c in _halvings(fi) + _halving_helper_calls(fi, helpers)]
        for h in helpers:
            cands += [(h, c) for c in _halvings(h)]
        if not cands:
            raise AnalysisError('centre site %s: no assignment halving a shape found (also not in the helpers it calls)' % qual)
        n_inst = 0
        for par in parity_classes(lens):
            it, dom = mk(db, par)
            it.watch = {id(c[0]) for f_, c in cands if f_ is not fi}
            res = it.run(fi, kwargs=lambda: ctx(dom), self_obj=(lambda: select(dom)) if select else None)
            for owner, (node, names, whole) in cands:
                for k, var in enumerate(names):
                    ax = axes if whole else [axes[k]] if k < len(axes) else None
                    used = _use_axis(owner, var)
                    if not whole and len(used) == 1 and max(used) < len(axes):
                        ax = [axes[max(used)]]      # the subscript position decides which axis this index addresses
                    if ax is None:
                        raise AnalysisError('centre site %s: %s binds more names than the array has axes' % (qual, norm_stmt(node)))
                    seen = set()
                    if owner is fi:
                        bound = var_on_paths(res, var)
                    else:
                        # in a helper the halved quantity is an argument: it is a centre index of the array only when what is halved is made
                        # of the array's lengths (a count of actuators, a pitch ... halved in the same helper is something else)
                        len_atoms = set()
                        for a_ in lens:
                            len_atoms |= set(dom.rat(dom.length(a_)).atoms())
                        halved = [b.left for b in ast.walk(node.value) if isinstance(b, ast.BinOp) and isinstance(b.op, (ast.FloorDiv, ast.Div, ast.RShift))
                                  and isinstance(b.right, ast.Constant) and b.right.value in (1, 2)]

                        def of_a_length(env, owner=owner, halved=halved, len_atoms=len_atoms):
                            from ..core.interp import Frame as _Frame
                            fr_ = _Frame(owner, owner.module, dict(env))
                            for h_ in halved:
                                try:
                                    r_ = dom.rat(it.ev(h_, fr_))
                                except Exception:
                                    r_ = None
                                if r_ is None or (set(r_.atoms()) & len_atoms):
                                    return True        # not followed, or built from a length: judged
                            return not halved
                        bound = [(p, e['env'][var]) for p in res for e in p.events if e['kind'] == 'watched' and e['node'] is node and e['env'].get(var) is not None
                                 and of_a_length(e.get('reads') or {})]
                    for p, v in bound:
                        items = v.items if isinstance(v, Tup) else [v]
                        key = tuple(sh(dom, x) for x in items)
                        if key in seen:
                            continue
                        seen.add(key)
                        if any(dom.rat(x) is None for x in items):
                            raise AnalysisError('%s: value %r of `%s` is outside the INDEX fragment on path %s' % (qual, v, norm_stmt(node), p.conds))
                        axk = ax
                        if whole and not isinstance(v, Tup) and len(ax) > 1:
                            # one scalar centre bound on its own: which axis it addresses is decided by where it is used
                            axk = [axes[max(used)]] if len(used) == 1 and max(used) < len(axes) else \
                                next(([a] for a in ax if eq(dom, v, half(dom, dom.length(a)))), ax[:1])
                        want = [half(dom, dom.length(a)) for a in axk]
                        ok = len(items) == len(want) and all(eq(dom, x, w) for x, w in zip(items, want))
                        n_inst += 1
                        run.check(ok, rule, fi.qual, 'centre index #%d of `%s`' % (k, norm_stmt(node)),
                                  'index == %s//2 [%s]' % ('/'.join(axk), ptxt(par)),
                                  '%s = (%s) but the origin index is (%s) for %s' % (what or 'centre index', ', '.join(key), ', '.join(sh(dom, w) for w in want), ptxt(par)),
                                  fi.loc(node))
        if n_inst == 0:
            raise AnalysisError('centre site %s: no centre index bound on any analysed path' % qual)

    if want_site('prysm.psf.centroid'):
        try:
            centroid_probe(run, db, rule)
        except AnalysisError:
            # the probe could not follow the routine: fall back to judging the halved shape it subtracts
            centre_site('prysm.psf.centroid', lambda d: {'data': d.array('data', 'r', 'c'), 'dx': d.sym('dx'), 'unit': Const('spatial')},
                        ['r', 'c'], ['r', 'c'], what='centroid reference index')
    for nm in ('mtf_from_psf', 'ptf_from_psf', 'otf_from_psf'):
        try:
            centre_site('prysm.otf.' + nm, lambda d: {'psf': d.array('psf', 'r', 'c'), 'dx': d.sym('dx')}, ['r', 'c'], ['r', 'c'], what='DC index')
        except AnalysisError as e_:
            # where the DC sample sits and what the MTF is normalised by was decided on values (flat and single-sample PSFs, exact DFTs)
            if not otf_on_values():
                raise
            run.info('%s: the centre index is not read (%s); DC at n//2 and the normalisation by that sample were decided on values' % (nm, str(e_)[:120]))
    centre_site('prysm.interferogram.bandlimited_rms',
                lambda d: {'r': d.array('r', 'r', 'c'), 'psd': d.array('psd', 'r', 'c'), 'wllow': Const(None), 'wlhigh': Const(None),
                           'flow': d.sym('flow'), 'fhigh': d.sym('fhigh')}, ['r', 'c'], ['r', 'c'])
    centre_site('prysm.interferogram.render_synthetic_surface',
                lambda d: {'size': d.sym('size'), 'samples': d.length('n'), 'rms': Const(None), 'mask': Const(None)}, ['n'], ['n'])
    centre_site('prysm.x.dm.prepare_actuator_lattice', lambda d: {'shape': Tup([d.length('r'), d.length('c')]), 'Nact': Tup([d.integer('Na0'), d.integer('Na1')]), 'sep': Tup([d.integer('s0'), d.integer('s1')]), 'dx': d.sym('dx')},
                ['r', 'c'], ['r', 'c'])

    # the lattice slices handed out under 'iyy' / 'ixx' address rows / columns: their start is the row / column centre plus an
    # offset that does not involve the array size
    fi = db.func('prysm.x.dm.prepare_actuator_lattice')
    n_sl = 0
    for par in (parity_classes(['r', 'c']) if want_site(fi.qual) else []):
        it, dom = mk(db, par)
        res = it.run(fi, kwargs=lambda: {'shape': Tup([dom.length('r'), dom.length('c')]), 'Nact': Tup([dom.integer('Na0'), dom.integer('Na1')]),
                                         'sep': Tup([dom.integer('s0'), dom.integer('s1')]), 'dtype': dom.sym('dtype')})
        size_atoms = dom.rat(dom.length('r')).atoms() | dom.rat(dom.length('c')).atoms()
        for p in res:
            if p.outcome != 'return' or not hasattr(p.value, 'entries'):
                continue
            for key, axn in (('iyy', 'r'), ('ixx', 'c')):
                sl = p.value.get(Const(key))
                if not isinstance(sl, Slice) or dom.rat(sl.lo) is None:
                    raise AnalysisError('prepare_actuator_lattice: the %s entry is not a slice with an INDEX start' % key)
                off = dom.rat(sl.lo) - dom.rat(half(dom, dom.length(axn)))
                n_sl += 1
                run.check(not (off.atoms() & size_atoms), rule, fi.qual, "lattice slice '%s'" % key,
                          "start of '%s' == %s//2 + size-independent offset [%s]" % (key, axn, ptxt(par)),
                          "the '%s' slice starts at %s, which is not the centre of axis %s plus a size-independent offset for %s" % (key, sh(dom, sl.lo), axn, ptxt(par)),
                          fi.loc())
    if n_sl == 0 and want_site(fi.qual):
        raise AnalysisError('prepare_actuator_lattice: no returned lattice analysed')

    # Interferogram.recenter: c == shape//2 (self.shape is data.shape)
    ci = db.cls('prysm.interferogram.Interferogram')

    def mkself(d):
        o = Obj(ci)
        o.attrs.update({'data': d.array('data', 'r', 'c'), 'dx': d.sym('dx'), '_x': Shaped(Tup([d.length('r'), d.length('c')]), 'x'),
                        '_y': Shaped(Tup([d.length('r'), d.length('c')]), 'y'), '_r': Const(None), '_t': Const(None)})
        return o
    centre_site('prysm.interferogram.Interferogram.recenter', lambda d: {}, ['r', 'c'], ['r', 'c'], select=mkself)


def richdata_slices_rules(run, db):
    """RichData.slices(): the Slices object is handed the data, the x axis (a row of the x grid, or the x vector) and the y axis (a
    column of the y grid, or the y vector), whether or not the grids have been built already.  Interpreted with tokens; make_xy_grid is
    summarised by its contract (returns (x, y); with grid=False the two axis vectors)."""
    from ..core.interp import Interp, Domain, Value, Const, Tup, Unknown, Obj
    from .common import bind_call
    fi = db.func('prysm._richdata.RichData.slices')
    ci = db.cls('prysm._richdata.RichData')
    sci = db.cls('prysm._richdata.Slices')
    init = db.method(sci, '__init__')

    class T(Value):
        def __init__(self, kind, axis=None):
            self.kind, self.axis = kind, axis

        def __repr__(self):
            return {'grid': 'the 2-D %s grid', 'vec': 'the %s axis vector', 'flat': 'a constant vector taken across the %s grid', 'data': 'the data%s'}[self.kind] % (self.axis or '')

    class D(Domain):
        def __init__(self):
            self.made = []

        def call_prysm(self, f_, args, kw, node):
            if f_.name == 'make_xy_grid':
                b = bind_call(f_, args, kw)
                g = b.get('grid', Const(True))
                if not isinstance(g, Const):
                    return Unknown('make_xy_grid with an unknown grid flag')
                k = 'grid' if g.v else 'vec'
                return Tup([T(k, 'x'), T(k, 'y')])
            if f_.module is not fi.module:
                return Unknown(f_.name)
            return None

        def subscript(self, v, idx, node):
            if isinstance(v, T) and v.kind == 'grid':
                items = idx.items if isinstance(idx, Tup) else [idx]
                full = lambda z: type(z).__name__ == 'Slice' or (isinstance(z, Const) and z.v is Ellipsis)
                zero = lambda z: isinstance(z, Const) and z.v == 0 and z.v is not False
                if len(items) == 1 and zero(items[0]) or (len(items) == 2 and zero(items[0]) and full(items[1])):
                    return T('vec' if v.axis == 'x' else 'flat', v.axis)        # a row
                if len(items) == 2 and full(items[0]) and zero(items[1]):
                    return T('vec' if v.axis == 'y' else 'flat', v.axis)        # a column
                return Unknown('part of a grid')
            return None

        def instantiate(self, c_, args, kw, node):
            if c_ is sci:
                self.made.append((bind_call(init, args, kw), node))
                return Unknown('Slices')
            return None

        def getattr(self, v, name, node):
            return None
    problems, n = [], 0
    for label, pre in (('before the grids are built', lambda: (Const(None), Const(None))), ('with the grids cached', lambda: (T('grid', 'x'), T('grid', 'y')))):
        dom = D()
        it = Interp(db, dom)

        def mkself():
            o = Obj(ci)
            x0, y0 = pre()
            o.attrs.update({'data': T('data'), '_x': x0, '_y': y0, 'dx': Unknown('dx'), '_default_twosided': Unknown('twosided')})
            return o
        res = [p for p in it.run(fi, kwargs=lambda: {'twosided': Unknown('twosided')}, self_obj=mkself) if p.outcome == 'return']
        if not res or not dom.made:
            raise AnalysisError('RichData.slices: no Slices object is made (%s)' % label)
        for b, node in dom.made:
            n += 1
            for par, want in (('x', 'x'), ('y', 'y')):
                v = b.get(par)
                if isinstance(v, T) and v.kind == 'vec' and v.axis == want:
                    continue
                if isinstance(v, T):
                    problems.append('%s, the %s axis handed to Slices is %r' % (label, par, v))
                else:
                    raise AnalysisError('RichData.slices: the %s argument of Slices is not followed (%r)' % (par, v))
            if not (isinstance(b.get('data'), T) and b['data'].kind == 'data'):
                raise AnalysisError('RichData.slices: the data argument of Slices is not followed (%r)' % (b.get('data'),))
    # the x / y properties themselves: x is the first result of make_xy_grid, y the second, whichever is asked for first
    for nm in ('x', 'y'):
        pf = db.func('prysm._richdata.RichData.' + nm)
        dom = D()
        it = Interp(db, dom)

        def mkself2():
            o = Obj(ci)
            o.attrs.update({'data': T('data'), '_x': Const(None), '_y': Const(None), 'dx': Unknown('dx')})
            return o
        for p_ in it.run(pf, self_obj=mkself2):
            if p_.outcome != 'return':
                continue
            v = p_.value
            if not isinstance(v, T):
                raise AnalysisError('RichData.%s: the returned value is not followed (%r)' % (nm, v))
            run.check(v.kind == 'grid' and v.axis == nm, 'C04.who', pf.qual, 'which result of make_xy_grid', 'RichData.%s is the %s grid make_xy_grid returns' % (nm, nm),
                      'RichData.%s returns %r' % (nm, v), pf.loc())
    run.check(not problems, 'C04.slices', fi.qual, 'axes handed to Slices', 'Slices receives the data with the x axis vector as x and the y axis vector as y, before and after the grids are cached (%d constructions)' % n,
              'RichData.slices: %s -- the slices miss the origin row / column and carry the wrong coordinates for non-square data' % '; '.join(sorted(set(problems))), fi.loc())


def check(run, db, tier):
    run.trust('INDEX domain: lengths n=2a+p, //2 / ceil(./2) / floor(./2) exact on integer-affine forms per parity class (sa/domains/index.py)',
              'origin convention: the origin of an axis of length n is index n//2 (prysm/fttools.py fftrange docstring and property C04)')
    run.assume('array lengths are positive integers; every parity class of every length involved is enumerated, so all n are covered')
    run.rule('C04.range', 'fftrange(n) starts at -(n//2) and has n samples; make_xy_grid axes are fftrange(s)*dx for axis order (row, col)')
    run.group(coord_dtype_rules, run, db)
    run.rule('C04.pad', 'pad2d places the input origin n//2 on the output origin N//2 for every parity class (both code paths); after-pad completes the shape')
    run.rule('C04.crop', 'crop_center takes [n//2 - o//2, +o) on each axis; crop offset == pad offset for the swapped pair')
    run.rule('C04.centre', 'every centre/reference/DC index equals s//2 of the axis it indexes, for odd and even s')
    run.rule('C04.slices', 'the x/y slices of a data set are row center_y / column center_x (argmin|y|, argmin|x|), one- and two-sided')
    run.rule('C04.who', 'coordinate producers and pad/crop wrappers delegate to fftrange / pad2d / crop_center')

    # ---- fftrange --------------------------------------------------------
    f = db.func('prysm.fttools.fftrange')
    for par in parity_classes(['n']):
        it, dom = mk(db, par)
        res = it.run(f, kwargs=lambda: {'n': dom.length('n'), 'dtype': Const(None)})
        for p in res:
            v = p.value
            ok = isinstance(v, Ranged) and eq(dom, v.start, dom.interp.ev_unary_value(ast.USub(), half(dom, dom.length('n')), None)) \
                and eq(dom, v.n, dom.length('n')) and eq(dom, v.step, Const(1))
            run.check(ok, 'C04.range', f.qual, norm_stmt(f.node.body[-1]), 'fftrange start == -(n//2), length n [%s]' % ptxt(par),
                      'fftrange = %r for %s; expected start -(n//2), n samples' % (v, ptxt(par)), f.loc())

    # ---- make_xy_grid ----------------------------------------------------
    f = db.func('prysm.coordinates.make_xy_grid')
    for par in parity_classes(['r', 'c']):
        it, dom = mk(db, par)
        res = it.run(f, kwargs=lambda: {'shape': Tup([dom.length('r'), dom.length('c')]), 'dx': dom.sym('dx'), 'diameter': Const(0), 'grid': Const(False)})
        for p in res:
            v = p.value
            ok = isinstance(v, Tup) and len(v.items) == 2 and all(isinstance(x, Ranged) for x in v.items)
            if ok:
                x, y = v.items
                dx = dom.sym('dx')
                def start(n):
                    return dom.interp.binop(ast.Mult(), dom.interp.ev_unary_value(ast.USub(), half(dom, dom.length(n)), None), dx, None)
                ok = eq(dom, x.start, start('c')) and eq(dom, x.n, dom.length('c')) and eq(dom, x.step, dx) and \
                    eq(dom, y.start, start('r')) and eq(dom, y.n, dom.length('r')) and eq(dom, y.step, dx)
            run.check(ok, 'C04.range', f.qual, 'y, x = (fftrange(s) * dx for s in shape)', 'x over columns, y over rows, origin at s//2, step dx [%s]' % ptxt(par),
                      'make_xy_grid returns %r for %s' % (v, ptxt(par)), f.loc())

    # ---- pad2d -----------------------------------------------------------
    f = db.func('prysm.fttools.pad2d')
    names = ['n0', 'n1', 'N0', 'N1']
    for mode in ('constant', 'reflect'):
        for explicit in (True, False):
            lens = names if explicit else ['n0', 'n1']
            allnames = names
            for par in parity_classes(allnames):
                it, dom = mk(db, par, fresh=None if explicit else ['N0', 'N1'])

                def kw():
                    k = {'array': dom.array('array', 'n0', 'n1'), 'value': Const(0), 'mode': Const(mode)}
                    if explicit:
                        k['out_shape'] = Tup([dom.length('N0'), dom.length('N1')])
                        k['Q'] = Const(2)
                    else:
                        k['out_shape'] = Const(None)
                        k['Q'] = dom.sym('Q')
                    return k
                res = [p for p in it.run(f, kwargs=kw) if p.outcome == 'return']
                for p in res:
                    if not explicit and isinstance(p.value, Shaped) and p.value.label == 'array' and not [e for e in p.events if e['kind'] == 'store']:
                        continue          # the identity path (Q == 1, no shape asked for): the input itself comes back
                    nn = [dom.length(x) for x in names]
                    want = [dom.interp.binop(ast.Sub(), half(dom, nn[2 + k]), half(dom, nn[k]), None) for k in (0, 1)]
                    if mode == 'constant':
                        st = [e for e in p.events if e['kind'] == 'store' and isinstance(e['target'], Shaped)]
                        if len(st) != 1:
                            raise AnalysisError('pad2d constant path: expected exactly one store into the output, found %d' % len(st))
                        idx = st[0]['index']
                        sl = idx.items if isinstance(idx, Tup) else [idx]
                        ok = len(sl) == 2 and all(isinstance(s, Slice) for s in sl)
                        detail = ''
                        if ok:
                            for k in (0, 1):
                                if not (eq(dom, sl[k].lo, want[k]) and eq(dom, dom.interp.binop(ast.Sub(), sl[k].hi, sl[k].lo, None), nn[k])):
                                    ok = False
                                    detail = 'axis %d offset %s, expected N//2 - n//2 = %s' % (k, sh(dom, sl[k].lo), sh(dom, want[k]))
                        node = st[0]['node']
                        construct = 'constant-mode offset'
                        tgt_shape_ok = eq(dom, st[0]['target'].shape.items[0], nn[2]) and eq(dom, st[0]['target'].shape.items[1], nn[3])
                        ok = ok and tgt_shape_ok
                        run.check(ok, 'C04.pad', f.qual, construct, 'constant mode offset == N//2 - n//2 [%s%s]' % (ptxt(par), '' if explicit else ', Q path'),
                                  'pad2d(constant) misplaces the origin for %s: %s' % (ptxt(par), detail or 'output shape/slices not of the expected form'), f.loc(node))
                    else:
                        calls = [e for e in p.events if e['kind'] == 'extcall' and e['name'] == 'numpy.pad']
                        if len(calls) != 1:
                            raise AnalysisError('pad2d non-constant path: expected one np.pad call, found %d' % len(calls))
                        a = calls[0]['args']
                        ps = a[1] if len(a) > 1 else calls[0]['kwargs'].get('pad_width')
                        ok = isinstance(ps, Tup) and len(ps.items) == 2 and all(isinstance(x, Tup) and len(x.items) == 2 for x in ps.items)
                        detail = ''
                        if ok:
                            for k in (0, 1):
                                before, after = ps.items[k].items
                                tot = dom.interp.binop(ast.Add(), before, after, None)
                                d = dom.interp.binop(ast.Sub(), nn[2 + k], nn[k], None)
                                if not (eq(dom, before, want[k]) and eq(dom, tot, d)):
                                    ok = False
                                    detail = 'axis %d (before, after) = (%s, %s), expected before = N//2 - n//2 = %s, total %s' % (
                                        k, sh(dom, before), sh(dom, after), sh(dom, want[k]), sh(dom, d))
                        run.check(ok, 'C04.pad', f.qual, 'np.pad widths', 'np.pad (before, after) == (N//2 - n//2, rest) [%s%s]' % (ptxt(par), '' if explicit else ', Q path'),
                                  'pad2d(mode=%s) misplaces the origin for %s: %s' % (mode, ptxt(par), detail or 'pad widths not of the expected form'),
                                  f.loc(calls[0]['node']))

    # ---- crop_center -----------------------------------------------------
    f = db.func('prysm.fttools.crop_center')
    for par in parity_classes(['n0', 'n1', 'o0', 'o1']):
        it, dom = mk(db, par)
        res = [p for p in it.run(f, kwargs=lambda: {'img': dom.array('img', 'n0', 'n1'), 'out_shape': Tup([dom.length('o0'), dom.length('o1')])}) if p.outcome == 'return']
        for p in res:
            subs = [e for e in p.events if e['kind'] == 'subscript' and isinstance(e['target'], Shaped) and e['target'].label == 'img']
            if len(subs) != 1:
                raise AnalysisError('crop_center: expected exactly one subscript of img, found %d' % len(subs))
            idx = subs[0]['index']
            sl = idx.items if isinstance(idx, Tup) else [idx]
            ok = len(sl) == 2 and all(isinstance(s, Slice) for s in sl)
            detail = ''
            if ok:
                for k in (0, 1):
                    n, o = dom.length('n%d' % k), dom.length('o%d' % k)
                    want = dom.interp.binop(ast.Sub(), half(dom, n), half(dom, o), None)
                    if not (eq(dom, sl[k].lo, want) and eq(dom, dom.interp.binop(ast.Sub(), sl[k].hi, sl[k].lo, None), o)):
                        ok = False
                        detail = 'axis %d left %s, expected n//2 - o//2 = %s' % (k, sh(dom, sl[k].lo), sh(dom, want))
            run.check(ok, 'C04.crop', f.qual, 'crop offset', 'crop left == n//2 - o//2, width o [%s]' % ptxt(par),
                      'crop_center misplaces the origin for %s: %s' % (ptxt(par), detail or 'slices not of the expected form'), f.loc(subs[0]['node']))
    # scalar out_shape broadcast
    it, dom = mk(db, {})
    res = [p for p in it.run(f, kwargs=lambda: {'img': dom.array('img', 'n0', 'n1'), 'out_shape': Const(7)}) if p.outcome == 'return']
    ok = bool(res) and all(any(e['kind'] == 'subscript' and isinstance(e['index'], Tup) and len(e['index'].items) == 2 for e in p.events) for p in res)
    run.check(ok, 'C04.crop', f.qual, 'scalar out_shape', 'an int out_shape is broadcast to both axes', 'int out_shape is not applied to both axes', f.loc())

    centre_sites(run, db)

    # hann2d: window coordinates are arange(N) - N//2
    f = db.func('prysm.interferogram.hann2d')
    for par in parity_classes(['M', 'N']):
        it, dom = mk(db, par)
        res = it.run(f, kwargs=lambda: {'M': dom.length('M'), 'N': dom.length('N')})
        done = False
        for p in res:
            env = p.frame.env
            for var, ln in (('n', 'N'), ('m', 'M')):
                # the arange events carry the length; the offset is read off the assignment
                pass
        # syntactic-semantic: find assignments n = np.arange(N)[...] - (N//2)
        for st in f.node.body:
            if isinstance(st, ast.Assign) and isinstance(st.value, ast.BinOp) and isinstance(st.value.op, ast.Sub) \
                    and 'arange' in ast.unparse(st.value.left):
                m = ast.unparse(st.value.left)
                ln = 'N' if 'arange(N)' in m else ('M' if 'arange(M)' in m else None)
                if ln is None:
                    continue
                it2, dom2 = mk(db, par)
                from ..core.interp import Frame
                fr = Frame(f, f.module, {'M': dom2.length('M'), 'N': dom2.length('N')})
                it2._reset_run([])
                off = it2.ev(st.value.right, fr)
                done = True
                run.check(eq(dom2, off, half(dom2, dom2.length(ln))), 'C04.centre', f.qual, norm_stmt(st),
                          'window coordinate origin at %s//2 [%s]' % (ln, ptxt(par)),
                          'window origin offset %s != %s//2 for %s' % (sh(dom2, off), ln, ptxt(par)), f.loc(st))
        if not done:
            raise AnalysisError('hann2d: coordinate construction not recognised')

    # forward_ft_unit: shifted fftfreq  (origin typestate: fftshift(fftfreq(n)) has its zero at n//2)
    f = db.func('prysm.fttools.forward_ft_unit')
    calls = [ast.unparse(n.func) for n in walk_no_nested(f.node) if isinstance(n, ast.Call)]
    rets = [n for n in walk_no_nested(f.node) if isinstance(n, ast.Return)]
    ok = any(c.endswith('fftshift') for c in calls) and not any(c.endswith('ifftshift') for c in calls) and any(c.endswith('fftfreq') for c in calls)
    # decided on values first (4, 5, 6 samples, shifted and not): the reading of the calls is then only a cross-check of how it is spelled
    from .c04values import ft_unit_value_rules
    n_ftu = run.group(ft_unit_value_rules, run, db)
    if ok or not n_ftu:
        run.check(ok, 'C04.who', f.qual, 'fftshift(fftfreq)', 'shifted frequency axis is fftshift(fftfreq(n, dx)) (zero at n//2)',
                  'forward_ft_unit does not build its shifted axis as fftshift(fftfreq(...)): calls %s' % calls, f.loc())
    else:
        run.info('forward_ft_unit is not spelled fftshift(fftfreq(...)) (calls %s); its axes were decided on values (%d cases)' % (calls, n_ftu))

    # ---- Slices: the x slice is row centre_y, the y slice is column centre_x (both branches)
    # decided on values first (small concrete maps, odd and even lengths, one- and two-sided); the reading of the subscripts below defers
    # to it where it does not follow the way the slices are taken
    from .c04values import slices_value_rules
    n_slices = run.group(slices_value_rules, run, db)
    run.forgive_later = getattr(run, 'forgive_later', []) + ['slices_value_rules', 'ft_unit_value_rules']
    sci = db.cls('prysm._richdata.Slices')
    it, dom = mk(db, {})
    init = db.method(sci, '__init__')
    o = Obj(sci)
    it._reset_run([])
    it.call_funcinfo(init, [dom.sym('data'), dom.sym('xv'), dom.sym('yv')], {'twosided': Const(True)}, o, None)
    cy, cx = dom.rat(o.attrs.get('center_y')), dom.rat(o.attrs.get('center_x'))
    okc = cy is not None and cx is not None and 'yv' in cy.key() and 'xv' not in cy.key() and 'xv' in cx.key() and 'yv' not in cx.key() and 'argmin' in cy.key()
    run.check(okc, 'C04.slices', init.qual, 'centre indices', 'center_y = argmin|y|, center_x = argmin|x|',
              'slice centres are (center_y=%s, center_x=%s); expected argmin|y| and argmin|x|' % (o.attrs.get('center_y'), o.attrs.get('center_x')), init.loc())
    for which, rowcol in (('x', 0), ('y', 1)):
        fi = db.func('prysm._richdata.Slices.' + which)
        for two in (True, False):
            def mkself():
                so = Obj(sci)
                so.attrs.update({'_source': dom.array('src', 'r', 'c'), '_x': dom.array('x', 'c'), '_y': dom.array('y', 'r'),
                                 'center_y': dom.integer('cy'), 'center_x': dom.integer('cx'), 'twosided': Const(two)})
                return so
            res = [p for p in it.run(fi, self_obj=mkself) if p.outcome == 'return']
            if len(res) != 1 or not (isinstance(res[0].value, Tup) and len(res[0].value.items) == 2):
                raise AnalysisError('Slices.%s: expected one (coords, values) return' % which)
            coords, vals = res[0].value.items

            def flat(v):
                """(label of the array a chain of subscripts starts from, [per axis of that array: ('at', index) | ('from', start, stop or None)])"""
                chain = []
                while isinstance(v, Shaped) and v.origin is not None and v.origin[0] == 'slice':
                    chain.append(v.origin[2])
                    v = v.origin[1]
                if not isinstance(v, Shaped):
                    return None
                spec = [('from', Const(0), None) for _ in v.shape.items]
                for idx in reversed(chain):
                    items = list(idx.items) if isinstance(idx, Tup) else [idx]
                    live = [k for k, sp in enumerate(spec) if sp[0] == 'from']
                    if len(items) > len(live):
                        return None
                    for k, it_ in zip(live, items):
                        _, lo, hi = spec[k]
                        if isinstance(it_, Slice):
                            if not (isinstance(it_.step, Const) and it_.step.v in (None, 1)):
                                return None
                            nlo = lo if (isinstance(it_.lo, Const) and it_.lo.v is None) else dom.interp.binop(ast.Add(), lo, it_.lo, None)
                            nhi = hi if (isinstance(it_.hi, Const) and it_.hi.v is None) else dom.interp.binop(ast.Add(), lo, it_.hi, None)
                            spec[k] = ('from', nlo, nhi)
                        elif dom.rat(it_) is not None:
                            spec[k] = ('at', dom.interp.binop(ast.Add(), lo, it_, None))
                        else:
                            return None
                return v.label, spec
            fv, fc = flat(vals), flat(coords)
            ok = fv is not None and fv[0] == 'src' and len(fv[1]) == 2 and fc is not None and fc[0] == which and len(fc[1]) == 1
            detail = 'values %r, coordinates %r' % (vals, coords)
            if ok:
                fixed, along = (fv[1][0], fv[1][1]) if which == 'x' else (fv[1][1], fv[1][0])
                wantfixed = dom.integer('cy' if which == 'x' else 'cx')
                wantstart = dom.integer('cx' if which == 'x' else 'cy') if not two else Const(0)
                ok = fixed[0] == 'at' and eq(dom, fixed[1], wantfixed) and along[0] == 'from' and eq(dom, along[1], wantstart) and along[2] is None \
                    and fc[1][0][0] == 'from' and eq(dom, fc[1][0][1], wantstart) and fc[1][0][2] is None
                detail = 'values taken at %s, coordinates at %s' % ([(sp[0],) + tuple(sh(dom, z) if z is not None else 'end' for z in sp[1:]) for sp in fv[1]],
                                                                     [(sp[0],) + tuple(sh(dom, z) if z is not None else 'end' for z in sp[1:]) for sp in fc[1]])
            if not ok and n_slices and (fv is None or fc is None):
                run.info('Slices.%s (twosided=%s): the chain of subscripts is not read (%s); decided on values (%d slices)' % (which, two, detail[:120], n_slices))
                continue
            run.check(ok, 'C04.slices', fi.qual, '%s slice twosided=%s' % (which, two),
                      'the %s slice is taken through the origin sample (%s centre fixed%s)' % (which, 'row' if which == 'x' else 'column', '' if two else ', starting at the other centre'),
                      'Slices.%s (twosided=%s) does not pass through the origin sample: %s' % (which, two, detail), fi.loc())

    # ---- who-may-place-a-centre -----------------------------------------
    from .common import reachable_calls

    def calls_in(qual):
        fi = db.func(qual)
        return fi, sorted(reachable_calls(db, fi))          # private helpers are looked through
    for qual, callee in (('prysm.coordinates.make_xy_grid', 'fftrange'),
                         ('prysm._richdata.RichData.x', 'make_xy_grid'), ('prysm._richdata.RichData.y', 'make_xy_grid'),
                         ('prysm.propagation.Wavefront.pad2d', 'pad2d'), ('prysm.propagation.Wavefront.crop', 'crop_center'),
                         ('prysm.interferogram.Interferogram.pad', 'pad2d')):
        fi, cs = calls_in(qual)
        if callee not in cs:
            from .common import executed_calls
            cs = sorted(set(cs) | executed_calls(db, fi))
        if callee not in cs:
            # neither the syntax tree nor the interpretation reaches the shared helper: how this site places its centre is not
            # followed by this rule (the value rules above still judge what it computes).  Not a statement about the code.
            raise AnalysisError('%s: no call of %s is reached (calls seen: %s): which routine places the centre here is not followed' % (fi.qual, callee, sorted(set(cs))[:12]))
        run.check(callee in cs, 'C04.who', fi.qual, 'delegates to ' + callee, '%s delegates to %s' % (fi.name, callee),
                  '%s no longer delegates to %s (calls: %s)' % (fi.qual, callee, sorted(set(cs))), fi.loc())
    # RichData.x/y: axis order of the unpack
    for nm in ('x', 'y'):
        fi = db.func('prysm._richdata.RichData.' + nm)
        for n in walk_no_nested(fi.node):
            if isinstance(n, ast.Assign) and isinstance(n.value, ast.Call) and ast.unparse(n.value.func) == 'make_xy_grid':
                t = ast.unparse(n.targets[0])
                run.check(t.replace(' ', '') in ('self._x,self._y', '(self._x,self._y)'), 'C04.who', fi.qual, norm_stmt(n),
                          'make_xy_grid result unpacked as (x, y)', 'make_xy_grid returns (x, y) but is unpacked as %s' % t, fi.loc(n))
                a0 = ast.unparse(n.value.args[0]) if n.value.args else ''
                run.check(a0 == 'self.data.shape', 'C04.who', fi.qual, 'grid shape', 'grid built from the data shape', 'grid built from %s' % a0, fi.loc(n))

    run.group(richdata_slices_rules, run, db)
    from .c01 import fresh_rules
    run.group(fresh_rules, run, db, 'C04.range')
    # the inline readings of the slices and of forward_ft_unit got this far without refusing: a value group that could not follow the tree
    # is then not a refusal of the check
    for g_ in getattr(run, 'forgive_later', []):
        if any(e.startswith(g_ + ':') for e in run.errors):
            run.errors = [e for e in run.errors if not e.startswith(g_ + ':')]
            run.info('%s could not follow this tree; the same facts were decided by the readings in c04.check' % g_)
    run.require_instances("C04.pad", 64)
    run.require_instances('C04.crop', 17)
    run.require_instances('C04.centre', 30)
