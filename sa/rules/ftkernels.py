"""Shared obligations on the matrix-DFT and chirp-Z kernels (used by C01, C02, C03, C05, C06)."""
import ast

from ..core.db import AnalysisError
from ..core.interp import Interp, Const, Tup, Unknown, Obj, Slice
from ..core.norm import Rat, _rat
from ..domains.kernel import KernelDomain, Vec, Mat, PieceVec, Prod2, coeffs2, exp_arg
from ..domains.index import Shaped, parity_classes, ptxt
from ..domains.normdom import install_pi, Sym


def watch_coincidences(it, dom):
    """Mark (and let Interp.run drop) paths that exist only because two DIFFERENT symbolic quantities were assumed equal
    (`a == b` taken True for non-identical a, b, or `a != b` taken False): such a path describes inputs that another
    context covers exactly (the one that identifies the two symbols), so it is skipped where it arises instead of being
    judged with symbols that no longer describe it."""
    import ast as _ast
    from ..core.interp import Const as _Const
    if getattr(dom, '_watching', False):
        return
    dom._watching = True
    prev = getattr(dom, 'on_branch', None)

    def on_branch(test, truth, frame):
        if prev is not None:
            prev(test, truth, frame)
        if isinstance(test, _ast.Compare) and len(test.ops) == 1 and ((truth and isinstance(test.ops[0], _ast.Eq)) or ((not truth) and isinstance(test.ops[0], _ast.NotEq))):
            l, r = it.ev(test.left, frame), it.ev(test.comparators[0], frame)
            if repr(l) != repr(r) and not isinstance(l, _Const) and not isinstance(r, _Const):
                it.emit('coincidence', test=_ast.unparse(test))
    dom.on_branch = on_branch
    dom.skip_coincidences = True


def mk(db, par):
    dom = KernelDomain(parities=par)
    it = install_pi(Interp(db, dom))
    watch_coincidences(it, dom)
    return it, dom


def executor(db, it, cname):
    ci = db.cls('prysm.fttools.' + cname)

    def make():
        o = Obj(ci)
        init = db.method(ci, '__init__')
        if init is None:
            raise AnalysisError('%s has no __init__' % cname)
        it.call_funcinfo(init, [], {}, o, None)
        return o
    return make


def R_(dom, v):
    r = dom.rat(v)
    if r is None:
        raise AnalysisError('value outside NORM: %r' % (v,))
    return r


def half(dom, v):
    return R_(dom, dom.floordiv(R_(dom, v), R_(dom, Const(2)), None))


def is_real(dom, r):
    atoms = r.atoms()
    return 'I' not in atoms and all(dom.R.real.get(a, True) for a in atoms)


class AxisSpec:
    """What the textbook kernel of one axis looks like."""

    def __init__(self, n_in, n_out, k, shift, name):
        self.n_in = n_in        # Value: input length
        self.n_out = n_out      # Value: output length
        self.k = k              # Rat: mixed coefficient  (-/+ 2 pi i / (N Q))
        self.shift = shift      # Value: requested shift for this axis (output samples)
        self.name = name


class _Obs(list):
    """list of (ok, text, label); label is a stable short name of the obligation kind."""

    def add(self, ok, label, text):
        list.append(self, (bool(ok), text, label))


def check_dft_matrix(dom, mat, spec, in_idx_is_rows, shift_taken):
    """Obligations on one basis matrix.  Returns list of (ok, text, label)."""
    out = _Obs()
    i_in = dom.idx_atom(spec.n_in)
    i_out = dom.idx_atom(spec.n_out)
    rows, cols = (i_in, i_out) if in_idx_is_rows else (i_out, i_in)
    out.append((mat.idx0 == rows and mat.idx1 == cols,
                'axis %s basis orientation rows=%s cols=%s (expected rows=%s cols=%s)' % (spec.name, mat.idx0, mat.idx1, rows, cols)))
    ea = exp_arg(dom, mat.elem)
    if ea is None:
        out.append((False, 'axis %s basis is not (index-free factor) x exp(phase): %r' % (spec.name, mat.elem)))
        return out, None
    arg, fac = ea
    cf = coeffs2(dom, Sym(arg), i_in, i_out)
    if cf is None or any(k not in ((0, 0), (0, 1), (1, 0), (1, 1)) for k in cf):
        out.append((False, 'axis %s kernel phase is not bilinear in the input/output indices: %s' % (spec.name, arg.key())))
        return out, fac
    zero = Rat(dom.R.const(0))
    k = spec.k
    c11 = cf.get((1, 1), zero)
    out.append((c11 == k, 'axis %s kernel frequency d2(phase)/d(i_in)d(i_out) = %s, textbook %s' % (spec.name, c11.key(), k.key())))
    # output coordinate: coefficient of i_in alone == k * (-(M//2) - shift)
    ocoord = -half(dom, spec.n_out) - R_(dom, spec.shift)
    c10 = cf.get((1, 0), zero)
    out.append((c10 == k * ocoord, 'axis %s output coordinate origin/shift: coefficient of the input index = %s, expected k*(-(M//2) - shift) = %s'
                % (spec.name, c10.key(), (k * ocoord).key())))
    # input coordinate: exact only when no shift is requested (otherwise a pure output phase)
    c01 = cf.get((0, 1), zero)
    if not shift_taken:
        icoord = -half(dom, spec.n_in)
        out.append((c01 == k * icoord, 'axis %s input coordinate origin: coefficient of the output index = %s, expected k*(-(N//2)) = %s'
                    % (spec.name, c01.key(), (k * icoord).key())))
    else:
        out.append((is_real(dom, c01 * (-Rat(dom.R.I))), 'axis %s: linear phase in the output index is purely imaginary' % spec.name))
    c00 = cf.get((0, 0), zero)
    if not shift_taken:
        out.append((c00 == k * (-half(dom, spec.n_in)) * ocoord, 'axis %s constant phase = %s, expected k*(N//2)*(M//2)' % (spec.name, c00.key())))
    else:
        out.append((is_real(dom, c00 * (-Rat(dom.R.I))), 'axis %s: constant phase term is purely imaginary (unit modulus)' % spec.name))
    return out, fac


def seg_bounds_ok(dom, pv, spec_K, M, N):
    """The three stores of the chirp filter tile [0,K): [0,M), [M,K-N+1), [K-N+1,K)."""
    want = {('0', R_(dom, M).key()), (R_(dom, M).key(), (R_(dom, spec_K) - R_(dom, N) + 1).key()),
            ((R_(dom, spec_K) - R_(dom, N) + 1).key(), R_(dom, spec_K).key())}
    got = set()
    for lo, hi, _ in pv.segs:
        rl, rh = dom.rat(lo), dom.rat(hi)
        if rl is None or rh is None:
            raise AnalysisError('chirp filter: the bounds of a stored segment are not followed (%r, %r)' % (lo, hi))
        got.add((rl.key(), rh.key()))
    return got == want


def check_czt_axis(dom, ev_b, ev_H, ev_a, spec, alpha, K, norm=True, shift_taken=True):
    """Obligations on the three chirps of one axis.  alpha: expected Rat 1/(N Q)."""
    out = _Obs()
    R = dom.R
    I, pi = Rat(R.I), Rat(R.atom('pi'))
    N, M = spec.n_in, spec.n_out
    iN, iM = dom.idx_atom(N), dom.idx_atom(M)
    zero = Rat(R.const(0))
    # ---- pre-chirp b
    b = ev_b
    # what this model cannot read (a chirp that is not a vector over the index it expects, a filter laid out otherwise than as two
    # chirp segments around a gap) is a refusal, not an observation: the callers defer to the decision on values
    if not isinstance(b, Vec) or b.idx != iN:
        raise AnalysisError('chirp model: axis %s pre-chirp is not a vector over the input index of this axis: %r' % (spec.name, b))
    ea = exp_arg(dom, b.elem)
    if ea is None:
        raise AnalysisError('chirp model: axis %s pre-chirp is not factor x exp(phase)' % spec.name)
    arg, fac = ea
    n_coord = Rat(R.atom(iN)) - half(dom, N)
    want = -I * pi * alpha * n_coord * n_coord
    out.append((arg == want, 'axis %s pre-chirp phase = %s, expected -i pi alpha (i - N//2)^2 with alpha = %s' % (spec.name, arg.key(), alpha.key())))
    if norm:
        out.append((fac * fac == alpha, 'axis %s normalisation^2 = %s, expected alpha = 1/(N Q) = %s' % (spec.name, (fac * fac).key(), alpha.key())))
    # ---- filter h (before FFT)
    H = ev_H
    if not (isinstance(H, PieceVec) and H.fft):
        raise AnalysisError('chirp model: axis %s chirp filter is not the FFT of a piecewise vector' % spec.name)
    out.append((R_(dom, H.n) == R_(dom, K), 'axis %s filter length %s == convolution length %s' % (spec.name, R_(dom, H.n).key(), R_(dom, K).key())))
    if not seg_bounds_ok(dom, H, K, M, N):
        raise AnalysisError('chirp model: axis %s filter is not stored as the segments [0,M) [M,K-N+1) [K-N+1,K) (%d stores)' % (spec.name, len(H.segs)))
    out.append((True, 'axis %s filter segments tile [0,M) [M,K-N+1) [K-N+1,K)' % spec.name))
    cprime = half(dom, N) - half(dom, M) - R_(dom, spec.shift)       # lag offset so that output coord = t - M//2 - shift
    iN1 = dom.idx_atom(Sym(R_(dom, N) - 1))
    for lo, hi, val in H.segs:
        rl = dom.rat(lo)
        if isinstance(val, Vec):
            ea = exp_arg(dom, val.elem)
            if ea is None:
                raise AnalysisError('chirp model: axis %s filter segment is not exp(phase)' % spec.name)
            arg, fac = ea
            if rl is not None and rl.is_zero():
                lag = Rat(R.atom(val.idx)) + cprime
                ok_idx = val.idx == iM
            else:
                lag = Rat(R.atom(val.idx)) - (R_(dom, N) - 1) + cprime
                ok_idx = val.idx == iN1
            want = I * pi * alpha * lag * lag
            out.append((ok_idx and arg == want and fac == 1,
                        'axis %s filter segment [%s:..] phase = %s, expected +i pi alpha (lag + N//2 - M//2 - shift)^2 = %s'
                        % (spec.name, rl.key() if rl is not None else '?', arg.key(), want.key())))
        else:
            r = dom.rat(val)
            out.append((r is not None and r.is_zero(), 'axis %s filter gap segment is zero' % spec.name))
    # ---- post-chirp a
    a = ev_a
    if not isinstance(a, Vec) or a.idx != iM:
        raise AnalysisError('chirp model: axis %s post-chirp is not a vector over the output index of this axis: %r' % (spec.name, a))
    ea = exp_arg(dom, a.elem)
    if ea is None:
        raise AnalysisError('chirp model: axis %s post-chirp is not exp(phase)' % spec.name)
    arg, fac = ea
    out.append((fac == 1, 'axis %s post-chirp has unit modulus factor' % spec.name))
    if not shift_taken:
        m_coord = Rat(R.atom(iM)) - half(dom, M)
        want = -I * pi * alpha * m_coord * m_coord
        out.append((arg == want, 'axis %s post-chirp phase = %s, expected -i pi alpha (t - M//2)^2 = %s' % (spec.name, arg.key(), want.key())))
    else:
        out.append((is_real(dom, arg * (-Rat(R.I))), 'axis %s post-chirp phase is purely imaginary (pure phase)' % spec.name))
        # the quadratic coefficient must still be -i pi alpha (otherwise the modulus of the sum changes)
        cf = coeffs2(dom, Sym(arg), iM, iM)
        c2 = cf.get((2, 0), zero) if cf else None
        out.append((c2 is not None and c2 == -I * pi * alpha, 'axis %s post-chirp quadratic coefficient == -i pi alpha' % spec.name))
    return out


def czt_events(dom, p):
    """Split the broadcast multiplies of a czt2 path into pre-chirp / filter / post-chirp by their
    position relative to the forward and inverse FFT in execution order."""
    ev = [e for e in p.events if e['kind'] in ('bmul', 'fft2')]
    pos = [i for i, e in enumerate(ev) if e['kind'] == 'fft2']
    if len(pos) != 2 or ev[pos[0]]['which'] != 'fft2' or ev[pos[1]]['which'] != 'ifft2':
        raise AnalysisError('chirp-Z path is not bmul* fft2 bmul* ifft2 bmul*: %s' % [(e['kind'], e.get('which')) for e in ev])
    pre = ev[:pos[0]]
    filt = ev[pos[0] + 1:pos[1]]
    post = ev[pos[1] + 1:]
    return pre, filt, post, [ev[pos[0]], ev[pos[1]]]


def vec_axis(v):
    """Axis of a rank-2 array a vector multiplies: column vector -> 0, bare 1-D -> 1."""
    return 0 if v.axis == 0 else 1
