"""C04 on values: the slices of a data set run on a small concrete map (FILE's arrays).  Whatever the organisation of `Slices`, the x
slice must be the row of the sample at y == 0 and the y slice the column of the sample at x == 0, with the coordinates that belong to
the values (from the origin on when one-sided)."""
from ..core.db import AnalysisError
from ..core.interp import Const, Tup, Obj
from ..domains.filedom import file_interp, FArr

SL = 'prysm._richdata.Slices'
# (x coordinates, y coordinates): odd and even lengths, the origin at n//2 as fftrange puts it
GRIDS = (((-2, -1, 0, 1, 2), (-1, 0, 1)), ((-2, -1, 0, 1), (-3, -2, -1, 0, 1, 2)), ((-1, 0), (-2, -1, 0, 1, 2)))


def slices_value_rules(run, db):
    ci = db.cls(SL)
    init = db.method(ci, '__init__')
    n_ok = 0
    for xs, ys in GRIDS:
        for two in (True, False):
            it, dom = file_interp(db)
            H, W = len(ys), len(xs)

            def mk():
                o = Obj(ci)
                it.call_funcinfo(init, [FArr.of((H, W), [dom.sym('d%d_%d' % (i, j)) for i in range(H) for j in range(W)]),
                                        FArr.of((W,), [Const(v) for v in xs]), FArr.of((H,), [Const(v) for v in ys])], {'twosided': Const(two)}, o, None)
                return o
            i0, j0 = ys.index(0), xs.index(0)
            for which in ('x', 'y'):
                fi = db.func(SL + '.' + which)
                label = 'Slices.%s of a %dx%d map (x = %s, y = %s, twosided=%s)' % (which, H, W, list(xs), list(ys), two)
                it._reset_run([])
                res = it.run(fi, self_obj=mk)
                rets = [p for p in res if p.outcome == 'return']
                if len(rets) != len(res) or not rets:
                    raise AnalysisError('%s: not every path returns' % label)
                for p in rets:
                    v = p.value
                    if not (isinstance(v, Tup) and len(v.items) == 2 and all(isinstance(z, FArr) for z in v.items)):
                        raise AnalysisError('%s: the (coordinates, values) pair that is returned is not followed: %r' % (label, v))
                    coords, vals = v.items
                    if which == 'x':
                        start = 0 if two else j0
                        want_v = ['d%d_%d' % (i0, j) for j in range(start, W)]
                        want_c = list(xs[start:])
                    else:
                        start = 0 if two else i0
                        want_v = ['d%d_%d' % (i, j0) for i in range(start, H)]
                        want_c = list(ys[start:])
                    got_v = [dom.key(z) for z in vals.values()]
                    got_c = [getattr(z, 'v', None) if isinstance(z, Const) else dom.key(z) for z in coords.values()]
                    ok = got_v == want_v and got_c == want_c
                    run.check(ok, 'C04.slices', fi.qual, '%s slice on values, twosided=%s' % (which, two),
                              '%s: the slice runs through the origin sample and carries the coordinates of its values' % label,
                              '%s: returns the values %s at the coordinates %s; the slice through the origin sample is %s at %s' % (label, got_v, got_c, want_v, want_c), fi.loc())
                    n_ok += ok
    return n_ok


def ft_unit_value_rules(run, db):
    """forward_ft_unit on values: for 4, 5 and 6 samples the shifted axis is (k - n//2) / (n dx), zero at sample n//2; the unshifted one is
    in FFT order (zero first)"""
    from ..core.norm import Rat
    f = db.func('prysm.fttools.forward_ft_unit')
    n_ok = 0
    for n in (4, 5, 6):
        for shift in (True, False):
            it, dom = file_interp(db)
            res = it.run(f, kwargs=lambda: {'dx': dom.sym('dx'), 'samples': Const(n), 'shift': Const(shift)})
            rets = [p for p in res if p.outcome == 'return']
            if not rets or len(rets) != len(res):
                raise AnalysisError('forward_ft_unit(%d samples, shift=%s): not every path returns' % (n, shift))
            for p in rets:
                v = p.value
                if not isinstance(v, FArr) or v.ndim != 1:
                    raise AnalysisError('forward_ft_unit(%d samples, shift=%s): the axis that is returned is not followed: %r' % (n, shift, v))
                ks = list(range(-(n // 2), n - n // 2)) if shift else list(range(0, (n - 1) // 2 + 1)) + list(range(-(n // 2), 0))
                dxr = Rat(dom.R.atom('dx'))
                got = [dom.rat(c) for c in v.values()]
                if any(g is None for g in got):
                    raise AnalysisError('forward_ft_unit(%d samples, shift=%s): a frequency is not followed' % (n, shift))
                ok = len(got) == n and all(g == Rat(dom.R.const(k)) / (dxr * n) for g, k in zip(got, ks))
                run.check(ok, 'C04.who', f.qual, 'frequency axis on values, shift=%s' % shift,
                          'forward_ft_unit(%d samples, shift=%s) is k / (n dx) with zero at sample %s' % (n, shift, 'n//2' if shift else '0'),
                          'forward_ft_unit(%d samples, dx, shift=%s) returns %s; the %s frequency axis is %s / (%d dx)' % (n, shift, [g.key() for g in got], 'shifted' if shift else 'FFT-order', ks, n), f.loc())
                n_ok += ok
    return n_ok
