"""C01 on values: the chirp-Z route and the matrix-DFT route run on small concrete arrays of symbolic samples (FILE's arrays, exact DFTs
of length 1, 2, 4, NORM's exp atoms with exp(a) exp(b) = exp(a + b)).  Bluestein's identity is then a polynomial identity in the
samples and exp(i pi / Q): czt2 == dft2 and iczt2 == idft2 cell by cell, for symbolic Q (also per axis) and several shifts, whatever the
organisation of the two executors."""
from ..core.db import AnalysisError
from ..core.interp import Const, Tup, Obj
from ..domains.filedom import file_interp, FArr, DType

FT = 'prysm.fttools.'
# (input shape, output samples): every axis has m + M - 1 == 4 or <= 2, so that the chirp-Z FFT length is 4, 2 or 1
SIZES = (((2, 2), (3, 3)), ((3, 2), (2, 3)), ((2, 3), (3, 2)), ((1, 2), (2, 3)))
SHIFTS = ((0, 0), (1, 0), (0, -1), (2, 1))


def _run(db, it, dom, eng, meth, shape, out, shift, qmode, cplx):
    ci = db.cls(FT + eng)
    f = db.func(FT + eng + '.' + meth)

    def mk():
        o = Obj(ci)
        it.call_funcinfo(db.method(ci, '__init__'), [], {}, o, None)
        return o

    def cell(i, j):
        if cplx:
            return dom.lift(dom.rat(dom.sym('a%d%d' % (i, j))) + dom.R.I * dom.rat(dom.sym('b%d%d' % (i, j))))
        return dom.sym('a%d%d' % (i, j))
    Q = dom.sym('Q') if qmode == 'scalar' else (Const(int(qmode.rsplit('_', 1)[1])) if qmode.startswith('scalar_const_') else Tup([dom.sym('Qy'), dom.sym('Qx')]))
    res = it.run(f, kwargs=lambda: {'ary': FArr.of(shape, [cell(i, j) for i in range(shape[0]) for j in range(shape[1])], DType('c', 16) if cplx else DType('f', 8)),
                                    'Q': Q, 'samples_out': Tup([Const(out[0]), Const(out[1])]), 'shift': Tup([Const(shift[0]), Const(shift[1])])}, self_obj=mk)
    rets = [p for p in res if p.outcome == 'return']
    if len(rets) != len(res) or not rets:
        raise AnalysisError('%s.%s%s -> %s: not every path returns' % (eng, meth, shape, out))
    vals = []
    for p in rets:
        if not isinstance(p.value, FArr):
            raise AnalysisError('%s.%s on a %s array: the result is not followed: %r' % (eng, meth, shape, p.value))
        cells = [dom.rat(v) for v in p.value.values()]
        if any(c is None for c in cells):
            bad = [v for v in p.value.values() if dom.rat(v) is None][0]
            raise AnalysisError('%s.%s on a %s array: a sample of the result is not followed: %r' % (eng, meth, shape, bad))
        vals.append((tuple(p.value.shape), cells))
    return vals


def route_value_rules(run, db):
    n_ok = 0
    fq = FT + 'ChirpZTransformExecutor.czt2'
    cases = []
    for (fwd_c, fwd_m) in (('czt2', 'dft2'), ('iczt2', 'idft2')):
        for shape, out in SIZES:
            for shift in SHIFTS:
                for qmode in ('scalar', 'per axis'):
                    cplx = (fwd_c == 'iczt2') or shift == (2, 1)
                    if qmode == 'per axis' and shift != (0, 0):
                        continue
                    if shift != (0, 0) and (shape, out) not in (SIZES[0], SIZES[1]):
                        continue            # shifted cases on two of the size pairs (moduli of complex sums are the expensive part)
                    if shift == (2, 1) and fwd_c == 'iczt2':
                        continue
                    cases.append((fwd_c, fwd_m, shape, out, shift, qmode, cplx))
    # the inverse route on real samples (the shortcut that skips a conjugation), and the forward route on complex ones
    cases.append(('iczt2', 'idft2') + SIZES[0] + ((0, 0), 'scalar', False))
    cases.append(('iczt2', 'idft2') + SIZES[2] + ((0, 0), 'scalar', False))
    cases.append(('czt2', 'dft2') + SIZES[1] + ((0, 0), 'scalar', True))
    if True:
        if True:
            if True:
                for (fwd_c, fwd_m, shape, out, shift, qmode, cplx) in cases:
                    label = '%s vs %s, %dx%d %s samples -> %dx%d, shift %s, Q %s' % (fwd_c, fwd_m, shape[0], shape[1], 'complex' if cplx else 'real', out[0], out[1], shift, qmode)
                    it, dom = file_interp(db)
                    dom.positive = {'Q', 'Qy', 'Qx'}
                    # a path taken only because two different symbols (Qy and Qx, say) were assumed equal describes inputs that the
                    # scalar-Q case covers with the symbols identified: it is skipped, not judged with symbols that no longer describe it
                    from .ftkernels import watch_coincidences
                    watch_coincidences(it, dom)
                    a = _run(db, it, dom, 'ChirpZTransformExecutor', fwd_c, shape, out, shift, qmode, cplx)
                    b = _run(db, it, dom, 'MatrixDFTExecutor', fwd_m, shape, out, shift, qmode, cplx)
                    if shift != (0, 0):
                        # with a shift the routes may differ by a pure phase (the property says so: the matrix DFT moves the input grid along
                        # with the output grid, the chirp-Z route does not): what must agree is the modulus
                        a = [(sh, [c * c.conj() for c in cells]) for sh, cells in a]
                        b = [(sh, [c * c.conj() for c in cells]) for sh, cells in b]
                    ref_shape, ref = b[0]
                    same = lambda u, v: len(u) == len(v) and all(x == y for x, y in zip(u, v))
                    ok = all(sh == ref_shape and same(cells, ref) for sh, cells in a + b[1:])
                    detail = ''
                    if not ok:
                        sh, cells = a[0]
                        if sh != ref_shape:
                            detail = 'shapes %s and %s' % (sh, ref_shape)
                        else:
                            k = next((i for i, (x, y) in enumerate(zip(cells, ref)) if not (x == y)), 0)
                            detail = 'output sample (%d, %d): chirp-Z gives %s, the matrix DFT gives %s' % (k // ref_shape[1], k % ref_shape[1], cells[k].key()[:160], ref[k].key()[:160])
                    run.check(ok, 'C01.route', FT + 'ChirpZTransformExecutor.' + fwd_c, 'chirp-Z == matrix DFT on values',
                              '%s: %s cell by cell (Bluestein identity as a polynomial identity in the samples and exp(i pi/Q))' % (label, 'equal' if shift == (0, 0) else 'equal in modulus'),
                              '%s: the two routes differ%s -- %s' % (label, '' if shift == (0, 0) else ' in modulus', detail), db.func(FT + 'ChirpZTransformExecutor.' + fwd_c).loc())
                    n_ok += ok
    return n_ok


def routes_decided(db):
    """(cases in which czt == matrix DFT was decided on values, findings) for this tree, computed once per DB"""
    cached = getattr(db, '_c01_routes', None)
    if cached is None:
        from ..core.report import Run
        quiet = Run('C01', 'quick', '')
        try:
            n = route_value_rules(quiet, db)
            cached = (n, len(quiet.findings))
        except AnalysisError:
            cached = (0, 0)
        db._c01_routes = cached
    return cached


def fft_routes_decided(db):
    """(cases in which the padded-FFT route == the matrix DFT was decided on values, findings) for this tree, computed once per DB"""
    cached = getattr(db, '_c01_fft_routes', None)
    if cached is None:
        from ..core.report import Run
        quiet = Run('C01', 'quick', '')
        try:
            n = fft_route_value_rules(quiet, db)
            cached = (n, len(quiet.findings))
        except AnalysisError:
            cached = (0, 0)
        db._c01_fft_routes = cached
    return cached


def defer_to_fft_routes(run, db, what, err, credits=()):
    """A reading of focus / unfocus (shift pairing as a typestate, one FFT with norm='ortho') that cannot read this organisation defers to
    the decision on values: focus(w, Q) == dft2(w, Q, Q * shape) and unfocus(w, Q) == idft2(...) cell by cell for even and odd lengths,
    padded and unpadded; what the reading would establish then holds because it holds for the matrix route."""
    n, bad = fft_routes_decided(db)
    if not n or bad:
        return False
    run.info('%s does not read this organisation of the FFT route (%s); padded FFT == matrix DFT was decided on values (%d cases)' % (what, str(err)[:140], n))
    for rule, k in credits:
        run.credit(rule, k, '%s refused; padded FFT == matrix DFT decided on values' % what)
    return True


def defer_to_routes(run, db, what, err, credits=()):
    """A reading of the chirp-Z executor (pre-chirp / filter / post-chirp pattern) that cannot read this organisation defers to the decision
    on values: when the chirp-Z route equals the matrix-DFT route cell by cell (in modulus under a shift) for symbolic Q, per-axis Q and
    several shifts and sizes, what the reading would have established about the chirp-Z route holds because it holds for the matrix
    route.  True: deferred (said in the evidence, instance floors credited); False: the caller re-raises."""
    n, bad = routes_decided(db)
    if not n or bad:
        return False
    run.info('%s does not read this organisation of the chirp-Z executor (%s); chirp-Z == matrix DFT was decided on values (%d cases)' % (what, str(err)[:140], n))
    for rule, k in credits:
        base, name = run, rule
        while hasattr(base, 'run'):
            rn = getattr(base, 'rename', None)
            name = rn(name) if callable(rn) else (rn.get(name, name) if isinstance(rn, dict) else name)
            base = base.run
        base.credit(name, k, '%s refused; chirp-Z == matrix DFT decided on values' % what)
    return True


def fft_route_value_rules(run, db):
    """the padded-FFT route against the matrix-DFT route on values: focus(w, Q) == dft2(w, Q, Q * shape) and unfocus(w, Q) == idft2(...)
    for 2x2, 1x2, 2x1 arrays of symbolic complex samples with Q = 2 (padded to lengths 4 / 2) and Q = 1"""
    P = 'prysm.propagation.'
    n_ok = 0
    for fn, meth in (('focus', 'dft2'), ('unfocus', 'idft2')):
        f = db.func(P + fn)
        for shape, Q in (((2, 2), 2), ((1, 2), 2), ((2, 1), 2), ((2, 2), 1), ((2, 4), 1), ((3, 3), 1), ((3, 2), 1), ((1, 3), 2)):
            it, dom = file_interp(db)
            out = (shape[0] * Q, shape[1] * Q)
            label = '%s(w, Q=%d) vs %s, %dx%d complex samples -> %dx%d' % (fn, Q, meth, shape[0], shape[1], out[0], out[1])

            def w():
                return FArr.of(shape, [dom.lift(dom.rat(dom.sym('a%d%d' % (i, j))) + dom.R.I * dom.rat(dom.sym('b%d%d' % (i, j)))) for i in range(shape[0]) for j in range(shape[1])], DType('c', 16))
            res = it.run(f, kwargs=lambda: {'wavefunction': w(), 'Q': Const(Q)})
            rets = [p for p in res if p.outcome == 'return']
            if len(rets) != len(res) or not rets or not all(isinstance(p.value, FArr) for p in rets):
                raise AnalysisError('%s: the padded-FFT route is not followed (%s)' % (label, [repr(p.value)[:60] for p in res][:2]))
            ref = _run(db, it, dom, 'MatrixDFTExecutor', meth, shape, out, (0, 0), 'scalar_const_%d' % Q, True)
            ref_shape, ref_cells = ref[0]
            for p in rets:
                cells = [dom.rat(v) for v in p.value.values()]
                if any(c is None for c in cells):
                    raise AnalysisError('%s: a sample of the padded-FFT result is not followed' % label)
                ok = tuple(p.value.shape) == ref_shape and all(x == y for x, y in zip(cells, ref_cells))
                detail = ''
                if not ok:
                    if tuple(p.value.shape) != ref_shape:
                        detail = 'shapes %s and %s' % (tuple(p.value.shape), ref_shape)
                    else:
                        k = next(i for i, (x, y) in enumerate(zip(cells, ref_cells)) if not (x == y))
                        detail = 'output sample (%d, %d): the FFT route gives %s, the matrix DFT gives %s' % (k // ref_shape[1], k % ref_shape[1], cells[k].key()[:140], ref_cells[k].key()[:140])
                run.check(ok, 'C01.route', f.qual, 'padded FFT == matrix DFT on values', '%s: equal cell by cell' % label, '%s: the two routes differ -- %s' % (label, detail), f.loc())
                n_ok += ok
    return n_ok
