"""C12 on values: Interferogram.crop run on small concrete maps of symbolic samples (FILE's arrays: concrete shapes, cells in boxes).
What is decided does not depend on how crop is organised: the result is the bounding box of the valid samples, every coordinate cache
that existed is cut to the same window, and cropping again changes nothing."""
from ..core.db import AnalysisError
from ..core.interp import Const, Unknown, Obj
from ..domains.filedom import file_interp, FArr, NAN, is_nan, Junk

IG = 'prysm.interferogram.Interferogram'
H, W = 5, 6
# (rows of invalid samples above, below; columns left, right) -- different on every side so that an exchanged bound shows
MARGINS = ((1, 2, 0, 1), (0, 0, 2, 1), (2, 0, 1, 0), (0, 1, 0, 3), (1, 1, 1, 2), (0, 2, 3, 0), (0, 0, 0, 2), (3, 0, 0, 0))
CACHES = (('_x', '_y', '_r', '_t'), ('_x', '_y'), ())


def _grid(dom, tag):
    return FArr.of((H, W), [dom.sym('%s%d_%d' % (tag, i, j)) for i in range(H) for j in range(W)])


def _names(dom, a):
    return [('nan' if is_nan(v) else dom.key(v)) for v in a.values()]


def crop_value_rules(run, db):
    fc = db.func(IG + '.crop')
    ci = db.cls(IG)
    n_ok = 0
    for (top, bottom, left, right) in MARGINS:
        for caches in CACHES:
            it, dom = file_interp(db)
            label = 'crop of a %dx%d map with %d / %d invalid rows above / below and %d / %d invalid columns left / right%s, caches %s' % (
                H, W, top, bottom, left, right, ' and a dead row and column inside' if len(caches) == 4 else '', list(caches) or 'empty')
            rows, cols = range(top, H - bottom), range(left, W - right)
            hole = (rows[len(rows) // 2], cols[len(cols) // 2]) if len(rows) > 2 and len(cols) > 2 else None
            # with the full set of caches also a dead line: a whole invalid row and column inside the valid region (they stay in the result)
            dead_row = rows[1] if (len(caches) == 4 and len(rows) > 2) else None
            dead_col = cols[1] if (len(caches) == 4 and len(cols) > 2) else None

            def mk():
                o = Obj(ci)
                data = _grid(dom, 'd')
                for i in range(H):
                    for j in range(W):
                        if i not in rows or j not in cols or (i, j) == hole or i == dead_row or j == dead_col:
                            data.boxes[i * W + j].v = NAN
                o.attrs.update({'data': data, 'dx': dom.sym('DX'), '_latcaled': Const(True), 'wavelength': dom.sym('WL')})
                for c in ('_x', '_y', '_r', '_t'):
                    o.attrs[c] = _grid(dom, c[1:].upper()) if c in caches else Const(None)
                return o
            res = [p for p in it.run(fc, self_obj=mk)]
            if not res or any(p.outcome != 'return' for p in res):
                run.finding('C12.crop', fc.qual, 'crop raises', '%s: crop raises %s' % (label, [getattr(getattr(p.value, 'exc', p.value), 'v', p.value) for p in res if p.outcome != 'return'][:2]), fc.loc())
                continue
            for p in res:
                o = p.frame.env.get('self')
                if not isinstance(o, Obj):
                    raise AnalysisError('%s: the object is not followed' % label)
                want_shape = (len(rows), len(cols))
                bad = []
                for attr, tag in (('data', 'd'),) + tuple((c, c[1:].upper()) for c in caches):
                    a = o.attrs.get(attr)
                    if not isinstance(a, FArr):
                        if attr != 'data' and isinstance(a, Const) and a.v is None:
                            continue            # a cache that was dropped is recomputed from the cropped data: coherent by construction
                        raise AnalysisError('%s: %s after crop is not followed: %r' % (label, attr, a))
                    want = [('nan' if (tag == 'd' and ((i, j) == hole or i == dead_row or j == dead_col)) else '%s%d_%d' % (tag, i, j)) for i in rows for j in cols]
                    got = _names(dom, a)
                    if tuple(a.shape) != want_shape:
                        bad.append('%s has shape %s, the bounding box of the valid samples is %s' % (attr.lstrip('_'), tuple(a.shape), want_shape))
                    elif got != want:
                        k = next(i for i, (g, w) in enumerate(zip(got, want)) if g != w)
                        bad.append('%s[%d, %d] holds %s, the sample / coordinate that belongs there is %s' % (attr.lstrip('_'), k // len(cols), k % len(cols), got[k], want[k]))
                for c in ('_x', '_y', '_r', '_t'):
                    if c not in caches and isinstance(o.attrs.get(c), FArr):
                        a = o.attrs[c]
                        if tuple(a.shape) != want_shape:
                            bad.append('%s was filled during crop with shape %s' % (c.lstrip('_'), tuple(a.shape)))
                if bad:
                    run.finding('C12.crop', fc.qual, 'crop window', '%s: %s' % (label, '; '.join(bad[:3])), fc.loc())
                    continue
                # idempotence: crop of the result
                before = {k: (tuple(v.shape), _names(dom, v)) for k, v in o.attrs.items() if isinstance(v, FArr)}
                res2 = it.run(fc, self_obj=lambda: o)
                again = [q for q in res2 if q.outcome == 'return']
                if len(again) != len(res2) or not again:
                    run.finding('C12.crop', fc.qual, 'crop twice', '%s: cropping the cropped map raises' % label, fc.loc())
                    continue
                o2 = again[0].frame.env.get('self')
                after = {k: (tuple(v.shape), _names(dom, v)) for k, v in o2.attrs.items() if isinstance(v, FArr)}
                if any(after.get(k) != v for k, v in before.items()):
                    k = [k for k, v in before.items() if after.get(k) != v][0]
                    run.finding('C12.crop', fc.qual, 'crop twice', '%s: cropping the cropped map changes %s (shape %s -> %s)' % (label, k.lstrip('_'), before[k][0], after.get(k, ('?',))[0]), fc.loc())
                    continue
                run.ok('C12.crop', fc.qual, '%s: the result is the bounding box of the valid samples, the caches are cut to the same window, cropping again changes nothing' % label)
                n_ok += 1
    return n_ok


FH, FW = 4, 5
FIT_INVALID = ((0, 0), (2, 3))


def _fit_object(dom, ci, xoff, yoff, dx=1):
    o = Obj(ci)
    data = FArr.of((FH, FW), [dom.sym('d%d_%d' % (i, j)) for i in range(FH) for j in range(FW)])
    for (i, j) in FIT_INVALID:
        data.boxes[i * FW + j].v = NAN
    o.attrs.update({'data': data, 'dx': Const(dx), '_latcaled': Const(True), 'wavelength': dom.sym('WL'),
                    '_x': FArr.of((FH, FW), [Const(j + xoff) for i in range(FH) for j in range(FW)]),
                    '_y': FArr.of((FH, FW), [Const(i + yoff) for i in range(FH) for j in range(FW)]),
                    '_r': Const(None), '_t': Const(None)})
    return o


def _cells(dom, a, label):
    out = []
    for v in a.values():
        if is_nan(v):
            out.append(None)
            continue
        r = dom.rat(v)
        if r is None:
            raise AnalysisError('%s: a sample of the result is not followed: %r' % (label, v))
        out.append(r)
    return out


def removal_value_rules(run, db):
    """remove_piston / remove_tiptilt / remove_power on a 4x5 map of symbolic samples (two invalid) with numeric coordinates, the
    least-squares solves done exactly: the set of invalid samples is unchanged; piston removal leaves the valid samples summing to zero;
    the residual of tilt removal is orthogonal to x and y over the valid samples; removing tilt / power a second time changes nothing"""
    from ..core.norm import Rat
    ci = db.cls(IG)
    n_ok = 0
    for meth in ('remove_piston', 'remove_tiptilt', 'remove_power'):
        f = db.func(IG + '.' + meth)
        for (xoff, yoff, dx) in ((-2, -1, 1), (1, 3, 1), (-2, -1, 0)):
            it, dom = file_interp(db)
            label = '%s on a %dx%d map (x = column %+d, y = row %+d, dx = %d%s, invalid samples at %s)' % (
                meth, FH, FW, xoff, yoff, dx, ' after a calibration was applied' if dx == 0 else '', list(FIT_INVALID))
            res = it.run(f, self_obj=lambda: _fit_object(dom, ci, xoff, yoff, dx))
            if any(p.outcome != 'return' for p in res) or not res:
                raise AnalysisError('%s: not every path returns (%s)' % (label, [getattr(getattr(p.value, 'exc', p.value), 'v', p.value) for p in res if p.outcome != 'return'][:2]))
            for p in res:
                o = p.frame.env.get('self')
                a = o.attrs.get('data') if isinstance(o, Obj) else None
                if not isinstance(a, FArr) or tuple(a.shape) != (FH, FW):
                    raise AnalysisError('%s: the data after the step is not followed: %r' % (label, a))
                junk = [(k, v) for k, v in enumerate(a.values()) if isinstance(v, Junk)]
                if junk:
                    run.finding('C12.fit', f.qual, meth + ' on values', '%s: sample (%d, %d) becomes %s' % (label, junk[0][0] // FW, junk[0][0] % FW, junk[0][1].why), f.loc())
                    continue
                cells = _cells(dom, a, label)
                bad = []
                inval = {k for k, c in enumerate(cells) if c is None}
                want_inval = {i * FW + j for (i, j) in FIT_INVALID}
                if inval != want_inval:
                    bad.append('the set of invalid samples changes: %s become invalid, %s become numbers'
                               % (sorted(divmod(k, FW) for k in inval - want_inval), sorted(divmod(k, FW) for k in want_inval - inval)))
                valid = [k for k in range(FH * FW) if k not in inval and k not in want_inval]
                zero = Rat(dom.R.const(0))
                if meth == 'remove_piston':
                    tot = zero
                    for k in valid:
                        tot = tot + cells[k]
                    if not (tot == zero):
                        bad.append('the valid samples do not sum to zero afterwards (sum = %s)' % tot.key()[:120])
                if meth == 'remove_tiptilt':
                    for nm, off, pick in (('x', xoff, lambda k: k % FW), ('y', yoff, lambda k: k // FW)):
                        tot = zero
                        for k in valid:
                            tot = tot + cells[k] * (pick(k) + off)
                        if not (tot == zero):
                            bad.append('the residual is not orthogonal to %s over the valid samples: fitting the plane again finds %s = %s' % (nm, nm, tot.key()[:100]))
                if meth == 'remove_power':
                    # the documented basis: r^2 on the grid normalised to [-1, 1] along both axes; fitted together with a constant, so what
                    # must vanish is the component of the residual along (r^2 - mean r^2)
                    from fractions import Fraction
                    xn = [Fraction(-1) + Fraction(2 * j, FW - 1) for j in range(FW)]
                    yn = [Fraction(-1) + Fraction(2 * i, FH - 1) for i in range(FH)]
                    foc = {k: xn[k % FW] ** 2 + yn[k // FW] ** 2 for k in valid}
                    mean_f = sum(foc.values()) / len(foc)
                    tot = zero
                    for k in valid:
                        tot = tot + cells[k] * (foc[k] - mean_f)
                    if not (tot == zero):
                        bad.append('the residual still has a component along r^2 (x, y normalised to [-1, 1] over the %dx%d grid): fitting the sphere again finds %s' % (FH, FW, tot.key()[:100]))
                if meth in ('remove_tiptilt', 'remove_power') and not bad:
                    res2 = it.run(f, self_obj=lambda: o)
                    if any(q.outcome != 'return' for q in res2) or not res2:
                        raise AnalysisError('%s: the second application does not return' % label)
                    o2 = res2[0].frame.env.get('self')
                    cells2 = _cells(dom, o2.attrs['data'], label)
                    diff = [k for k in range(FH * FW) if (cells[k] is None) != (cells2[k] is None) or (cells[k] is not None and not (cells[k] == cells2[k]))]
                    if diff:
                        i, j = divmod(diff[0], FW)
                        bad.append('applying it a second time changes the data again (sample (%d, %d): %s -> %s)'
                                   % (i, j, cells[diff[0]].key()[:80] if cells[diff[0]] is not None else 'NaN', cells2[diff[0]].key()[:80] if cells2[diff[0]] is not None else 'NaN'))
                if bad:
                    run.finding('C12.fit', f.qual, meth + ' on values', '%s: %s' % (label, '; '.join(bad[:2])), f.loc())
                else:
                    run.ok('C12.fit', f.qual, '%s: invalid samples unchanged%s' % (label, {'remove_piston': ', valid samples sum to zero', 'remove_tiptilt': ', residual orthogonal to x and y, idempotent',
                                                                                    'remove_power': ', idempotent'}[meth]))
                    n_ok += 1
    return n_ok
