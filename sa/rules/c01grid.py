"""C01.shiftgrid: index vectors whose *length* must be an integer known in advance are not built by np.arange(start, stop) with
endpoints that depend on the real-valued shift.

np.arange(a, a + M) has ceil((a + M) - a) elements computed in floating point: for a fractional `a` the difference can come out as
M + 1e-16 and the vector gets M + 1 elements (numpy documents this pitfall).  In the chirp-Z bases such a vector is stored into a slot of
M samples, so a fractional shift raises ValueError for about a third of the (N, M, shift) combinations -- while the matrix route accepts
every real shift.  The rule is a taint analysis over prysm/fttools.py: sources are parameters named `shift*` (and the components of such
a parameter), taint flows through assignments, arithmetic and calls into module-level functions (argument -> parameter, to a fixpoint);
a sink is an np.arange / arange call with two or more positional arguments one of whose first two is tainted.  The accepted idiom is an
integer range shifted afterwards: np.arange(M) - start."""
import ast

from ..core.db import AnalysisError, walk_no_nested

MOD = 'prysm.fttools'


def _names(e):
    return {n.id for n in ast.walk(e) if isinstance(n, ast.Name)}


def _expr_tainted(e, t, fields):
    """does the expression read a tainted value?  An attribute read `rec.field` of a tainted local is tainted only when the field is known
    to carry the taint (the record was built here with that keyword) or is itself named after the shift: `axis.samples_in` of a record
    that has a `shift` field is a sample count, not a shift.  (A record whose shift-carrying field has another name is not followed: the
    rule then under-reports, it does not report what is not there.)"""
    skip = set()
    hit = False
    for n in ast.walk(e):
        if isinstance(n, ast.Attribute) and isinstance(n.value, ast.Name) and n.value.id in t:
            skip.add(id(n.value))
            if 'shift' in n.attr.lower() or n.attr in fields.get(n.value.id, ()) or '*' in fields.get(n.value.id, ()):
                hit = True
    for n in ast.walk(e):
        if isinstance(n, ast.Name) and n.id in t and id(n) not in skip:
            hit = True
    return hit


def _stored(tg):
    """the names a target writes: the base of a subscript / attribute (not the names in its index), every element of a tuple"""
    if isinstance(tg, (ast.Tuple, ast.List)):
        for e in tg.elts:
            yield from _stored(e)
    elif isinstance(tg, ast.Starred):
        yield from _stored(tg.value)
    elif isinstance(tg, (ast.Subscript, ast.Attribute)):
        yield from _stored(tg.value)
    elif isinstance(tg, ast.Name):
        yield tg


def shiftgrid_rules(run, db):
    mod = db.modules.get(MOD)
    if mod is None:
        raise AnalysisError('module %s not found' % MOD)
    funcs = dict(mod.functions)
    for ci in mod.classes.values():
        for nm, fi in ci.methods.items():
            funcs['%s.%s' % (ci.name, nm)] = fi
    tainted = {q: {p for p in fi.params if 'shift' in p.lower()} for q, fi in funcs.items()}
    byname = {}
    for q, fi in funcs.items():
        byname.setdefault(fi.name, []).append((q, fi))
    changed = True
    rounds = 0
    rec_fields = {}          # function -> {record local: tainted field names}
    while changed and rounds < 20:
        changed = False
        rounds += 1
        for q, fi in funcs.items():
            t = tainted[q]
            fields = rec_fields.setdefault(q, {})
            # assignments (in source order, to a local fixpoint)
            for _ in range(4):
                before = len(t)
                for st in walk_no_nested(fi.node):
                    val, targets = None, []
                    if isinstance(st, ast.Assign):
                        val, targets = st.value, st.targets
                    elif isinstance(st, ast.AugAssign):
                        val, targets = st.value, [st.target]
                    elif isinstance(st, ast.AnnAssign) and st.value is not None:
                        val, targets = st.value, [st.target]
                    elif isinstance(st, ast.For):
                        val, targets = st.iter, [st.target]
                    if val is None:
                        continue
                    # a tuple key unpacked component-wise keeps the taint of the components that carry a shift by name
                    # a record built with keyword arguments: remember which fields carry the taint
                    if isinstance(val, ast.Call) and val.keywords and not val.args and len(targets) == 1 and isinstance(targets[0], ast.Name) \
                            and isinstance(val.func, ast.Name) and val.func.id[:1].isupper() or (isinstance(val, ast.Call) and isinstance(val.func, ast.Name) and val.func.id.startswith('_') and val.func.id[1:2].isupper() and val.keywords and not val.args and len(targets) == 1 and isinstance(targets[0], ast.Name)):
                        fs_ = {k.arg for k in val.keywords if k.arg and _expr_tainted(k.value, t, fields)}
                        if fs_:
                            fields[targets[0].id] = fs_
                            t.add(targets[0].id)
                        continue
                    if _expr_tainted(val, t, fields):
                        for tg in targets:
                            for n in _stored(tg):
                                if isinstance(n, ast.Name):
                                    if isinstance(tg, (ast.Tuple, ast.List)) and isinstance(val, ast.Name) and 'shift' not in n.id.lower() and 'key' in val.id.lower():
                                        continue        # m, n, M, N ... = key: only the shift components of a cache key are shifts
                                    t.add(n.id)
                    for tg in targets:
                        for n in ast.walk(tg):
                            if isinstance(n, ast.Name) and 'shift' in n.id.lower():
                                t.add(n.id)
                if len(t) == before:
                    break
            # calls into functions of the module
            for c in [n for n in walk_no_nested(fi.node) if isinstance(n, ast.Call)]:
                callee = c.func.attr if isinstance(c.func, ast.Attribute) else (c.func.id if isinstance(c.func, ast.Name) else None)
                for q2, f2 in byname.get(callee, []):
                    params = [p for p in f2.params if p not in ('self', 'cls')]
                    for i, a in enumerate(c.args):
                        if i < len(params) and isinstance(a, ast.Name) and a.id in fields:
                            # a record handed on: its tainted fields stay what they are
                            cur = rec_fields.setdefault(q2, {}).setdefault(params[i], set())
                            if not fields[a.id] <= cur or params[i] not in tainted[q2]:
                                cur |= fields[a.id]
                                tainted[q2].add(params[i])
                                changed = True
                            continue
                        if i < len(params) and _expr_tainted(a, t, fields) and params[i] not in tainted[q2]:
                            tainted[q2].add(params[i])
                            changed = True
                    for kw in c.keywords:
                        if kw.arg in f2.params and _expr_tainted(kw.value, t, fields) and kw.arg not in tainted[q2]:
                            tainted[q2].add(kw.arg)
                            changed = True
    n_sites = 0
    for q, fi in sorted(funcs.items()):
        for c in [n for n in walk_no_nested(fi.node) if isinstance(n, ast.Call)]:
            fn = ast.unparse(c.func)
            if not (fn.endswith('arange') and len(c.args) >= 1):
                continue
            n_sites += 1
            ends = c.args[:2]
            bad = len(c.args) >= 2 and any(_expr_tainted(a, tainted[q], rec_fields.get(q, {})) for a in ends)
            run.check(not bad, 'C01.shiftgrid', fi.qual, ast.unparse(c)[:80],
                      '%s: the index vector `%s` has integer end points (its length does not depend on the shift)' % (fi.name, ast.unparse(c)[:60]),
                      '%s builds an index vector with `%s`, whose end points depend on the real-valued shift (%s): for a fractional shift the floating-point difference of the end points '
                      'can exceed the intended count by one ulp and the vector gets one element too many -- the chirp-Z route then raises where the matrix route returns the field. '
                      'Build the integer range first and shift it afterwards (np.arange(M) - start)' % (fi.name, ast.unparse(c)[:70], sorted(_names(ends[0]) | _names(ends[1] if len(ends) > 1 else ends[0]) & tainted[q])),
                      fi.loc(c))
    if n_sites < 2:
        raise AnalysisError('fewer than two np.arange sites found in %s' % MOD)
    return n_sites
