"""C02 -- propagators conserve energy and invert each other."""
import ast

from ..core.db import AnalysisError, norm_stmt, walk_no_nested
from ..core.interp import Interp, Const, Tup, Unknown, Obj
from ..core.norm import Rat
from ..domains.index import Shaped, IndexDomain
from ..domains.kernel import Mat, Prod2, exp_arg
from ..domains.origin import OriginDomain, Og, Real, half as ohalf
from ..domains.normdom import install_pi
from . import ftkernels as K
from . import c01, c03

P = 'prysm.propagation.'


class Proxy:
    def __init__(self, run, mapping):
        self.run, self.mapping = run, mapping

    def check(self, cond, rule, where, construct, ok_text, bad_text, loc='', trace=None):
        return self.run.check(cond, self.mapping.get(rule, rule), where, construct, ok_text, bad_text, loc, trace)

    def finding(self, rule, *a, **k):
        return self.run.finding(self.mapping.get(rule, rule), *a, **k)

    def ok(self, rule, *a, **k):
        return self.run.ok(self.mapping.get(rule, rule), *a, **k)

    def info(self, text):
        return self.run.info(text)

    def credit(self, rule, n, why):
        return self.run.credit(self.mapping.get(rule, rule), n, why)


class Sub:
    """Run another property's whole check inside this one: every rule name is mapped by `rename`, declarations and
    instance floors of the guest are dropped (the host states its own)."""

    def __init__(self, run, rename):
        self.run, self.rename = run, rename
        self.errors = run.errors
        self.prop = run.prop

    def check(self, cond, rule, where, construct, ok_text, bad_text, loc='', trace=None):
        return self.run.check(cond, self.rename(rule), where, construct, ok_text, bad_text, loc, trace)

    def finding(self, rule, *a, **k):
        return self.run.finding(self.rename(rule), *a, **k)

    def ok(self, rule, *a, **k):
        return self.run.ok(self.rename(rule), *a, **k)

    def group(self, fn, *a, **k):
        return self.run.group(fn, *a, **k)

    def rule(self, *a, **k):
        pass

    def trust(self, *a):
        pass

    def assume(self, *a):
        pass

    def require_instances(self, rule, minimum):
        pass

    def info(self, text):
        return self.run.info(text)

    def credit(self, rule, n, why):
        pass


def ctor_role_rules(run, db, rule='C02.freespace'):
    """Every Wavefront(...) built inside propagation.py gets its wavelength in the wavelength slot and its dx in the dx slot."""
    from .purity import argument_role_swaps
    swaps = [x for x in argument_role_swaps(db, ['prysm.propagation']) if ast.unparse(x[1].func) in ('Wavefront', 'cls')]
    ncalls = 0
    for fi in db.module('prysm.propagation').classes['Wavefront'].methods.values():
        ncalls += sum(1 for c in walk_no_nested(fi.node) if isinstance(c, ast.Call) and ast.unparse(c.func) == 'Wavefront')
    if ncalls < 5:
        raise AnalysisError('propagation: fewer than five Wavefront(...) constructions found')
    for fi, c, slot, a in swaps:
        run.finding(rule, fi.qual, 'Wavefront(...) %s slot' % slot, '`%s` passes `%s` as the %s of the new wavefront: the returned object reports dx and wavelength exchanged, so a second propagation step '
                    '(free_space(z).free_space(-z), z1 then z2) uses the wrong wavelength and sampling' % (ast.unparse(c), a, slot), fi.loc(c))
    if not swaps:
        run.ok(rule, 'prysm.propagation.Wavefront', '%d Wavefront(...) constructions pass wavelength and dx in their own slots' % ncalls)


def inverse_rules(run, db):
    """focus and unfocus are mutually inverse for every shape: in ORIGIN, for even and odd lengths, whatever typestate (origin index,
    phase ramp) focus gives a centred field, unfocus must turn back into a centred field without ramp -- and the other way round."""
    from .c02values import defer_to_unitarity
    try:
        _inverse_rules(run, db)
    except AnalysisError as e:
        if not defer_to_unitarity(run, db, 'C02.ortho (round trip typestate)', e):
            raise


def _inverse_rules(run, db):
    P_ = 'prysm.propagation.'

    def dom_for(parity):
        dom = OriginDomain(parity)

        def call_prysm(fi, args, kwargs, node, dom=dom):
            if fi.qual in ('prysm.fttools.pad2d', 'prysm.fttools.crop_center'):
                a = args[0] if args else kwargs.get('array', kwargs.get('img'))
                if isinstance(a, Og):
                    if a.o == ohalf(dom.p):
                        return a          # zero padding about n//2 keeps a centred array centred (C04)
                    return Unknown('pad of a non-centred array')
            return None
        dom.call_prysm = call_prysm
        return dom
    for first, second in (('focus', 'unfocus'), ('unfocus', 'focus')):
        f1, f2 = db.func(P_ + first), db.func(P_ + second)
        for parity in (0, 1):
            par = 'odd' if parity else 'even'
            dom = dom_for(parity)
            it = Interp(db, dom)
            mids = [p.value for p in it.run(f1, kwargs=lambda: {'wavefunction': dom.centred(), 'Q': Real()}) if p.outcome == 'return']
            if not mids or not all(isinstance(v, Og) for v in mids):
                raise AnalysisError('%s: result has no origin typestate [%s]' % (f1.qual, par))
            seen = set()
            for mid in mids:
                if (mid.o, mid.r) in seen:
                    continue
                seen.add((mid.o, mid.r))
                outs = [p.value for p in it.run(f2, kwargs=lambda: {'wavefunction': Og(mid.o, mid.r, mid.kind), 'Q': Real()}) if p.outcome == 'return']
                if not outs:
                    raise AnalysisError('%s: no returning path [%s]' % (f2.qual, par))
                for v in outs:
                    if not isinstance(v, Og):
                        # the second leg could not follow what the first produced (e.g. padding an array that is not centred)
                        ok, got = False, 'something that is no longer an array with its origin at one index (%r)' % (v,)
                    else:
                        ok, got = (v.o == ohalf(parity) and v.r.is_zero()), 'origin %r, phase ramp %r' % (v.o, v.r)
                    run.check(ok, 'C02.ortho', f2.qual, '%s after %s [%s]' % (second, first, par), '%s(%s(f)) has the origin of f and no phase ramp, %s lengths' % (second, first, par),
                              '%s(%s(f)) of a centred f gives %s for %s lengths (expected origin n//2 = %r, no ramp): the two are not inverse, the round trip returns a shifted / phase-ramped copy'
                              % (second, first, got, par, ohalf(parity)), f2.loc())


def ortho_rules(run, db):
    from .c02values import defer_to_unitarity
    seen = {}
    for name, direction in (('focus', 'fft2'), ('unfocus', 'ifft2')):
        try:
            _ortho_rules_for(run, db, name, direction, seen)
        except AnalysisError as e:
            if not defer_to_unitarity(run, db, 'C02.ortho (%s)' % name, e, [('C02.ortho', 1), ('C02.pad', 1)]):
                raise
            seen[name] = True
    _ortho_rules_pad(run, db, seen)


def _ortho_rules_for(run, db, name, direction, seen):
    if True:
        f = db.func(P + name)
        dom = OriginDomain(0)

        def call_prysm(fi, args, kwargs, node, dom=dom):
            if fi.qual == 'prysm.fttools.pad2d':
                dom.interp.emit('pad2d', args=args, kwargs=kwargs, node=node)
                return args[0] if args else kwargs.get('array')
            return None
        dom.call_prysm = call_prysm
        it = Interp(db, dom)
        res = [p for p in it.run(f, kwargs=lambda: {'wavefunction': dom.centred(), 'Q': Real()}) if p.outcome == 'return']
        if not res:
            raise AnalysisError('%s: no returning path' % f.qual)
        for p in res:
            ffts = [e for e in p.events if e['kind'] == 'fft']
            if len(ffts) != 1:
                raise AnalysisError('%s: expected exactly one FFT on path %s' % (f.qual, p.conds))
            e = ffts[0]
            nv = e['norm']
            run.check(isinstance(nv, Const) and nv.v == 'ortho' and e['which'] == direction and e['s'] is None, 'C02.ortho', f.qual, 'fft normalisation',
                      "%s uses %s(norm='ortho') without a size argument" % (name, direction),
                      "%s calls %s with norm=%r, s=%r: the transform is not unitary / not the inverse of its sibling" % (name, e['which'], nv, e['s']), f.loc(e['node']))
            pads = [x for x in p.events if x['kind'] == 'pad2d']
            for x in pads:
                kw = x['kwargs']
                extra = {k: v for k, v in kw.items() if k not in ('Q', 'array')}
                nargs = len(x['args'])
                run.check(not extra and nargs <= 2, 'C02.pad', f.qual, 'pad2d call', '%s pads with zeros (default value/mode)' % name,
                          '%s calls pad2d with %s: padding is no longer zero padding' % (name, sorted(extra) or '%d positional args' % nargs), f.loc(x['node']))
            taken = [c for c in p.conds]
            if pads:
                seen[name] = True


def _ortho_rules_pad(run, db, seen):
    for name in ('focus', 'unfocus'):
        if not seen.get(name):
            raise AnalysisError('%s: no padded path found' % name)
    # pad2d constant path: the input is written exactly once into a zero array, nothing is added
    f = db.func('prysm.fttools.pad2d')
    dom = IndexDomain({})
    it = install_pi(Interp(db, dom))
    res = [p for p in it.run(f, kwargs=lambda: {'array': dom.array('array', 'n0', 'n1'), 'Q': dom.sym('Q'), 'value': Const(0), 'mode': Const('constant'), 'out_shape': Const(None)})
           if p.outcome == 'return']
    n = 0
    for p in res:
        if isinstance(p.value, Shaped) and p.value.label == 'array' and not [e for e in p.events if e['kind'] in ('store', 'inplace')]:
            # the identity path (Q == 1, no shape asked for), however the test is nested
            run.check(isinstance(p.value, Shaped) and p.value.label == 'array', 'C02.pad', f.qual, 'Q == 1', 'Q=1 returns the input', 'Q=1 path returns %r' % (p.value,), f.loc())
            continue
        n += 1
        st = [e for e in p.events if e['kind'] == 'store']
        inpl = [e for e in p.events if e['kind'] == 'inplace']
        ok = len(st) == 1 and isinstance(st[0]['target'], Shaped) and st[0]['target'].label == 'numpy.zeros' and isinstance(st[0]['value'], Shaped) \
            and st[0]['value'].label == 'array' and not inpl and isinstance(p.value, Shaped) and p.value is st[0]['target']
        run.check(ok, 'C02.pad', f.qual, 'zero padding', 'output = zeros; output[window] = input; nothing else written',
                  'constant-mode padding with value 0 is not "zeros + one copy of the input" (stores: %d, in-place ops: %d)' % (len(st), len(inpl)), f.loc())
    if n == 0:
        raise AnalysisError('pad2d: padded constant path not reached')


def freespace_rules(run, db):
    dom = c03.freespace_obligations(run, db, 'C02.freespace')
    # linear-homogeneous in z: identity at z=0, inverse at -z, additive in z
    it, dom = K.mk(db, {})
    from ..domains.kernel import Vec

    def fftfreq_hook(dotted, args, kwargs, node, orig=dom.call_ext):
        if dotted.endswith('fft.fftfreq') and args:
            n = args[0]
            return Vec(dom.func_atom('fftfreq', [n, args[1] if len(args) > 1 else Const(1)]), n, dom.idx_atom(n))
        return orig(dotted, args, kwargs, node)
    dom.call_ext = fftfreq_hook
    f = db.func(P + 'angular_spectrum_transfer_function')
    res = [p for p in it.run(f, kwargs=lambda: {'samples': Tup([dom.length('n0'), dom.length('n1')]), 'wvl': dom.sym('wvl'), 'dx': dom.sym('dx'), 'z': dom.sym('z')}) if p.outcome == 'return']
    for p in res:
        ea = exp_arg(dom, p.value.elem) if isinstance(p.value, Mat) else None
        if ea is None:
            if getattr(db, '_freespace_values', None):
                # every sample was shown to be exp(-i pi lambda z (ky^2 + kx^2) / 1000) on values: purely imaginary phase, linear-homogeneous in z
                run.info('angular_spectrum_transfer_function is not read as outer(tfy, tfx); its phase (linear-homogeneous in z, purely imaginary) was decided on values')
                continue
            raise AnalysisError('transfer function not analysable')
        arg, fac = ea
        z = Rat(dom.R.atom('z'))
        lin = (arg / z)
        ok = 'z' not in lin.atoms() and K.is_real(dom, arg * (-Rat(dom.R.I))) and fac == 1
        run.check(ok, 'C02.freespace', f.qual, 'homogeneous in z', 'phase = i * real * z (no constant term): unit modulus, identity at 0, inverse at -z, additive',
                  'transfer function phase %s is not purely imaginary and linear-homogeneous in z' % arg.key(), f.loc())
    # angular_spectrum: ifft2(fft2(field) * tf) on both paths, same normalisation, no shifts
    f = db.func(P + 'angular_spectrum')
    for given in (True, False):
        it, dom = K.mk(db, {})
        dom.call_ext = (lambda dotted, args, kwargs, node, orig=dom.call_ext, dom=dom:
                        Vec(dom.func_atom('fftfreq', [args[0], args[1] if len(args) > 1 else Const(1)]), args[0], dom.idx_atom(args[0]))
                        if dotted.endswith('fft.fftfreq') and args else orig(dotted, args, kwargs, node))

        def kw():
            k = {'field': dom.array('field', 'n0', 'n1'), 'wvl': dom.sym('wvl'), 'dx': dom.sym('dx'), 'z': dom.sym('z'), 'Q': Const(1)}
            k['tf'] = dom.array('tf', 'n0', 'n1') if given else Const(None)
            return k
        res = [p for p in it.run(f, kwargs=kw) if p.outcome == 'return']
        if not res:
            raise AnalysisError('angular_spectrum: no returning path')
        for p in res:
            v = p.value
            ok = isinstance(v, Shaped) and v.origin is not None and v.origin[0] == 'ifft2'
            if ok:
                prod = v.origin[1]
                ok = isinstance(prod, Shaped) and prod.origin is not None and prod.origin[0] == 'Mult'
                if ok:
                    a, b = prod.origin[1], prod.origin[2]
                    F = a if (isinstance(a, Shaped) and a.origin is not None and a.origin[0] == 'fft2') else b
                    T = b if F is a else a
                    ok = isinstance(F, Shaped) and F.origin is not None and F.origin[0] == 'fft2' and isinstance(F.origin[1], Shaped) and F.origin[1].label == 'field'
                    if ok and not given and not isinstance(T, Mat):
                        # the transfer function it computes is not read as an outer product here; what it is was decided on values
                        if not getattr(db, '_freespace_values', None):
                            raise AnalysisError('angular_spectrum: the transfer function it computes is not followed (%r)' % (T,))
                    elif ok:
                        ok = (given and isinstance(T, Shaped) and T.label == 'tf') or (not given and isinstance(T, Mat))
            ffts = [e for e in p.events if e['kind'] == 'fft2']
            norms = {repr(e['norm']) for e in ffts}
            ok = ok and len(ffts) == 2 and len(norms) == 1 and all(e['s'] is None for e in ffts)
            if not ok and not given and getattr(db, '_freespace_values', None) and isinstance(v, Shaped) and v.origin is not None and v.origin[0] == 'ifft2' \
                    and len(ffts) == 2 and len(norms) == 1 and all(e['s'] is None for e in ffts) and not isinstance(getattr(v.origin[1], 'origin', None), tuple):
                # the product under the inverse transform is not followed because the transfer function computed here is not read as an outer
                # product: the transforms and their normalisations are as they should be, the transfer function was decided on values
                run.info('angular_spectrum (tf computed): the spectrum times the transfer function is not read; transforms and normalisations match, the transfer function was decided on values')
                continue
            run.check(ok, 'C02.freespace', f.qual, 'structure tf=%s' % ('given' if given else 'computed'), 'angular_spectrum == ifft2(fft2(field) * tf), matching normalisation',
                      'angular_spectrum is not ifft2(fft2(field) * tf) with matching normalisations on the path tf %s: %r' % ('given' if given else 'computed', v), f.loc())
    # Wavefront.free_space delegates with its own dx and wavelength
    # decided by interpreting the method with angular_spectrum summarised: the values bound to its parameters, however they are passed
    from .common import bind_call
    f = db.func(P + 'Wavefront.free_space')
    fa = db.func(P + 'angular_spectrum')
    it, dom = K.mk(db, {})
    seen_calls = []

    def call_prysm(fi, args, kwargs, node, orig=dom.call_prysm):
        if fi.qual == fa.qual:
            seen_calls.append((bind_call(fi, args, kwargs), node))
            return dom.array('propagated', 'n0', 'n1')
        return orig(fi, args, kwargs, node) if orig else None
    dom.call_prysm = call_prysm
    ciw = db.cls(P + 'Wavefront')

    def mkself():
        o = Obj(ciw)
        o.attrs.update({'data': dom.array('ary', 'n0', 'n1'), 'dx': dom.sym('DX'), 'wavelength': dom.sym('WL'), 'space': Const('pupil')})
        return o
    res = [p for p in it.run(f, kwargs=lambda: {'dz': dom.sym('dz'), 'Q': dom.sym('Qpad'), 'tf': dom.array('tf', 'n0', 'n1')}, self_obj=mkself) if p.outcome == 'return']
    if not res or not seen_calls:
        raise AnalysisError('Wavefront.free_space: no returning path reaches angular_spectrum')
    for b, node in seen_calls:
        rk = lambda v: dom.rat(v).key() if dom.rat(v) is not None else None
        ok = isinstance(b.get('field'), Shaped) and b['field'].label == 'ary' and rk(b.get('wvl')) == 'WL' and rk(b.get('dx')) == 'DX' and rk(b.get('z')) == 'dz' \
            and rk(b.get('Q')) == 'Qpad' and isinstance(b.get('tf'), Shaped) and b['tf'].label == 'tf'
        run.check(ok, 'C02.freespace', f.qual, 'delegation', 'free_space passes (data, wavelength, dx, dz, Q, tf) in their roles',
                  'free_space calls angular_spectrum with %s' % {k: (getattr(v, 'label', None) or rk(v) or repr(v)) for k, v in sorted(b.items())}, f.loc(node))
    for p in res:
        w = p.value
        okw = isinstance(w, Obj) and isinstance(w.attrs.get('data'), Shaped) and w.attrs['data'].label == 'propagated' and dom.rat(w.attrs.get('dx')) is not None \
            and dom.rat(w.attrs['dx']).key() == 'DX' and dom.rat(w.attrs.get('wavelength')) is not None and dom.rat(w.attrs['wavelength']).key() == 'WL'
        run.check(okw, 'C02.freespace', f.qual, 'result', 'the propagated field is returned with the same dx and wavelength', 'free_space does not return Wavefront(propagated, wavelength, dx)', f.loc())


def check(run, db, tier):
    run.trust('ORIGIN/INDEX/KERNEL engines; numpy/scipy FFT semantics: norm="ortho" makes fft2/ifft2 unitary and mutually inverse',
              'a kernel with |elements| = sqrt(1/(N Q)) per axis and conjugate phases forward/inverse is unitary on the band-complete grid M = N Q (DFT orthogonality)')
    run.assume('float round-off and the aliasing of the padded route are not decided')
    run.rule('C02.ortho', "focus uses fft2(norm='ortho'), unfocus ifft2(norm='ortho'), with no size argument")
    run.rule('C02.pad', 'both FFT propagators zero-pad through pad2d defaults; pad2d(constant, 0) is zeros plus one copy of the input')
    run.rule('C02.kernel', 'matrix-DFT forward and inverse kernels are complex conjugates with the textbook frequency (so the band-complete pair is the identity)')
    run.rule('C02.norm', 'matrix-DFT / chirp-Z normalisation is sqrt(1/(N Q)) per axis; the chirp-Z factors, per-axis FFT work lengths and crops are those of the same unitary kernel (shared with C01.chirp/.axis)')
    run.rule('C02.freespace', 'free-space transfer function: unit modulus, phase linear-homogeneous in z, -i pi lambda z k^2; angular_spectrum == ifft2(fft2(field)*tf)')
    run.group(ortho_rules, run, db)
    run.group(inverse_rules, run, db)
    proxy = Proxy(run, {'C01.kernel': 'C02.kernel', 'C01.norm': 'C02.norm', 'C01.chirp': 'C02.norm', 'C01.axis': 'C02.norm'})
    run.group(c01.mdft_rules, proxy, db)
    run.group(c01.czt_rules, proxy, db)
    run.group(c01.cache_rules, Proxy(run, {'C01.cache': 'C02.norm'}), db)
    run.group(freespace_rules, run, db)
    run.forgive('freespace_value_rules', ['freespace_rules'])
    # inverses and energy on values; the inverse chirp-Z route against the inverse matrix route (shared with C01.route)
    from .c02values import unitarity_value_rules
    from .c01values import route_value_rules
    run.group(unitarity_value_rules, run, db, 'C02.ortho')
    run.group(route_value_rules, Proxy(run, {'C01.route': 'C02.kernel'}), db)
    run.forgive('unitarity_value_rules', ['ortho_rules', 'inverse_rules'])
    run.forgive('route_value_rules', ['czt_rules', 'inverse_rules'])
    # the executors being inverse pairs is of no use if a wrapper hands the image-to-pupil leg to the forward transform: which engine
    # routine each fixed-sampling propagator reaches, per method string (shared with C01.dispatch)
    run.group(c01.dispatch_rules, Proxy(run, {'C01.dispatch': 'C02.kernel'}), db)
    run.group(ctor_role_rules, run, db)
    run.require_instances('C02.ortho', 2)
    run.require_instances('C02.pad', 3)
    run.require_instances('C02.kernel', 60)
    run.require_instances('C02.norm', 8)
    run.require_instances('C02.freespace', 6)
