"""C12 -- interferogram data, mask and coordinates stay coherent over any history."""
import ast

from ..core.db import AnalysisError, norm_stmt, walk_no_nested
from ..core.interp import Interp, Const, Tup, Unknown, Obj, Slice
from ..core.norm import Rat
from ..domains.cachestate import CacheStateDomain, DataV, CoordV, PolarV, ShapeOf
from ..domains.normdom import install_pi, Sym, Arr
from .common import norm_interp, returns, as_rat

I = 'prysm.interferogram.Interferogram'
R_ = 'prysm._richdata.RichData'

ENTRY_STATES = [('no cache', False, False), ('x,y cached', True, False), ('x,y,r,t cached', True, True)]


def mutators(db):
    """Public methods of Interferogram/RichData that assign or mutate self.* (discovered from the source)."""
    # a method writes the object if it assigns / updates in place something reached through self, or calls a method of the object
    # (public or private helper) that does: least fixpoint over the methods of the class chain
    methods = {}
    for ci in db.class_chain(db.cls(I)):
        for name, fi in ci.methods.items():
            if name.endswith('.setter') or name in methods:
                continue
            methods[name] = fi
    direct, calls = set(), {}
    for name, fi in methods.items():
        calls[name] = set()
        # locals that are plain aliases of something reached through self (data = self.data): storing into / updating them in place
        # writes the object
        alias = {n.targets[0].id for n in walk_no_nested(fi.node) if isinstance(n, ast.Assign) and len(n.targets) == 1 and isinstance(n.targets[0], ast.Name)
                 and isinstance(n.value, ast.Attribute) and isinstance(n.value.value, ast.Name) and n.value.value.id == 'self'}
        # ... and loop variables that run over such things (for grid in (self.x, self.y): grid -= ...)
        for n in walk_no_nested(fi.node):
            if isinstance(n, ast.For) and isinstance(n.target, ast.Name) and isinstance(n.iter, (ast.Tuple, ast.List)) \
                    and any(isinstance(e, ast.Attribute) and isinstance(e.value, ast.Name) and e.value.id == 'self' for e in n.iter.elts):
                alias.add(n.target.id)
        for n in walk_no_nested(fi.node):
            if isinstance(n, (ast.Assign, ast.AugAssign)):
                tgts = n.targets if isinstance(n, ast.Assign) else [n.target]
                for t in tgts:
                    for x in ast.walk(t):
                        if isinstance(x, ast.Attribute) and isinstance(x.value, ast.Name) and x.value.id == 'self':
                            direct.add(name)
                    if isinstance(t, ast.Subscript) and isinstance(t.value, ast.Name) and t.value.id in alias:
                        direct.add(name)
                    if isinstance(n, ast.AugAssign) and isinstance(t, ast.Name) and t.id in alias:
                        direct.add(name)
            if isinstance(n, ast.Call) and ast.unparse(n.func).rsplit('.', 1)[-1] in ('putmask', 'place', 'copyto', 'put') and n.args:
                a0 = n.args[0]
                if (isinstance(a0, ast.Name) and a0.id in alias) or (isinstance(a0, ast.Attribute) and isinstance(a0.value, ast.Name) and a0.value.id == 'self'):
                    direct.add(name)
            if isinstance(n, ast.Call) and any(isinstance(k.value, ast.Name) and k.value.id in alias or (isinstance(k.value, ast.Attribute) and isinstance(k.value.value, ast.Name) and k.value.value.id == 'self')
                                               for k in n.keywords if k.arg == 'out'):
                direct.add(name)
            if isinstance(n, ast.Call) and isinstance(n.func, ast.Attribute) and isinstance(n.func.value, ast.Name) and n.func.value.id == 'self' and n.func.attr in methods:
                calls[name].add(n.func.attr)
            if isinstance(n, ast.Call) and isinstance(n.func, ast.Name) and n.func.id == 'setattr' and n.args and isinstance(n.args[0], ast.Name) and n.args[0].id == 'self':
                direct.add(name)
    writers = set(direct)
    changed = True
    while changed:
        changed = False
        for name in methods:
            if name not in writers and calls[name] & writers:
                writers.add(name)
                changed = True
    out = []
    for name, fi in methods.items():
        if name.startswith('_') or 'property' in fi.decorators or 'staticmethod' in fi.decorators or 'classmethod' in fi.decorators:
            continue
        if name in writers:
            out.append(fi)
    return out


def coherent(dom, o):
    """List of (attr, reason) violations of the coherence invariant on object o."""
    bad = []
    data = o.attrs.get('data')
    if not isinstance(data, DataV):
        raise AnalysisError('data attribute lost its abstract value: %r' % (data,))
    dx = dom.rat(o.attrs.get('dx'))
    if dx is None:
        raise AnalysisError('dx is not a NORM scalar: %r' % (o.attrs.get('dx'),))
    x, y = o.attrs.get('_x'), o.attrs.get('_y')
    for nm, v, kind in (('_x', x, 'x'), ('_y', y, 'y')):
        if isinstance(v, Const) and v.v is None:
            continue
        if not isinstance(v, CoordV):
            raise AnalysisError('cache %s holds %r' % (nm, v))
        if v.kind != kind:
            bad.append((nm, 'holds the %s coordinate' % v.kind))
        if v.sv != data.sv:
            bad.append((nm, 'has the shape of an earlier data array (not re-sliced / regenerated with the data)'))
        if not (v.scale == dx):
            bad.append((nm, 'is spaced by %s while dx is %s' % (v.scale.key(), dx.key())))
    if isinstance(x, CoordV) and isinstance(y, CoordV) and x.ov != y.ov:
        bad.append(('_y', 'x and y refer to different origins'))
    if (isinstance(x, CoordV)) != (isinstance(y, CoordV)):
        bad.append(('_x', 'only one of x, y is cached'))
    for nm, v, kind in (('_r', o.attrs.get('_r'), 'r'), ('_t', o.attrs.get('_t'), 't')):
        if isinstance(v, Const) and v.v is None:
            continue
        if not isinstance(v, PolarV):
            raise AnalysisError('cache %s holds %r' % (nm, v))
        if v.kind != kind:
            bad.append((nm, 'holds the %s coordinate' % v.kind))
        if v.sv != data.sv:
            bad.append((nm, 'has the shape of an earlier data array'))
        if kind == 'r' and not (v.scale == dx):
            bad.append((nm, 'is in units of %s while dx is %s' % (v.scale.key(), dx.key())))
        if isinstance(x, CoordV) and v.ov != x.ov:
            bad.append((nm, 'was computed from earlier Cartesian coordinates (not reset after x, y changed)'))
        if not isinstance(x, CoordV):
            bad.append((nm, 'is cached although x, y are not'))
    return bad


def cache_rules(run, db):
    ci = db.cls(I)
    muts = mutators(db)
    names = sorted(f.name for f in muts)
    required = {'crop', 'pad', 'mask', 'fill', 'spike_clip', 'remove_piston', 'remove_tiptilt', 'remove_power', 'recenter', 'latcal', 'strip_latcal', 'filter'}
    missing = required - set(names)
    if missing:
        raise AnalysisError('expected mutators not found: %s' % sorted(missing))
    run.info('mutators analysed: %s' % names)
    for fi in muts:
        for label, hasxy, hasrt in ENTRY_STATES:
            dom = CacheStateDomain()
            it = install_pi(Interp(db, dom))

            def mkself():
                o = Obj(ci)
                sv = dom.new_version()
                dx0 = dom.R.atom('dx0')
                ov = dom.new_version()
                o.attrs.update({'data': DataV(sv), 'dx': Sym(dx0), 'wavelength': dom.sym('wavelength'), 'intensity': Unknown('intensity'), 'meta': Unknown('meta'),
                                '_latcaled': Const(True), 'interpf_x': Const(None), 'interpf_y': Const(None), 'interpf_2d': Const(None),
                                '_x': CoordV('x', sv, Rat(dx0), ov) if hasxy else Const(None), '_y': CoordV('y', sv, Rat(dx0), ov) if hasxy else Const(None),
                                '_r': PolarV('r', sv, Rat(dx0), ov) if hasrt else Const(None), '_t': PolarV('t', sv, Rat(dx0), ov) if hasrt else Const(None)})
                return o
            holder = {}

            def so():
                holder['o'] = mkself()
                return holder['o']

            def kw():
                k = {}
                a = fi.node.args
                defaults = dict(zip([x.arg for x in a.args][len(a.args) - len(a.defaults):], a.defaults))
                for p in fi.params[1:]:
                    if p not in defaults:
                        k[p] = dom.sym(p)
                if fi.name == 'pad':
                    k['samples'] = dom.sym('samples')
                return k
            res = it.run(fi, kwargs=kw, self_obj=so)
            # the object of the *last* run is in holder; re-run per path to get each final object
            paths = len(res)
            seen = set()
            prefix_runs = res
            for p in res:
                if p.outcome != 'return':
                    continue
                o = p.frame.env.get('self') if p.frame is not None else None
                if not isinstance(o, Obj):
                    raise AnalysisError('%s: self lost' % fi.qual)
                for attr, why in coherent(dom, o):
                    key = (attr, why)
                    if key in seen:
                        continue
                    seen.add(key)
                    run.finding('C12.cache', fi.qual, '%s after %s' % (attr, fi.name),
                                'after %s (entered with %s), the cache %s %s' % (fi.name, label, attr, why), fi.loc(),
                                trace=['path: %s' % (p.conds,)])
            if not seen:
                run.ok('C12.cache', fi.qual, '%s preserves coherence from entry state "%s" on %d paths' % (fi.name, label, paths))
    # the lazy getters themselves: reading x/y/r/t in any coherent state yields a coherent state
    for prop in ('x', 'y', 'r', 't'):
        fi = db.func(R_ + '.' + prop)
        for label, hasxy, hasrt in ENTRY_STATES:
            dom = CacheStateDomain()
            it = install_pi(Interp(db, dom))

            def so():
                o = Obj(ci)
                sv = dom.new_version()
                dx0 = dom.R.atom('dx0')
                ov = dom.new_version()
                o.attrs.update({'data': DataV(sv), 'dx': Sym(dx0),
                                '_x': CoordV('x', sv, Rat(dx0), ov) if hasxy else Const(None), '_y': CoordV('y', sv, Rat(dx0), ov) if hasxy else Const(None),
                                '_r': PolarV('r', sv, Rat(dx0), ov) if hasrt else Const(None), '_t': PolarV('t', sv, Rat(dx0), ov) if hasrt else Const(None)})
                return o
            for p in it.run(fi, self_obj=so):
                if p.outcome != 'return':
                    continue
                o = p.frame.env.get('self')
                bad = coherent(dom, o)
                v = p.value
                okv = isinstance(v, (CoordV, PolarV)) and v.kind == prop
                run.check(not bad and okv, 'C12.cache', fi.qual, 'getter ' + prop, 'reading .%s from "%s" returns the %s coordinate and leaves a coherent state' % (prop, label, prop),
                          'reading .%s from "%s": %s' % (prop, label, bad or 'returns %r' % (v,)), fi.loc())


def stats_rules(run, db):
    it, dom = norm_interp(db)
    R = dom.R
    n = 3
    orig_sub = dom.subscript
    orig_method = dom.method
    orig_ext = dom.call_ext
    orig_unary = dom.unary

    class Finite(Arr):
        pass

    def subscript(v, idx, node):
        if isinstance(v, Arr) and isinstance(idx, Arr) and getattr(idx, 'is_mask', False):
            f = Finite(v.shape, v.data)
            return f
        return orig_sub(v, idx, node)

    def call_ext(dotted, args, kwargs, node):
        if dotted == 'numpy.isfinite' and args and isinstance(args[0], Arr):
            m = Arr(args[0].shape, [Const(True)] * len(args[0].data))
            m.is_mask = True
            m.of = args[0]
            return m
        if dotted in ('builtins.abs', 'numpy.abs') and args and isinstance(args[0], Arr):
            out = Finite(args[0].shape, [dom.func_atom('abs', [x]) for x in args[0].data]) if isinstance(args[0], Finite) else Arr(args[0].shape, [dom.func_atom('abs', [x]) for x in args[0].data])
            return out
        if dotted == 'numpy.sqrt' and args and dom.rat(args[0]) is not None:
            return orig_ext(dotted, args, kwargs, node)
        return orig_ext(dotted, args, kwargs, node)

    reductions = []

    def all_finite_path():
        # on a path taken because `<mask>.all()` / `np.all(<mask>)` answered True every sample is finite: a reduction over the whole
        # array is the reduction over the finite samples there (a fast path for data without invalid samples)
        return any(t is True and ('.all()' in c or 'np.all(' in c) and 'not ' not in c for c, t in it.conds)

    state = {}

    def method(v, name, args, kwargs, node):
        if isinstance(v, Arr) and getattr(v, 'is_mask', False) and name in ('all', 'any') and not args and not kwargs:
            return Unknown('whether %s sample is finite' % ('every' if name == 'all' else 'any'))        # both answers are explored
        if isinstance(v, Arr) and name in ('mean', 'max', 'min', 'sum', 'std'):
            reductions.append((name, isinstance(v, Finite) or all_finite_path(), node))
            if name == 'sum':
                return orig_ext('numpy.sum', [Arr(v.shape, v.data)], {}, node)
            if name == 'mean' and state.get('opaque_mean') and [dom.key(c) for c in v.data] == ['a%d' % i for i in range(len(v.data))]:
                return dom.sym('MEAN')          # the mean as a number of its own: a form that relies on sum == n * mean is not the same form
            if name == 'mean':
                s = orig_ext('numpy.sum', [Arr(v.shape, v.data)], {}, node)
                return it.binop(ast.Div(), s, Const(len(v.data)), node)
            if name == 'std':
                # the definition, so that `x.std()` and a spelled-out root-mean-square deviation are the same value
                s = orig_ext('numpy.sum', [Arr(v.shape, v.data)], {}, node)
                m_ = dom.rat(it.binop(ast.Div(), s, Const(len(v.data)), node)) if not state.get('opaque_mean') else Rat(R.atom('MEAN'))
                cells = [dom.rat(x) for x in v.data]
                if m_ is not None and all(c is not None for c in cells):
                    acc = Rat(R.const(0))
                    for c in cells:
                        acc = acc + (c - m_) * (c - m_)
                    return dom.lift(Rat(R.sqrt(acc / len(cells))))
            return dom.func_atom(name, list(v.data))
        return orig_method(v, name, args, kwargs, node)

    def getattr_(v, name, node, orig=dom.getattr):
        if isinstance(v, Arr) and name == 'size':
            reductions.append(('size', isinstance(v, Finite) or all_finite_path(), node))
            return Const(len(v.data))
        return orig(v, name, node)
    dom.subscript, dom.call_ext, dom.method, dom.getattr = subscript, call_ext, method, getattr_
    orig_emap = dom._emap

    def emap(f, *arrs):
        r = orig_emap(f, *arrs)
        if isinstance(r, Arr) and any(isinstance(a, Finite) for a in arrs):
            return Finite(r.shape, r.data)
        return r
    dom._emap = emap
    xs = [Rat(R.atom('a%d' % i)) for i in range(n)]
    mean = (xs[0] + xs[1] + xs[2]) / 3
    refs = {
        'mean': mean,
        'pv': Rat(R.func('max', xs)) - Rat(R.func('min', xs)),
        'rms': Rat(R.sqrt((xs[0] * xs[0] + xs[1] * xs[1] + xs[2] * xs[2]) / 3)),
        'Sa': sum((Rat(R.func('abs', [x - mean])) for x in xs), Rat(R.const(0))) / 3,
        'std': Rat(R.sqrt(((xs[0] - mean) * (xs[0] - mean) + (xs[1] - mean) * (xs[1] - mean) + (xs[2] - mean) * (xs[2] - mean)) / 3)),
    }

    def same_for_real_samples(got, want):
        # |e| is e or -e for real samples: a value in which every |e| may be replaced by either and equals `want` both ways is `want`
        if got == want:
            return True
        seen_, todo_ = set(), [got]
        while todo_:
            x_ = todo_.pop()
            x_ = x_ if isinstance(x_, Rat) else Rat(x_)
            for a in x_.atoms():
                if a not in seen_:
                    seen_.add(a)
                    todo_.extend(R.info.get(a, ('', []))[1] if R.info.get(a) else [])
        abs_atoms = [a for a in seen_ if R.info.get(a, ('',))[0] == 'abs']
        if not abs_atoms or len(abs_atoms) > 4:
            return False
        import itertools
        for signs in itertools.product((1, -1), repeat=len(abs_atoms)):
            sub = {}
            for a, sg in zip(abs_atoms, signs):
                e = R.info[a][1][0]
                e = e if isinstance(e, Rat) else Rat(e)
                sub[a] = e * sg
            try:
                if not (got.subs(sub) == want):
                    return False
            except Exception:
                return False
        return True
    for name, want in refs.items():
        fi = db.func('prysm.util.' + name)
        del reductions[:]
        res = returns(it.run(fi, kwargs=lambda: {'array': Arr((n,), [dom.sym('a%d' % i) for i in range(n)])}), fi)
        for p_ in res:
            got = dom.rat(p_.value)
            run.check(got is not None and (got == want or (name in ('std', 'rms') and same_for_real_samples(got, want))), 'C12.stats', fi.qual, 'formula', '%s equals its definition on the finite samples (generic 3-sample array)' % name,
                      '%s = %s, expected %s' % (name, got.key() if got is not None else p_.value, want.key()), fi.loc())
        raw = [r for r in reductions if not r[1]]
        run.check(bool(reductions) and not raw, 'C12.stats', fi.qual, 'finite mask', 'every reduction in %s runs over array[isfinite(array)]' % name,
                  '%s reduces over samples that were not selected by the finite mask: %s' % (name, [r[0] for r in raw]), fi.loc(raw[0][2]) if raw else fi.loc())
    # std is formed from the deviations about the mean.  With the mean an opaque number M the two-pass form is sqrt(sum (a_i - M)^2 / n); the
    # one-pass form sqrt(<a^2> - M^2) is a different expression -- equal only through sum a_i == n M, and in floating point a difference of two
    # large numbers that cancels catastrophically when the mean is large compared with the spread (std exactly 0, larger than PV, or NaN)
    fi = db.func('prysm.util.std')
    state['opaque_mean'] = True
    try:
        M_ = Rat(R.atom('MEAN'))
        want_dev = Rat(R.sqrt(((xs[0] - M_) * (xs[0] - M_) + (xs[1] - M_) * (xs[1] - M_) + (xs[2] - M_) * (xs[2] - M_)) / 3))
        res = returns(it.run(fi, kwargs=lambda: {'array': Arr((n,), [dom.sym('a%d' % i) for i in range(n)])}), fi)
        for p_ in res:
            got = dom.rat(p_.value)
            if got is None:
                raise AnalysisError('std with the mean kept as a number of its own: the value is not followed (%r)' % (p_.value,))
            if 'MEAN' not in got.atoms() and not any('MEAN' in str(a) for a in got.atoms()):
                # the routine does not take the mean through a reduction this rule sees (np.mean spelled another way): nothing to say
                raise AnalysisError('std: the mean is not formed by a reduction this rule follows; the form of the variance is not judged')
            run.check(got == want_dev or same_for_real_samples(got, want_dev), 'C12.stats', fi.qual, 'deviations about the mean',
                      'std is the root mean square of the deviations about the mean (no difference of large numbers)',
                      'std = %s with M the mean: the variance is not formed from the deviations a_i - M (a one-pass <a^2> - M^2 cancels catastrophically when the mean is large '
                      'compared with the spread: std comes out 0, larger than PV, or NaN, and Sa <= std <= PV fails)' % got.key()[:160], fi.loc())
    finally:
        state['opaque_mean'] = False
    # reading a statistic leaves the samples alone: no in-place write reaches the argument (directly, through a view such as
    # ravel(), through a helper that hands its argument back, or as an out= buffer)
    from .purity import input_mutations
    for name in refs:
        fi = db.func('prysm.util.' + name)
        muts = input_mutations(fi)
        for st, nm_ in muts:
            run.finding('C12.stats', fi.qual, 'purity: ' + norm_stmt(st)[:60],
                        '%s writes in place through `%s`, which may be (a view of) the caller\'s array: reading the statistic changes the data, so a second read differs from the first' % (name, nm_), fi.loc(st))
        if not muts:
            run.ok('C12.stats', fi.qual, '%s does not write through its argument' % name)
    # delegation and piston: decided on values, with the util statistics summarised as functions of their argument
    from ..core.interp import Obj as _Obj
    cii = db.cls(I)
    it2, dom2 = norm_interp(db)
    op2 = dom2.call_prysm

    def call_prysm2(fi_, args, kws, node):
        if fi_.module.name == 'prysm.util' and fi_.name in ('pv', 'rms', 'Sa', 'std', 'mean'):
            a0 = args[0] if args else kws.get('array')
            if dom2.rat(a0) is None:
                return Unknown('statistic of something that is not followed')
            return dom2.func_atom('util_' + fi_.name, [a0])
        return op2(fi_, args, kws, node) if op2 else None
    dom2.call_prysm = call_prysm2
    om2, oe2 = dom2.method, dom2.call_ext

    def method2(v, name, args, kws, node):
        if dom2.rat(v) is not None and name in ('mean', 'sum', 'std', 'max', 'min'):
            return dom2.func_atom('ndarray_' + name, [v])          # a reduction over ALL samples (NaN propagates): not the util statistic
        return om2(v, name, args, kws, node)

    def call_ext2(dotted, args, kws, node):
        last = dotted.rsplit('.', 1)[-1]
        if dotted.startswith('numpy.') and last in ('mean', 'nanmean', 'sum', 'std', 'median') and args and dom2.rat(args[0]) is not None:
            return dom2.func_atom('numpy_' + last, [args[0]])
        return oe2(dotted, args, kws, node)
    dom2.method, dom2.call_ext = method2, call_ext2
    holder2 = {}

    def mkself2():
        o = _Obj(cii)
        o.attrs.update({'data': dom2.sym('DATA'), 'dx': dom2.sym('dx'), '_x': Const(None), '_y': Const(None), '_r': Const(None), '_t': Const(None)})
        holder2['o'] = o
        return o
    R2 = dom2.R
    DATA = Rat(R2.atom('DATA'))
    for prop, callee in (('pv', 'pv'), ('rms', 'rms'), ('Sa', 'Sa'), ('std', 'std')):
        fi = db.func(I + '.' + prop)
        res2 = returns(it2.run(fi, self_obj=mkself2), fi)
        got = dom2.rat(res2[0].value)
        if got is None:
            raise AnalysisError('Interferogram.%s: the returned value is not followed (%r)' % (prop, res2[0].value))
        want = Rat(R2.func('util_' + callee, [DATA]))
        run.check(len(res2) == 1 and got == want, 'C12.stats', fi.qual, 'delegation', 'Interferogram.%s == util.%s(self.data)' % (prop, callee),
                  'Interferogram.%s returns %s, not util.%s of the data' % (prop, got.key(), callee), fi.loc())
    fi = db.func(I + '.remove_piston')
    res2 = returns(it2.run(fi, self_obj=mkself2), fi)
    after = dom2.rat(holder2['o'].attrs.get('data'))
    if after is None:
        raise AnalysisError('remove_piston: the data after the call is not followed (%r)' % (holder2['o'].attrs.get('data'),))
    want = DATA - Rat(R2.func('util_mean', [DATA]))
    run.check(after == want, 'C12.stats', fi.qual, 'piston', 'remove_piston subtracts the NaN-aware mean of the data', 'after remove_piston the data are %s, expected data - mean(data)' % after.key(), fi.loc())


def crop_rules(run, db):
    """The bounding-box slices index the axis their statistics were reduced along."""
    fi = db.func(I + '.crop')
    kept = {}     # name -> axis whose indices it holds
    tags = {}
    for st in sorted([n for n in walk_no_nested(fi.node) if isinstance(n, ast.Assign)], key=lambda s: s.lineno):
        v = st.value
        names = [x.id for t in st.targets for x in ast.walk(t) if isinstance(x, ast.Name)]
        if isinstance(v, ast.Call) and ast.unparse(v.func) in ('np.any', 'np.all'):
            ax = [k.value for k in v.keywords if k.arg == 'axis'] + v.args[1:2]
            if ax and isinstance(ax[0], ast.Constant):
                for nme in names:
                    tags[nme] = 1 - ax[0].value       # reducing over axis a keeps the other axis
        elif isinstance(v, ast.Tuple) and all(isinstance(e, ast.Call) for e in v.elts):
            src = {n.id for n in ast.walk(v) if isinstance(n, ast.Name)} & set(tags)
            if len(src) == 1:
                for nme in names:
                    tags[nme] = tags[next(iter(src))]
        elif isinstance(v, ast.Call) and ast.unparse(v.func) == 'slice':
            src = {n.id for n in ast.walk(v) if isinstance(n, ast.Name)} & set(tags)
            shp = [ast.unparse(s.slice) for s in ast.walk(v) if isinstance(s, ast.Subscript) and ast.unparse(s.value).endswith('.shape')]
            for nme in names:
                tg = {tags[s] for s in src}
                if len(tg) == 1:
                    t0 = next(iter(tg))
                    prev = kept.get(nme)
                    run.check(prev in (None, t0), 'C12.crop', fi.qual, norm_stmt(st), 'slice %s consistently built from axis-%d statistics' % (nme, t0), 'slice %s mixes statistics of both axes' % nme, fi.loc(st))
                    kept[nme] = t0
                for sh in shp:
                    if nme in kept or len(tg) == 0:
                        want = kept.get(nme)
                        if want is not None:
                            run.check(sh == str(want), 'C12.crop', fi.qual, norm_stmt(st), 'slice %s is bounded by data.shape[%d]' % (nme, want),
                                      'slice %s holds axis-%d indices but is bounded by data.shape[%s]' % (nme, want, sh), fi.loc(st))
                        else:
                            kept.setdefault('_pending_' + nme, []).append((sh, st))
    # pending full-range slices: decide once the name's axis is known
    for k in [k for k in kept if k.startswith('_pending_')]:
        nme = k[len('_pending_'):]
        for sh, st in kept[k]:
            if nme in kept:
                run.check(sh == str(kept[nme]), 'C12.crop', fi.qual, norm_stmt(st), 'slice %s is bounded by data.shape[%d]' % (nme, kept[nme]),
                          'slice %s holds axis-%d indices but is bounded by data.shape[%s]' % (nme, kept[nme], sh), fi.loc(st))
    subs = [n for n in walk_no_nested(fi.node) if isinstance(n, ast.Subscript) and isinstance(n.slice, ast.Tuple) and len(n.slice.elts) == 2
            and all(isinstance(e, ast.Name) for e in n.slice.elts)]
    if not subs:
        raise AnalysisError('crop: no two-slice subscripts found')
    for s in subs:
        a, b = [e.id for e in s.slice.elts]
        run.check(kept.get(a) == 0 and kept.get(b) == 1, 'C12.crop', fi.qual, ast.unparse(s), '%s indexed [rows-slice, columns-slice]' % ast.unparse(s.value),
                  '%s is indexed with [%s, %s] whose axes are (%s, %s), expected (0, 1)' % (ast.unparse(s.value), a, b, kept.get(a), kept.get(b)), fi.loc(s))


def _edits_coordinates(fi):
    for n in walk_no_nested(fi.node):
        if isinstance(n, (ast.Assign, ast.AugAssign)):
            tgts = n.targets if isinstance(n, ast.Assign) else [n.target]
            for t in tgts:
                for x in ast.walk(t):
                    if isinstance(x, ast.Attribute) and isinstance(x.value, ast.Name) and x.value.id == 'self' and x.attr in ('x', 'y', '_x', '_y', 'dx'):
                        return True
    return False


def coord_pure_rules(run, db):
    """The cached coordinate arrays handed out by x / y / r / t are never written in place by a method that only reads them."""
    from .purity import shared_entry_mutations
    srcs = {'self.x', 'self.y', 'self.r', 'self.t', 'self._x', 'self._y', 'self._r', 'self._t'}
    n = 0
    for cq in ('prysm._richdata.RichData', 'prysm.interferogram.Interferogram'):
        ci = db.cls(cq)
        for name, fi in sorted(ci.methods.items()):
            n += 1
            # a write spelled on the attribute itself (`self.x *= s`) is a mutator updating the coordinate on purpose and is judged by the
            # typestate rule; what must not happen is a write through a LOCAL alias of a cached array in a method that only reads it
            bad = [(st, nm, r) for st, nm, r in shared_entry_mutations(fi, tables=False, attr_sources=srcs) if nm not in srcs]
            # a method whose job is to change the coordinates (it assigns a coordinate attribute or the spacing, or calls one that
            # does) edits them on purpose, through whatever local name: it is judged by the typestate rule, not here
            if bad and _edits_coordinates(fi):
                bad = []
            for st, nm, r in bad:
                run.finding('C12.cache', fi.qual, norm_stmt(st), '`%s` writes in place through `%s`, an alias of the cached coordinate array %s: the cache now holds a rescaled/edited grid that no longer '
                            'belongs to the data (every later reader of that coordinate, and a second call of this method, sees it)' % (norm_stmt(st), nm, r), fi.loc(st))
            if not bad:
                run.ok('C12.cache', fi.qual, 'cached coordinates are not written through aliases')
    if n < 30:
        raise AnalysisError('RichData/Interferogram: fewer than 30 methods scanned for coordinate-cache writes')


def fit_rules(run, db):
    """Tilt / power removal is a least-squares PROJECTION: the right-hand side of the fit is the data itself and the removed
    term is a combination of fitted basis terms with their own coefficients (then re-fitting the result finds nothing)."""
    I = 'prysm.interferogram.'
    # decided by interpreting the two fit routines in NORM (arrays as elementwise symbols, the validity mask as a selector that
    # does not change elementwise algebra) with the least-squares solve summarised: it records (basis columns, right-hand side)
    # and hands back one coefficient symbol per column
    from .common import norm_interp, returns
    from ..core.interp import Value, Tup as _Tup
    from ..core.norm import Rat

    class MaskV(Value):
        def __init__(self, of):
            self.of = of

        def __repr__(self):
            return 'isfinite(%r)' % (self.of,)

    def fit_interp():
        it, dom = norm_interp(db)
        solves = []
        oe, om, osub, oga, opr = dom.call_ext, dom.method, dom.subscript, dom.getattr, dom.call_prysm

        def columns(v):
            return list(v.items) if isinstance(v, _Tup) else None

        def solve(basis, rhs):
            solves.append((basis, rhs))
            return _Tup([dom.sym('coef%d' % k) for k in range(len(basis))])

        def call_ext(dotted, args, kwargs, node):
            last = dotted.rsplit('.', 1)[-1]
            a0 = args[0] if args else None
            if last == 'isfinite' and a0 is not None:
                return MaskV(a0)
            if last == 'linspace':
                return dom.sym('lin%d' % getattr(node, 'lineno', 0))
            if last == 'meshgrid' and len(args) == 2:
                return _Tup([dom.sym('XX'), dom.sym('YY')])
            if last in ('ones', 'ones_like'):
                return Const(1)
            if last in ('stack', 'column_stack', 'vstack', 'array') and a0 is not None and columns(a0) is not None:
                return _Tup(list(a0.items), 'columns')
            if dotted.endswith('linalg.lstsq') and len(args) >= 2 and columns(a0) is not None:
                return _Tup([solve(columns(a0), args[1]), Const(None), Const(None), Const(None)])
            return oe(dotted, args, kwargs, node)

        def method(v, name, args, kwargs, node):
            if name in ('flatten', 'ravel', 'copy') and dom.rat(v) is not None:
                return v
            return om(v, name, args, kwargs, node)

        def subscript(v, idx, node):
            if isinstance(idx, MaskV) and dom.rat(v) is not None:
                return v
            # axis[None, :] / axis[:, None] of a function of ONE coordinate vector: the grid of that coordinate along the columns / the
            # rows, which is what meshgrid hands out as XX / YY (a grid built by broadcasting instead of meshgrid)
            r_ = dom.rat(v) if not isinstance(v, (_Tup, MaskV)) else None
            if r_ is not None and isinstance(idx, _Tup) and len(idx.items) == 2:
                from ..core.interp import Slice as _Slice
                full = lambda x: isinstance(x, _Slice) and all(isinstance(z, Const) and z.v is None for z in (x.lo, x.hi, x.step))
                none = lambda x: isinstance(x, Const) and x.v is None
                lins = sorted(a for a in r_.atoms() if a.startswith('lin'))
                if len(lins) == 1 and ((none(idx.items[0]) and full(idx.items[1])) or (full(idx.items[0]) and none(idx.items[1]))):
                    from ..domains.normdom import Sym as _Sym
                    return _Sym(r_.subs({lins[0]: Rat(dom.R.atom('XX' if none(idx.items[0]) else 'YY'))}))
            return osub(v, idx, node)

        def getattr_(v, name, node):
            if name == 'T' and isinstance(v, _Tup) and v.kind == 'columns':
                return v
            if name == 'shape' and dom.rat(v) is not None:
                return _Tup([dom.sym('rows'), dom.sym('cols')])
            return oga(v, name, node)

        def call_prysm(fi, args, kwargs, node):
            if fi.qual == 'prysm.polynomials.lstsq' and len(args) >= 2 and columns(args[0]) is not None:
                return solve(columns(args[0]), args[1])
            if fi.name == 'cart_to_polar':
                return _Tup([dom.sym('RR'), dom.sym('TT')])
            if fi.module.name == 'prysm.util' and fi.name in ('mean', 'rms', 'pv', 'std', 'Sa') and len(args) == 1 and dom.rat(args[0]) is not None:
                return dom.func_atom(fi.name, list(args))        # a statistic of the samples: one number, opaque
            return opr(fi, args, kwargs, node) if opr else None
        dom.call_ext, dom.method, dom.subscript, dom.getattr, dom.call_prysm = call_ext, method, subscript, getattr_, call_prysm
        return it, dom, solves
    f = db.func(I + 'fit_plane')
    it, dom, solves = fit_interp()
    res = returns(it.run(f, kwargs=lambda: {'x': dom.sym('x'), 'y': dom.sym('y'), 'z': dom.sym('z')}), f)
    if len(res) != 1 or len(solves) != 1:
        raise AnalysisError('fit_plane: expected one path with one least-squares solve, got %d / %d' % (len(res), len(solves)))
    basis, rhs = solves[0]
    R = dom.R
    A = lambda nme: Rat(R.atom(nme))
    brat = [dom.rat(b) for b in basis]
    rr = dom.rat(rhs)
    run.check(rr is not None and rr == A('z'), 'C12.fit', f.qual, 'right-hand side', 'the plane is fitted to the data itself',
              'fit_plane fits its basis to `%s` instead of the data z: unless everything subtracted from z lies in the span of the basis the fit is no longer a projection, '
              'and removing tilt twice removes something the second time' % (rr.key() if rr is not None else repr(rhs)), f.loc())
    got = dom.rat(res[0].value)
    want = None
    if all(b is not None for b in brat):
        want = Rat(R.const(0))
        for k, b in enumerate(brat):
            want = want + A('coef%d' % k) * b
    okt = got is not None and want is not None and got == want and {b.key() for b in brat} >= {'x', 'y'}
    run.check(okt, 'C12.fit', f.qual, 'removed term', 'the returned plane is sum_i coefs[i] * basis[i] over fitted basis terms (x and y among them), each with its own coefficient',
              'fit_plane returns %s, which is not the combination %s of its fitted basis with their own coefficients' % (got.key() if got is not None else '?', want.key() if want is not None else '?'), f.loc())
    fs = db.func(I + 'fit_sphere')
    it, dom, solves = fit_interp()
    res = returns(it.run(fs, kwargs=lambda: {'z': dom.sym('z')}), fs)
    if len(res) != 1 or len(solves) != 1:
        raise AnalysisError('fit_sphere: expected one path with one least-squares solve, got %d / %d' % (len(res), len(solves)))
    basis, rhs = solves[0]
    R = dom.R
    A = lambda nme: Rat(R.atom(nme))
    focus = A('XX') * A('XX') + A('YY') * A('YY')
    brat = [dom.rat(b) for b in basis]
    v = res[0].value
    oks = isinstance(v, _Tup) and len(v.items) == 2 and isinstance(v.items[0], MaskV) and dom.rat(v.items[0].of) is not None and dom.rat(v.items[0].of) == A('z') \
        and len(brat) == 2 and all(b is not None for b in brat) and dom.rat(rhs) is not None and dom.rat(rhs) == A('z')
    if any(b is None for b in brat) or not (isinstance(v, _Tup) and len(v.items) == 2) or dom.rat(v.items[1]) is None or dom.rat(rhs) is None:
        raise AnalysisError('fit_sphere: the basis, the right-hand side or the returned term is not followed (basis %s, returns %r)' % ([b.key() if b is not None else '?' for b in brat], v))
    if oks:
        kf = [k for k, b in enumerate(brat) if b == focus]
        k1 = [k for k, b in enumerate(brat) if b == Rat(R.const(1))]
        oks = len(kf) == 1 and len(k1) == 1 and dom.rat(v.items[1]) is not None and dom.rat(v.items[1]) == focus * A('coef%d' % kf[0])
    run.check(oks, 'C12.fit', fs.qual, 'power fit', 'power is fitted to the valid data with basis [rho^2, 1]; the removed term is its own coefficient times rho^2 over the valid samples',
              'fit_sphere: basis %s, right-hand side %s, returns %r -- not (isfinite(z), coef_rho2 * rho^2) from a fit of [rho^2, 1] to the valid data'
              % ([b.key() if b is not None else '?' for b in brat], dom.rat(rhs).key() if dom.rat(rhs) is not None else repr(rhs), v), fs.loc())
    # tilt / power removal: decided on what happens to self.data, with the fit routines summarised (tokens)
    from ..core.interp import Domain, Value, Obj as _Obj2
    from .common import bind_call

    class Tk(Value):
        def __init__(self, kind, *args):
            self.kind, self.args = kind, args

        def __repr__(self):
            return self.kind if not self.args else '%s(%s)' % (self.kind, ', '.join(map(repr, self.args)))

    def same_tk(a, b):
        return a is b or (isinstance(a, Tk) and isinstance(b, Tk) and a.kind == b.kind and len(a.args) == len(b.args) and all(same_tk(x_, y_) for x_, y_ in zip(a.args, b.args)))

    class RD(Domain):
        def __init__(self):
            self.fits, self.stores = [], []

        def call_prysm(self, fi_, args, kws, node):
            if fi_.name == 'fit_plane':
                self.fits.append(('fit_plane', bind_call(fi_, args, kws)))
                return Tk('PLANE')
            if fi_.name == 'fit_sphere':
                self.fits.append(('fit_sphere', bind_call(fi_, args, kws)))
                return _Tup([Tk('VALID'), Tk('SPHERE')])
            return None

        def subscript(self, v, idx, node):
            if isinstance(v, Tk):
                return Tk('sel', v, idx)
            return None

        def binop(self, op, a, b, node):
            if isinstance(a, Tk) and isinstance(b, Tk):
                return Tk(type(op).__name__, a, b)
            return None

        def store_subscript(self, target, idx, val, node):
            self.stores.append((target, idx, val))
            return True
    cinf = db.cls(I + 'Interferogram')
    for meth, fitname in (('remove_tiptilt', 'fit_plane'), ('remove_power', 'fit_sphere')):
        fm = db.func(I + 'Interferogram.' + meth)
        rd = RD()
        itr = Interp(db, rd)
        hold = {}

        def mk_():
            o = _Obj2(cinf)
            o.attrs.update({'data': Tk('DATA'), '_x': Tk('X'), '_y': Tk('Y'), 'dx': Unknown('dx'), '_r': Const(None), '_t': Const(None)})
            hold['o'] = o
            return o
        rr = [p_ for p_ in itr.run(fm, self_obj=mk_) if p_.outcome == 'return']
        if len(rr) != 1 or len(rd.fits) != 1 or rd.fits[0][0] != fitname:
            raise AnalysisError('%s: expected one path with one call of %s, got %d paths, fits %s' % (meth, fitname, len(rr), [f_[0] for f_ in rd.fits]))
        b = rd.fits[0][1]
        data_after = hold['o'].attrs.get('data')
        if any(isinstance(v_, Unknown) for v_ in b.values()) or isinstance(data_after, Unknown):
            raise AnalysisError('%s: what is handed to %s, or the data afterwards, is not followed (%s)' % (meth, fitname, {k: repr(v_) for k, v_ in b.items()}))
        if meth == 'remove_tiptilt':
            okf = same_tk(b.get('x'), Tk('X')) and same_tk(b.get('y'), Tk('Y')) and same_tk(b.get('z'), Tk('DATA'))
            okd = same_tk(data_after, Tk('Sub', Tk('DATA'), Tk('PLANE'))) and not rd.stores
            run.check(okf and okd, 'C12.fit', fm.qual, 'tilt removal', 'the plane fitted to (x, y, data) is subtracted from the data',
                      'remove_tiptilt fits %s and leaves the data as %r (expected a fit of (X, Y, DATA) and DATA - PLANE)' % ({k: repr(v_) for k, v_ in b.items()}, data_after), fm.loc())
        else:
            okf = same_tk(list(b.values())[0], Tk('DATA')) if b else False
            want = (Tk('DATA'), Tk('VALID'), Tk('Sub', Tk('sel', Tk('DATA'), Tk('VALID')), Tk('SPHERE')))
            okd = len(rd.stores) == 1 and all(same_tk(x_, y_) for x_, y_ in zip(rd.stores[0], want)) and same_tk(data_after, Tk('DATA'))
            run.check(okf and okd, 'C12.fit', fm.qual, 'power removal', 'the sphere fitted to the valid data is subtracted on the valid samples',
                      'remove_power fits %s and writes %r (expected a fit of DATA and DATA[VALID] -= SPHERE)' % ({k: repr(v_) for k, v_ in b.items()}, rd.stores[:2]), fm.loc())


def check(run, db, tier):
    run.trust('CACHE-b typestate domain (versions of shape / scale / origin, sa/domains/cachestate.py); shape-preserving whitelist for elementwise numpy calls',
              'make_xy_grid(shape, dx) yields x,y of that shape spaced by dx; cart_to_polar(x, y) yields r,t of the same shape, r in the units of x',
              'induction over the finite set of mutators: every history is a sequence of these methods and getter reads')
    run.assume('users do not assign the x/y/r/t setters themselves; interpolation-function caches are outside the property',
               'not decided: idempotence of tilt/power removal, rms^2 = std^2 + mean^2, Sa <= std <= PV (values)')
    run.rule('C12.cache', 'every mutator and getter maps every coherent entry state (no cache / x,y cached / x,y,r,t cached) to a coherent state on every path')
    run.rule('C12.stats', 'statistics reduce over the finite samples only and equal their definitions; Interferogram statistics delegate; piston removal subtracts that mean')
    run.rule('C12.crop', 'crop returns the bounding box of the valid samples with every existing coordinate cache cut to the same window, and is idempotent (decided on values); '
             'bounding-box slices index the axis their statistics belong to and are applied as [rows, columns] (reading of the code)')
    run.group(cache_rules, run, db)
    run.group(stats_rules, run, db)
    # crop decided on values first (concrete 5x6 maps of symbolic samples, eight sets of invalid margins, three cache states): the result
    # is the bounding box of the valid samples, the caches are cut to the same window, cropping again changes nothing.  The reading of
    # the slice construction below defers to it when crop is organised in a way it does not read.
    from .c12values import crop_value_rules
    n_crop = run.group(crop_value_rules, run, db)

    def crop_reading(run, db):
        try:
            crop_rules(run, db)
        except AnalysisError as e:
            if not n_crop:
                raise
            run.info('crop_rules does not read this organisation of crop (%s); crop was decided on values for %d maps' % (str(e)[:140], n_crop))
    run.group(crop_reading, run, db)
    run.rule('C12.fit', 'tilt/power removal is a least-squares projection: data as right-hand side, removed term = own coefficients times fitted basis terms; methods subtract what was fitted')
    from .c12values import removal_value_rules
    n_fit = run.group(removal_value_rules, run, db)

    def fit_reading(run, db):
        try:
            fit_rules(run, db)
        except AnalysisError as e:
            if not n_fit:
                raise
            run.info('fit_rules does not read this organisation of the fits (%s); piston / tilt / power removal were decided on values (%d cases)' % (str(e)[:140], n_fit))
    run.group(fit_reading, run, db)
    run.forgive('crop_value_rules', ['crop_reading'])
    run.forgive('removal_value_rules', ['fit_reading'])
    run.group(coord_pure_rules, run, db)
    run.require_instances('C12.cache', 36)
    run.require_instances('C12.stats', 12)
    run.require_instances('C12.crop', 6)
