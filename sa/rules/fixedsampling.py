"""Physical-kernel obligations of the fixed-sampling propagators (shared by C03, C05, C06)."""
import ast

from ..core.db import AnalysisError
from ..core.interp import Const, Tup, Unknown, Obj
from ..core.norm import Rat
from ..domains.index import Shaped, parity_classes, ptxt
from ..domains.kernel import Vec, Mat, PieceVec, Prod2
from ..domains.normdom import Sym
from . import ftkernels as K
from .c01 import label, czt_path

P = 'prysm.propagation.'
SHIFTS = [(True, True), (True, False), (False, True), (False, False)]


def fs_ctx(dom, sh, method, in_lens=('n0', 'n1'), out_lens=('M0', 'M1'), label='ary'):
    dom.nonzero = {'sx', 'sy'}
    return {'wavefunction': dom.array(label, *in_lens), 'input_dx': dom.sym('input_dx'), 'prop_dist': dom.sym('prop_dist'),
            'wavelength': dom.sym('wavelength'), 'output_dx': dom.sym('output_dx'),
            'output_samples': Tup([dom.length(out_lens[0]), dom.length(out_lens[1])]),
            'shift': Tup([dom.sym('sx') if sh[0] else Const(0), dom.sym('sy') if sh[1] else Const(0)]),
            'method': Const(method)}


def phys_k(dom, sign):
    R = dom.R
    return sign * 2 * Rat(R.atom('pi')) * Rat(R.I) * Rat(R.atom('input_dx')) * Rat(R.atom('output_dx')) / (Rat(R.atom('wavelength')) * Rat(R.atom('prop_dist')))


def check_mdft_phys(run, rule, f, dom, v, sh, sign, in_lens, out_lens, tag=''):
    """v: Prod2 of the fixed-sampling mdft route."""
    if not (isinstance(v, Prod2) and isinstance(v.left, Mat) and isinstance(v.right, Mat)):
        raise AnalysisError('%s: mdft route does not end in Eout @ ary @ Ein: %r' % (f.qual, v))
    k = phys_k(dom, sign)
    odx = Rat(dom.R.atom('output_dx'))
    sx, sy = sh
    specs = [K.AxisSpec(dom.length(in_lens[0]), dom.length(out_lens[0]), k, Sym(Rat(dom.R.atom('sy')) / odx) if sy else Const(0), '0 (rows/Y)'),
             K.AxisSpec(dom.length(in_lens[1]), dom.length(out_lens[1]), k, Sym(Rat(dom.R.atom('sx')) / odx) if sx else Const(0), '1 (cols/X)')]
    for mat, spec, in_rows, taken in ((v.left, specs[0], False, sy), (v.right, specs[1], True, sx)):
        obs, fac = K.check_dft_matrix(dom, mat, spec, in_rows, taken)
        for ok, text in obs:
            text = text.replace('textbook', 'physical kernel -/+2 pi i dx_in dx_out/(lambda f) =')
            run.check(ok, rule, f.qual, tag + 'mdft ' + label(text), text + ' [%s]' % ('shift' if taken else 'no shift'),
                      text + ' (%s)' % ('shift requested' if taken else 'no shift'), f.loc())


def run_fixed(run, db, rule, fname, sign, parities=None):
    """Both engines of focus/unfocus_fixed_sampling against the physical kernel, per axis."""
    f = db.func(P + fname)
    # mdft route: lengths symbolic (no parity dependence)
    it, dom = K.mk(db, {})
    for sh in SHIFTS:
        res = [p for p in it.run(f, kwargs=lambda: fs_ctx(dom, sh, 'mdft')) if p.outcome == 'return']
        if len(res) != 1:
            raise AnalysisError('%s(mdft): expected one path per context, got %d' % (f.qual, len(res)))
        check_mdft_phys(run, rule, f, dom, res[0].value, sh, sign, ('n0', 'n1'), ('M0', 'M1'))
    # czt route: parity classes of every length
    classes = list(parity_classes(['n0', 'n1', 'M0', 'M1'])) if parities is None else parities
    try:
        _czt_classes(run, db, rule, f, sign, classes)
    except AnalysisError as e:
        # the chirp model does not read this organisation of the executor: when chirp-Z == matrix DFT was decided on values and both
        # engines are handed the same arguments by this wrapper, its chirp-Z route computes what its matrix route computes
        from .c01values import defer_to_routes
        from ..core.report import Run
        from . import c01
        quiet = Run(getattr(run, 'prop', 'C01'), 'quick', '')
        try:
            c01.dispatch_rules(quiet, db)
            same_args = not quiet.findings and not quiet.errors
        except AnalysisError:
            same_args = False
        if not (same_args and defer_to_routes(run, db, 'run_fixed(%s, chirp-Z route)' % fname, e, ((rule, 60 * len(classes)),))):
            raise


def _czt_classes(run, db, rule, f, sign, classes):
    for par in classes:
        it, dom = K.mk(db, par)
        from .c01 import watch_coincidences
        watch_coincidences(it, dom)
        R = dom.R
        alpha = Rat(R.atom('input_dx')) * Rat(R.atom('output_dx')) / (Rat(R.atom('wavelength')) * Rat(R.atom('prop_dist')))
        for sh in SHIFTS:
            res = [p for p in it.run(f, kwargs=lambda: fs_ctx(dom, sh, 'czt')) if p.outcome == 'return']
            if sign > 0:
                res = [p for p in res]      # iczt2 has a real/complex guard: both paths are analysed
            # a path taken only because quantities of the two axes were assumed equal describes a square problem; square problems are
            # judged by the square contexts of C01.chirp with the symbols identified, not here with symbols that differ
            res = [p for p in res if not any(e['kind'] == 'coincidence' for e in p.events)]
            if not res:
                raise AnalysisError('%s(czt): no returning path' % f.qual)
            for p in res:
                czt_path_phys(run, rule, f, dom, p, par, sh, alpha)


def czt_path_phys(run, rule, f, dom, p, par, sh, alpha):
    """Re-use the chirp obligations with alpha = dx_in dx_out/(lambda f) and shift in output samples."""
    import types
    odx = Rat(dom.R.atom('output_dx'))
    proxy = _RuleProxy(run, rule)
    # the shift reaching the executor is shift/output_dx
    czt_path(proxy, f, dom, p, par, sh, alpha_of=lambda ax: alpha, tag='fixed-sampling ',
             ) if False else _czt_phys(proxy, f, dom, p, par, sh, alpha, odx)


class _RuleProxy:
    """Redirect C01.* rule names of the shared chirp obligations to the calling property's rule."""

    def __init__(self, run, rule):
        self.run, self.rule = run, rule

    def check(self, cond, rule, where, construct, ok_text, bad_text, loc='', trace=None):
        return self.run.check(cond, self.rule, where, construct, ok_text, bad_text, loc, trace)


def _czt_phys(run, f, dom, p, par, sh, alpha, odx):
    from ..core.interp import Slice
    R = dom.R
    pre, filt, post, ffts = K.czt_events(dom, p)
    byaxis = {}
    for group, nm in ((pre, 'pre-chirp'), (filt, 'filter'), (post, 'post-chirp')):
        if len(group) != 2:
            raise AnalysisError('%s: expected two %s multiplies, found %d' % (f.qual, nm, len(group)))
        for e in group:
            byaxis.setdefault(K.vec_axis(e['vec']), {})[nm] = e['vec']
    s = ffts[0]['s']
    if not (isinstance(s, Tup) and len(s.items) == 2):
        raise AnalysisError('%s: fft2 is not given an explicit (K, L) size' % f.qual)
    crop = [e for e in p.events if e['kind'] == 'subscript' and isinstance(e['target'], Shaped) and e['target'].label == 'ifft2']
    for ax in (0, 1):
        N, M = dom.length('n%d' % ax), dom.length('M%d' % ax)
        want_len = dom.func_atom('next_fast_len', [Sym(K.R_(dom, N) + K.R_(dom, M) - 1)])
        Kax = s.items[ax]
        run.check(dom.rat(Kax) is not None and K.R_(dom, Kax) == want_len.r, 'x', f.qual, 'czt fft size axis %d' % ax,
                  'convolution length of axis %d is next_fast_len(n+M-1) of that axis' % ax,
                  'chirp-Z convolution length of axis %d is %r, expected next_fast_len(n%d + M%d - 1): a shorter workspace wraps around' % (ax, Kax, ax, ax), f.loc(ffts[0]['node']))
        if len(crop) == 1 and isinstance(crop[0]['index'], Tup) and len(crop[0]['index'].items) == 2:
            sl = crop[0]['index'].items[ax]
            okc = isinstance(sl, Slice) and isinstance(sl.lo, Const) and sl.lo.v is None and dom.rat(sl.hi) is not None and K.R_(dom, sl.hi) == K.R_(dom, M)
            run.check(okc, 'x', f.qual, 'czt crop axis %d' % ax, 'crop [:M%d] on axis %d' % (ax, ax), 'crop of axis %d is %r, expected [:M%d]' % (ax, sl, ax), f.loc(crop[0]['node']))
        taken = sh[1] if ax == 0 else sh[0]
        shiftv = Sym(Rat(R.atom('sy' if ax == 0 else 'sx')) / odx) if taken else Const(0)
        d = byaxis.get(ax, {})
        spec = K.AxisSpec(N, M, None, shiftv, str(ax))
        obs = K.check_czt_axis(dom, d.get('pre-chirp'), d.get('filter'), d.get('post-chirp'), spec, alpha, s.items[ax], norm=True, shift_taken=taken)
        for ok, text in obs:
            text = text.replace('alpha = 1/(N Q)', 'alpha = dx_in dx_out/(lambda f)')
            run.check(ok, 'x', f.qual, 'czt ' + label(text), text + ' [%s; %s]' % (ptxt(par), 'shift' if taken else 'no shift'),
                      text + ' for %s (%s)' % (ptxt(par), 'shift requested' if taken else 'no shift'), f.loc())
