"""C16 on values: binning, tiling and the Bayer (de)composition run on small concrete arrays of symbolic samples (FILE's arrays).
Every output sample is then a rational-linear form in the input samples and the statements of the property are identities between such
forms, whatever reshape / view / einsum / loop the routines use to get there."""
from ..core.db import AnalysisError
from ..core.interp import Const, Tup
from ..core.norm import Rat
from ..domains.filedom import file_interp, FArr

D = 'prysm.detector.'
BIN_CASES = (((4, 6), (2, 3)), ((4, 4), 2), ((2, 6), (1, 3)), ((6, 2), (3, 2)))


def _grid(dom, tag, shape):
    return FArr.of(shape, [dom.sym('%s%d_%d' % (tag, i, j)) for i in range(shape[0]) for j in range(shape[1])])


def _cells(dom, v, label, shape=None):
    if not isinstance(v, FArr):
        raise AnalysisError('%s: the result is not followed: %r' % (label, v))
    out = [dom.rat(c) for c in v.values()]
    if any(c is None for c in out):
        raise AnalysisError('%s: a sample of the result is not followed: %r' % (label, [c for c in v.values() if dom.rat(c) is None][0]))
    return out


def _one(it, f, label, **kw):
    res = it.run(f, kwargs=lambda: dict(kw))
    rets = [p for p in res if p.outcome == 'return']
    if len(rets) != len(res) or not rets:
        raise AnalysisError('%s: not every path returns' % label)
    return rets


def bin_value_rules(run, db):
    fb, ft = db.func(D + 'bindown'), db.func(D + 'tile')
    n_ok = 0
    for shape, factor in BIN_CASES:
        fy, fx = (factor, factor) if isinstance(factor, int) else factor
        fv = Const(factor) if isinstance(factor, int) else Tup([Const(fy), Const(fx)])
        oshape = (shape[0] // fy, shape[1] // fx)
        for mode in ('sum', 'avg'):
            it, dom = file_interp(db)
            R = dom.R
            X = lambda i, j: Rat(R.atom('x%d_%d' % (i, j)))
            Y = lambda i, j: Rat(R.atom('y%d_%d' % (i, j)))
            label = 'bindown(%dx%d, factor=%s, mode=%r)' % (shape[0], shape[1], factor, mode)
            for p in _one(it, fb, label, array=_grid(dom, 'x', shape), factor=fv, mode=Const(mode)):
                v = p.value
                cells = _cells(dom, v, label)
                ok = tuple(v.shape) == oshape
                bad = '' if ok else 'the result has shape %s, not %s' % (tuple(v.shape), oshape)
                if ok:
                    for a in range(oshape[0]):
                        for b in range(oshape[1]):
                            want = Rat(R.const(0))
                            for i in range(fy):
                                for j in range(fx):
                                    want = want + X(a * fy + i, b * fx + j)
                            if mode == 'avg':
                                want = want / (fy * fx)
                            if not (cells[a * oshape[1] + b] == want):
                                ok = False
                                bad = 'output sample (%d, %d) is %s, the %s of its %dx%d block is %s' % (a, b, cells[a * oshape[1] + b].key()[:120], 'sum' if mode == 'sum' else 'mean', fy, fx, want.key()[:120])
                                break
                        if not ok:
                            break
                run.check(ok, 'C16.bin', fb.qual, 'bindown on values, mode=%s' % mode, '%s: every output sample is the %s of its block (so the %s is conserved)' % (label, 'sum' if mode == 'sum' else 'mean', 'total' if mode == 'sum' else 'level'),
                          '%s: %s' % (label, bad), fb.loc())
                n_ok += ok
            # tile, and the adjoint pairing: <bindown_sum(x), y> == <x, tile_avg(y)>,  <bindown_avg(x), y> == <x, tile_sum(y)>
            scaling = 'avg' if mode == 'sum' else 'sum'
            tlabel = 'tile(%dx%d, factor=%s, scaling=%r)' % (oshape[0], oshape[1], factor, scaling)
            for p in _one(it, ft, tlabel, array=_grid(dom, 'y', oshape), factor=fv, scaling=Const(scaling)):
                v = p.value
                cells = _cells(dom, v, tlabel)
                ok = tuple(v.shape) == shape
                bad = '' if ok else 'the result has shape %s, not %s' % (tuple(v.shape), shape)
                if ok:
                    for i in range(shape[0]):
                        for j in range(shape[1]):
                            want = Y(i // fy, j // fx)
                            if scaling == 'sum':
                                want = want / (fy * fx)
                            if not (cells[i * shape[1] + j] == want):
                                ok = False
                                bad = 'output sample (%d, %d) is %s; the adjoint of bindown(mode=%r) puts %s there' % (i, j, cells[i * shape[1] + j].key()[:100], mode, want.key()[:100])
                                break
                        if not ok:
                            break
                run.check(ok, 'C16.bin', ft.qual, 'tile on values, scaling=%s' % scaling,
                          '%s: every input sample is spread over its block%s -- the adjoint of bindown(mode=%r), and it conserves the %s' % (tlabel, ' divided by the block size' if scaling == 'sum' else '', mode, 'total' if scaling == 'sum' else 'level'),
                          '%s: %s' % (tlabel, bad), ft.loc())
                n_ok += ok
    return n_ok


B = 'prysm.bayer.'


def _site_colour(cfa, i, j):
    """(plane name, RGB channel) native to site (i, j)"""
    if i % 2 == 0 and j % 2 == 0:
        return ('r', 0) if cfa == 'rggb' else ('b', 2)
    if i % 2 == 1 and j % 2 == 1:
        return ('b', 2) if cfa == 'rggb' else ('r', 0)
    return ('g1', 1) if i % 2 == 0 else ('g2', 1)


def bayer_value_rules(run, db):
    """decomposite / recomposite / composite / demosaic on 4x4 and 4x6 mosaics of symbolic samples, both layouts: every raw sample is found
    unchanged at its native colour site"""
    n_ok = 0
    fdec, frec, fcomp = db.func(B + 'decomposite_bayer'), db.func(B + 'recomposite_bayer'), db.func(B + 'composite_bayer')
    for shape in ((4, 4), (4, 6)):
        for cfa in ('rggb', 'bggr'):
            it, dom = file_interp(db)
            R = dom.R
            M = lambda i, j: Rat(R.atom('m%d_%d' % (i, j)))
            label = '%dx%d mosaic, cfa=%r' % (shape[0], shape[1], cfa)
            # decomposition: plane c holds the samples of the sites native to c, in place order
            for p in _one(it, fdec, 'decomposite_bayer(%s)' % label, img=_grid(dom, 'm', shape), cfa=Const(cfa)):
                v = p.value
                if not (isinstance(v, Tup) and len(v.items) == 4 and all(isinstance(x, FArr) for x in v.items)):
                    raise AnalysisError('decomposite_bayer(%s): the four planes are not followed: %r' % (label, v))
                bad = ''
                for name, plane in zip(('r', 'g1', 'g2', 'b'), v.items):
                    want = [M(i, j) for i in range(shape[0]) for j in range(shape[1]) if _site_colour(cfa, i, j)[0] == name]
                    got = _cells(dom, plane, 'decomposite_bayer(%s)' % label)
                    if tuple(plane.shape) != (shape[0] // 2, shape[1] // 2) or len(got) != len(want) or not all(x == y for x, y in zip(got, want)):
                        bad = 'plane %s holds %s, the samples native to it are %s' % (name, [g.key() for g in got][:4], [w.key() for w in want][:4])
                        break
                run.check(not bad, 'C16.bayer', fdec.qual, 'decomposition on values, %s' % cfa, 'decomposite_bayer(%s): each plane holds the samples of its own sites' % label,
                          'decomposite_bayer(%s): %s' % (label, bad), fdec.loc())
                n_ok += not bad
                # ... and recomposition of those planes is the mosaic
                planes = v.items
                for q in _one(it, frec, 'recomposite_bayer(%s)' % label, r=planes[0], g1=planes[1], g2=planes[2], b=planes[3], cfa=Const(cfa)):
                    got = _cells(dom, q.value, 'recomposite_bayer(%s)' % label)
                    want = [M(i, j) for i in range(shape[0]) for j in range(shape[1])]
                    ok = tuple(q.value.shape) == shape and all(x == y for x, y in zip(got, want))
                    k = next((i for i, (x, y) in enumerate(zip(got, want)) if not (x == y)), 0)
                    run.check(ok, 'C16.bayer', frec.qual, 'recomposition on values, %s' % cfa, 'recomposite_bayer(decomposite_bayer(m)) == m (%s)' % label,
                              'recomposite_bayer(decomposite_bayer(m)) (%s): site (%d, %d) holds %s' % (label, k // shape[1], k % shape[1], got[k].key() if k < len(got) else '?'), frec.loc())
                    n_ok += ok
            # composition of four full-size planes: each site takes the sample of the plane native to it
            planes = {n_: _grid(dom, n_, shape) for n_ in ('r', 'g1', 'g2', 'b')}
            for q in _one(it, fcomp, 'composite_bayer(%s)' % label, cfa=Const(cfa), **planes):
                got = _cells(dom, q.value, 'composite_bayer(%s)' % label)
                want = [Rat(R.atom('%s%d_%d' % (_site_colour(cfa, i, j)[0], i, j))) for i in range(shape[0]) for j in range(shape[1])]
                ok = tuple(q.value.shape) == shape and all(x == y for x, y in zip(got, want))
                k = next((i for i, (x, y) in enumerate(zip(got, want)) if not (x == y)), 0)
                run.check(ok, 'C16.bayer', fcomp.qual, 'composition on values, %s' % cfa, 'composite_bayer (%s): every site takes the sample of the plane native to it' % label,
                          'composite_bayer (%s): site (%d, %d) holds %s, native to it is %s' % (label, k // shape[1], k % shape[1], got[k].key() if k < len(got) else '?', want[k].key()), fcomp.loc())
                n_ok += ok
            # demosaicking: channel native to a site returns the raw sample
            for fname in ('demosaic_malvar', 'demosaic_deinterlace'):
                fd = db.func(B + fname)
                for q in _one(it, fd, '%s(%s)' % (fname, label), img=_grid(dom, 'm', shape), cfa=Const(cfa)):
                    v = q.value
                    if not (isinstance(v, FArr) and v.ndim == 3 and v.shape[2] == 3):
                        raise AnalysisError('%s(%s): the RGB image is not followed: %r' % (fname, label, v))
                    bad = ''
                    if fname == 'demosaic_malvar':
                        if tuple(v.shape[:2]) != shape:
                            bad = 'the image has shape %s' % (tuple(v.shape),)
                        for i in range(shape[0]):
                            for j in range(shape[1]):
                                if bad:
                                    break
                                ch = _site_colour(cfa, i, j)[1]
                                c = v.boxes[(i * shape[1] + j) * 3 + ch].v
                                r_ = dom.rat(c)
                                if r_ is None:
                                    raise AnalysisError('%s(%s): the native sample at (%d, %d) is not followed: %r' % (fname, label, i, j, c))
                                if not (r_ == M(i, j)):
                                    bad = 'channel %s at its native site (%d, %d) is %s, the raw sample is %s' % ('RGB'[ch], i, j, r_.key()[:100], M(i, j).key())
                    else:
                        # half-resolution image: R and B are the planes, G the mean of the two green planes
                        hs = (shape[0] // 2, shape[1] // 2)
                        if tuple(v.shape[:2]) != hs:
                            bad = 'the image has shape %s' % (tuple(v.shape),)
                        for a in range(hs[0]):
                            for b_ in range(hs[1]):
                                if bad:
                                    break
                                sites = {'r': None, 'b': None, 'g': []}
                                for di in (0, 1):
                                    for dj in (0, 1):
                                        nm = _site_colour(cfa, 2 * a + di, 2 * b_ + dj)[0]
                                        if nm in ('r', 'b'):
                                            sites[nm] = M(2 * a + di, 2 * b_ + dj)
                                        else:
                                            sites['g'].append(M(2 * a + di, 2 * b_ + dj))
                                want3 = [sites['r'], (sites['g'][0] + sites['g'][1]) / 2, sites['b']]
                                for ch in range(3):
                                    r_ = dom.rat(v.boxes[(a * hs[1] + b_) * 3 + ch].v)
                                    if r_ is None or not (r_ == want3[ch]):
                                        bad = 'channel %s of pixel (%d, %d) is %s, expected %s' % ('RGB'[ch], a, b_, r_.key()[:90] if r_ is not None else '?', want3[ch].key())
                                        break
                    run.check(not bad, 'C16.bayer', fd.qual, '%s on values, %s' % (fname, cfa), '%s(%s): every raw sample is returned unchanged in the channel native to its site' % (fname, label),
                              '%s(%s): %s' % (fname, label, bad), fd.loc())
                    n_ok += not bad
                    if fname == 'demosaic_malvar' and not bad:
                        # a flat field stays flat in every channel: each interpolation kernel sums to one after its normalisation (also at the edges)
                        cst = Rat(R.atom('flat'))
                        sub = {'m%d_%d' % (i, j): cst for i in range(shape[0]) for j in range(shape[1])}
                        worst = ''
                        for k_, c in enumerate(v.values()):
                            r_ = dom.rat(c)
                            if r_ is None:
                                raise AnalysisError('%s(%s): an interpolated sample is not followed: %r' % (fname, label, c))
                            if not (r_.subs(sub) == cst):
                                worst = 'channel %s at (%d, %d) of a flat field of level `flat` is %s' % ('RGB'[k_ % 3], (k_ // 3) // shape[1], (k_ // 3) % shape[1], r_.subs(sub).key()[:80])
                                break
                        run.check(not worst, 'C16.kernel', fd.qual, 'flat field on values, %s' % cfa, 'demosaic_malvar(%s): a flat field stays flat in all three channels (every kernel sums to one)' % label,
                                  'demosaic_malvar(%s): %s -- an interpolation kernel does not sum to one' % (label, worst), fd.loc())
    return n_ok


def wb_value_rules(run, db):
    """white-balance prescaling on values: every site of the mosaic is multiplied by the gain of the colour native to it (r, g1, g2, b), for
    both layouts; and binning of a stack (a leading axis with factor 1) bins each plane"""
    n_ok = 0
    fw = db.func(B + 'wb_prescale')
    for shape in ((4, 4), (2, 6)):
        for cfa in ('rggb', 'bggr'):
            it, dom = file_interp(db)
            R = dom.R
            label = 'wb_prescale(%dx%d mosaic, cfa=%r)' % (shape[0], shape[1], cfa)
            holder = {}

            def mk():
                holder['m'] = _grid(dom, 'm', shape)
                return holder['m']
            rets = _one(it, fw, label, mosaic=None, wr=dom.sym('wr'), wg1=dom.sym('wg1'), wg2=dom.sym('wg2'), wb=dom.sym('wb'), cfa=Const(cfa)) if False else None
            res = it.run(fw, kwargs=lambda: {'mosaic': mk(), 'wr': dom.sym('wr'), 'wg1': dom.sym('wg1'), 'wg2': dom.sym('wg2'), 'wb': dom.sym('wb'), 'cfa': Const(cfa)})
            if not res or any(p.outcome != 'return' for p in res):
                raise AnalysisError('%s: not every path returns' % label)
            for p in res:
                m = p.frame.env.get('mosaic')
                out = p.value if isinstance(p.value, FArr) else m
                got = _cells(dom, out, label)
                gains = {'r': 'wr', 'g1': 'wg1', 'g2': 'wg2', 'b': 'wb'}
                bad = ''
                for i in range(shape[0]):
                    for j in range(shape[1]):
                        want = Rat(R.atom('m%d_%d' % (i, j))) * Rat(R.atom(gains[_site_colour(cfa, i, j)[0]]))
                        if not bad and not (got[i * shape[1] + j] == want):
                            bad = 'site (%d, %d), native to %s, becomes %s; its gain is %s' % (i, j, _site_colour(cfa, i, j)[0], got[i * shape[1] + j].key()[:80], gains[_site_colour(cfa, i, j)[0]])
                run.check(not bad, 'C16.bayer', fw.qual, 'white balance on values, %s' % cfa, '%s: every site is scaled by the gain of its own colour' % label, '%s: %s' % (label, bad), fw.loc())
                n_ok += not bad
    # stacks: bindown(cube, [1, fy, fx]) bins every plane; [fy, 1, fx] bins along the first and last axis
    fb = db.func(D + 'bindown')
    for shape, factor in (((2, 4, 6), (1, 2, 3)), ((4, 2, 6), (2, 1, 3))):
        for mode in ('sum', 'avg'):
            it, dom = file_interp(db)
            R = dom.R
            label = 'bindown(%dx%dx%d, factor=%s, mode=%r)' % (shape + (list(factor), mode))
            arr = lambda: FArr.of(shape, [dom.sym('x%d_%d_%d' % (a, i, j)) for a in range(shape[0]) for i in range(shape[1]) for j in range(shape[2])])
            for p in _one(it, fb, label, array=arr(), factor=Tup([Const(f) for f in factor], 'list'), mode=Const(mode)):
                v = p.value
                cells = _cells(dom, v, label)
                oshape = tuple(s // f for s, f in zip(shape, factor))
                bad = '' if tuple(v.shape) == oshape else 'the result has shape %s, not %s' % (tuple(v.shape), oshape)
                if not bad:
                    import itertools
                    for k, (a, i, j) in enumerate(itertools.product(*[range(d) for d in oshape])):
                        want = Rat(R.const(0))
                        for da in range(factor[0]):
                            for di in range(factor[1]):
                                for dj in range(factor[2]):
                                    want = want + Rat(R.atom('x%d_%d_%d' % (a * factor[0] + da, i * factor[1] + di, j * factor[2] + dj)))
                        if mode == 'avg':
                            want = want / (factor[0] * factor[1] * factor[2])
                        if not (cells[k] == want):
                            bad = 'output sample (%d, %d, %d) is %s, the %s of its block is %s' % (a, i, j, cells[k].key()[:100], 'sum' if mode == 'sum' else 'mean', want.key()[:100])
                            break
                run.check(not bad, 'C16.bin', fb.qual, 'bindown of a stack on values, mode=%s' % mode, '%s: every output sample is the %s of its block' % (label, 'sum' if mode == 'sum' else 'mean'),
                          '%s: %s' % (label, bad), fb.loc())
                n_ok += not bad
    return n_ok


def expose_shape_value_rules(run, db):
    """Detector.expose returns an array of the documented shape -- the shape of the image for one frame, (frames, *shape) for several --
    also when the image has an axis of length 1 (decided on concrete shapes; the samples are not followed through the noise draws)"""
    from ..core.interp import Obj, Unknown
    ci = db.cls(D + 'Detector')
    f = db.func(D + 'Detector.expose')
    n_ok = 0
    for shape in ((2, 3), (1, 3), (3, 1), (1, 1)):
        for frames in (1, 2):
            it, dom = file_interp(db)
            label = 'Detector.expose(%dx%d image, frames=%d)' % (shape[0], shape[1], frames)

            def mk():
                o = Obj(ci)
                o.attrs.update({'exposure_time': dom.sym('t'), 'dark_current': dom.sym('dark'), 'dcnu': Const(None), 'prnu': Const(None), 'read_noise': dom.sym('rn'),
                                'conversion_gain': dom.sym('gain'), 'bias': dom.sym('bias'), 'fwc': dom.sym('fwc'), 'bits': Const(12), 'lut': Const(None)})
                return o
            res = it.run(f, kwargs=lambda: {'aerial_img': _grid(dom, 'e', shape), 'frames': Const(frames)}, self_obj=mk)
            rets = [p for p in res if p.outcome == 'return']
            if not rets or len(rets) != len(res):
                raise AnalysisError('%s: not every path returns (%s)' % (label, [getattr(getattr(p.value, 'exc', p.value), 'v', p.value) for p in res if p.outcome != 'return'][:2]))
            want = shape if frames == 1 else (frames,) + shape
            for p in rets:
                v = p.value
                if not isinstance(v, FArr):
                    raise AnalysisError('%s: the array that is returned is not followed: %r' % (label, v))
                ok = tuple(v.shape) == tuple(want)
                run.check(ok, 'C16.clamp', f.qual, 'shape of the exposure on values', '%s returns an array of shape %s' % (label, tuple(want)),
                          '%s returns an array of shape %s; the documented shape is %s' % (label, tuple(v.shape), tuple(want)), f.loc())
                n_ok += ok
    return n_ok
