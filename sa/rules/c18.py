"""C18 -- segmented apertures (narrow claim: lock-step bookkeeping, mask provenance, OPD confinement)."""
import ast

from ..core.db import AnalysisError, norm_stmt, walk_no_nested
from ..core.pattern import match_all, find

S = 'prysm.segmented.'


def _appends(body):
    """[(list name, arg node, stmt, depth-0?)] for X.append(arg) statements in a loop body (any nesting)."""
    out = []

    def rec(stmts, top):
        for st in stmts:
            if isinstance(st, ast.Expr) and isinstance(st.value, ast.Call) and isinstance(st.value.func, ast.Attribute) and st.value.func.attr == 'append' \
                    and isinstance(st.value.func.value, ast.Name):
                out.append((st.value.func.value.id, st.value.args[0], st, top))
            for fld in ('body', 'orelse'):
                sub = getattr(st, fld, None)
                if isinstance(sub, list) and sub and isinstance(sub[0], ast.stmt):
                    rec(sub, False)
    rec(body, True)
    return out


def _innermost_loop_with(fi, listname):
    best = None
    for n in walk_no_nested(fi.node):
        if isinstance(n, (ast.For, ast.While)):
            if any(a[0] == listname for a in _appends(n.body) if a[3]):
                best = n
    return best


def lockstep(run, fi, lists, mask_name, win_list, mask_list, subset_ok=False):
    lp = _innermost_loop_with(fi, win_list)
    if lp is None:
        raise AnalysisError('%s: per-segment loop (appending to %s) not found' % (fi.qual, win_list))
    aps = _appends(lp.body)
    seg = [a for a in aps if a[0] in lists]
    counts = {}
    for name, arg, st, top in seg:
        counts.setdefault(name, []).append((st, top))
    for name in lists:
        c = counts.get(name, [])
        run.check(len(c) == 1 and c[0][1], 'C18.lockstep', fi.qual, 'append to %s' % name, '%s is appended exactly once per segment, unconditionally' % name,
                  'per-segment list %s is appended %d time(s)%s in the segment loop: the lists go out of step' % (name, len(c), '' if all(t for _, t in c) else ' (conditionally)'), fi.loc(lp))
    if seg:
        first = min(a[2].lineno for a in seg)
        last = max(a[2].lineno for a in seg)
        jumps = [n for st in lp.body for n in ast.walk(st) if isinstance(n, (ast.Continue, ast.Break, ast.Return)) and first < n.lineno < last]
        run.check(not jumps, 'C18.lockstep', fi.qual, 'no early exit between appends', 'no continue/break/return between the first and the last per-segment append',
                  'a %s at line %d sits between the per-segment appends: some lists get the segment and others do not' % (type(jumps[0]).__name__.lower() if jumps else '', jumps[0].lineno if jumps else 0), fi.loc(lp))
    # the pair OR-ed into the global mask is the recorded pair
    ors = [st for st in lp.body if isinstance(st, ast.AugAssign) and isinstance(st.op, ast.BitOr) and isinstance(st.target, ast.Subscript) and ast.unparse(st.target.value) == mask_name]
    if len(ors) != 1:
        run.finding('C18.union', fi.qual, 'mask accumulation', 'the segment loop ORs %d masks into %s (expected exactly one per segment)' % (len(ors), mask_name), fi.loc(lp))
        return
    o = ors[0]
    w, m = ast.unparse(o.target.slice), ast.unparse(o.value)
    wa = [ast.unparse(a[1]) for a in seg if a[0] == win_list]
    ma = [ast.unparse(a[1]) for a in seg if a[0] == mask_list]
    run.check(wa == [w] and ma == [m], 'C18.union', fi.qual, 'recorded pair', 'the (window, mask) OR-ed into the aperture is the pair recorded for the segment',
              'the aperture gets %s[%s] |= %s but the lists record window %s and mask %s' % (mask_name, w, m, wa, ma), fi.loc(o))
    # neither name is rebound between the OR and its append
    for nm, lst in ((w, win_list), (m, mask_list)):
        ap = [a[2] for a in seg if a[0] == lst]
        if not ap:
            continue
        lo_, hi_ = sorted((o.lineno, ap[0].lineno))
        rebound = [st for st in lp.body if isinstance(st, ast.Assign) and lo_ < st.lineno < hi_ and nm in [x.id for t in st.targets for x in ast.walk(t) if isinstance(x, ast.Name)]]
        run.check(not rebound, 'C18.union', fi.qual, '%s stable' % nm, '%s is not rebound between the OR and the append' % nm, '%s is reassigned between being OR-ed into the aperture and being recorded' % nm, fi.loc(o))


def mask_writers(run, fi, mask_name, allowed):
    """Every write to the global mask has one of the allowed forms."""
    n_w = 0
    for n in walk_no_nested(fi.node):
        tgt = None
        if isinstance(n, ast.Assign):
            for t in n.targets:
                base = t.value if isinstance(t, ast.Subscript) else t
                if isinstance(base, ast.Name) and base.id == mask_name:
                    tgt = ('=', t, n)
        elif isinstance(n, ast.AugAssign):
            base = n.target.value if isinstance(n.target, ast.Subscript) else n.target
            if isinstance(base, ast.Name) and base.id == mask_name:
                tgt = (type(n.op).__name__, n.target, n)
        if tgt is None:
            continue
        n_w += 1
        op, t, st = tgt
        form = '%s%s' % ('sub' if isinstance(t, ast.Subscript) else 'whole', op)
        val = ast.unparse(st.value).replace(' ', '')
        sl = ast.unparse(t.slice).replace(' ', '') if isinstance(t, ast.Subscript) else None

        def accepts(v):
            if v is None:
                return True
            try:
                return v(val, sl)
            except TypeError:
                return v(val)
        ok = any(f == form and accepts(v) for f, v in allowed)
        run.check(ok, 'C18.union', fi.qual, norm_stmt(st), 'write to the aperture mask has an allowed form (%s)' % form,
                  'the aperture mask %s is written by `%s`, which is not a recorded-segment OR, the initial zero mask or the spider removal' % (mask_name, norm_stmt(st)), fi.loc(st))
    if n_w < 2:
        raise AnalysisError('%s: writes to %s not found' % (fi.qual, mask_name))


def confine(run, db, qual, zipped, center=None):
    """compose_opd, decided on what is added into the output: interpreted with tokens for the object's lists (loops over zipped lists run
    once), every write into the output must be an accumulation `out[w] += modes(base, c) * m` where (w, m) are the same segment's window and
    mask of the lock-stepped pair of lists `zipped` (or the centre pair), and every such pair is written."""
    from ..core.interp import Interp, Domain, Value, Const, Tup, Unknown, Obj, _Break, _Continue
    fi = db.func(qual)
    pairs = [tuple(z.replace('self.', '') for z in zipped)]
    if center:
        pairs.append(('center_window', 'center_mask'))

    class Tok(Value):
        def __init__(self, kind, *args):
            self.kind, self.args = kind, args

        def __repr__(self):
            return '%s(%s)' % (self.kind, ', '.join(map(repr, self.args)))

    class CDomain(Domain):
        def __init__(self):
            self.writes = []

        def param(self, fi_, name, default):
            if fi_ is fi and name != 'out':
                return Tok('param', name)
            return None

        def getattr(self, v, name, node):
            if isinstance(v, Obj):
                return Tok('attr', name)
            return None

        def call_prysm(self, fi_, args, kw, node):
            if fi_.name == 'sum_of_2d_modes':
                a = list(args) + [kw.get('modes'), kw.get('weights')]
                return Tok('tile', a[0], a[1])
            if fi_.module != fi.module:
                return Unknown(fi_.name)
            return None

        def call_ext(self, dotted, args, kwargs, node):
            last = dotted.rsplit('.', 1)[-1]
            if last in ('zeros_like', 'zeros', 'empty_like', 'empty') and dotted.startswith('numpy.'):
                return Tok('out')
            if dotted == 'builtins.zip' and args and any(isinstance(a, Tok) for a in args):
                return Tok('zip', list(args))
            if dotted in ('builtins.list', 'builtins.tuple') and args and isinstance(args[0], Tok):
                return args[0]
            return None

        def subscript(self, v, idx, node):
            if isinstance(v, Tok) and v.kind == 'out':
                return Tok('slot', v, idx)
            if isinstance(v, Tok) and v.kind in ('attr', 'param', 'part'):
                if type(idx).__name__ == 'Slice':
                    return Tok('part', v, idx)
                return Tok('item', v, idx)
            return None

        def binop(self, op, a, b, node):
            if isinstance(op, ast.Mult):
                for t_, m_ in ((a, b), (b, a)):
                    if isinstance(t_, Tok) and t_.kind == 'tile' and isinstance(m_, Tok) and m_.kind in ('elem', 'attr', 'item'):
                        return Tok('masked', t_, m_)
            if isinstance(op, ast.Add) and isinstance(a, Tok) and a.kind == 'slot':
                return Tok('sum', a, b)
            if isinstance(op, ast.Add) and isinstance(b, Tok) and b.kind == 'slot':
                return Tok('sum', b, a)
            return None

        def store_subscript(self, target, idx, val, node):
            if isinstance(target, Tok) and target.kind == 'out':
                if isinstance(val, Tok) and val.kind == 'sum' and val.args[0].args[0] is target and same_tok(val.args[0].args[1], idx):
                    self.writes.append(('add', idx, val.args[1], node))
                else:
                    self.writes.append(('set', idx, val, node))
            return True

        def method(self, v, name, args, kwargs, node):
            return None

        def loop(self, node, frame):
            if not isinstance(node, ast.For):
                return False
            src = self.interp.ev(node.iter, frame)
            if isinstance(src, Tok) and src.kind == 'zip' and isinstance(node.target, ast.Tuple) and len(node.target.elts) == len(src.args[0]):
                for e_, m_ in zip(node.target.elts, src.args[0]):
                    self.interp.assign(e_, Tok('elem', m_, id(node)) if isinstance(m_, Tok) else Unknown('entry of a concrete list zipped with the object\'s lists'), frame, node)
            elif isinstance(src, Tok) and src.kind in ('attr', 'part', 'param'):
                self.interp.assign(node.target, Tok('elem', src, id(node)), frame, node)
            else:
                return False
            try:
                self.interp.exec_block(node.body, frame)
            except (_Break, _Continue):
                pass
            return True

    def same_tok(a, b):
        if a is b:
            return True
        if isinstance(a, Tok) and isinstance(b, Tok) and a.kind == b.kind and len(a.args) == len(b.args):
            return all(same_tok(x_, y_) if isinstance(x_, Value) else x_ == y_ for x_, y_ in zip(a.args, b.args))
        if isinstance(a, Const) and isinstance(b, Const):
            return a.v == b.v
        return False

    def lname(t):
        """the attribute a window / mask token comes from, and the loop it is an element of (None: used directly)"""
        if isinstance(t, Tok) and t.kind == 'elem':
            src = t.args[0]
            while isinstance(src, Tok) and src.kind == 'part':
                src = src.args[0]
            return (src.args[0] if isinstance(src, Tok) and src.kind == 'attr' else None), t.args[1]
        if isinstance(t, Tok) and t.kind == 'attr':
            return t.args[0], None
        return None, None

    def part_of(t):
        """which part of its list an element token walks over ('' = the whole list)"""
        out = []
        src = t.args[0] if isinstance(t, Tok) and t.kind == 'elem' else None
        while isinstance(src, Tok) and src.kind == 'part':
            sl = src.args[1]
            out.append('[%r:%r:%r]' % (getattr(sl, 'lo', None), getattr(sl, 'hi', None), getattr(sl, 'step', None)))
            src = src.args[0]
        return ''.join(out)

    dom = CDomain()
    it = Interp(db, dom)
    ci = db.cls(qual.rsplit('.', 1)[0])
    out_tok = Tok('out')
    res = it.run(fi, kwargs=lambda: {'out': out_tok}, self_obj=lambda: Obj(ci))
    rets = [p_ for p_ in res if p_.outcome == 'return']
    if not rets:
        raise AnalysisError('%s: no returning path' % qual)
    writes = {}
    for w in dom.writes:
        writes[(id(w[3]), w[0], lname(w[1])[0], repr(w[2])[:200])] = w
    if not writes:
        raise AnalysisError('%s: no write into the output array is followed' % qual)
    done = set()
    for kind, win, val, node in writes.values():
        wl, wloop = lname(win)
        key = 'write `%s`' % norm_stmt(node)[:50]
        if kind != 'add':
            run.check(False, 'C18.confine', fi.qual, key, '', "the output is ASSIGNED at a segment's window instead of being added to: whatever earlier segments (or the caller's `out`) put there is lost", fi.loc(node))
            continue
        if isinstance(val, Tok) and val.kind == 'tile':
            run.check(False, 'C18.confine', fi.qual, key, '', "the tile is added into the window without being multiplied by the segment's mask: the modes spill over the whole bounding box of the segment", fi.loc(node))
            continue
        if not (isinstance(val, Tok) and val.kind == 'masked'):
            raise AnalysisError('%s: what is added into the output at `%s` is not followed (%r)' % (qual, norm_stmt(node), val))
        tile, m = val.args
        ml, mloop = lname(m)
        if wl is None or ml is None:
            raise AnalysisError('%s: window / mask of `%s` are not followed to the object\'s lists (%r, %r)' % (qual, norm_stmt(node), win, m))
        ok = (wl, ml) in pairs and wloop == mloop and part_of(win) == part_of(m)
        if ok and wloop is not None:
            b_, c_ = tile.args
            ok = all(isinstance(z, Tok) and z.kind == 'elem' and z.args[1] == wloop for z in (b_, c_))
        if ok:
            done.add((wl, ml))
        run.check(ok, 'C18.confine', fi.qual, key, "the tile of a segment is multiplied by the segment's own mask (%s) and added into its own window (%s), all taken from one pass over the zipped lists" % (ml, wl),
                  "the tile built from %r is multiplied by an entry of %s and added into a window from %s (%s): the composed OPD of a segment is not confined to that segment"
                  % (tile.args[0], ml + part_of(m), wl + part_of(win), 'different loops' if wloop != mloop else 'not the same entries of a lock-stepped pair; expected one of %s' % pairs), fi.loc(node))
    missing = [p_ for p_ in pairs if p_ not in done]
    run.check(not missing, 'C18.confine', fi.qual, 'every segment family composed', 'every (window, mask) family of the aperture is accumulated: %s' % pairs,
              'nothing is accumulated through %s (the centre segment / the keystones are left out, or overwritten instead of added)' % missing, fi.loc())
    for p_ in rets:
        if p_.value is not out_tok and not (isinstance(p_.value, Tok) and p_.value.kind == 'out'):
            raise AnalysisError('%s: the returned value is not the output array on path %s' % (qual, p_.conds))


def separable_rules(run, db):
    """optimize_xy_separable (used by the rectangle / offset circle / gaussian primitives): x stays the COLUMN coordinate and
    y the ROW coordinate, for meshgrid input and for 1-D axis vectors."""
    from ..core.interp import Interp
    from ..domains.shape import ShapeDomain, Sh
    f = db.func('prysm.coordinates.optimize_xy_separable')
    for label, xin, yin, want in (('2-D meshgrids (M, N)', Sh(('M', 'N')), Sh(('M', 'N')), (('N',), ('M', 1))), ('1-D axis vectors (N,), (M,)', Sh(('N',)), Sh(('M',)), ((1, 'N'), ('M', 1)))):
        dom = ShapeDomain({})
        it = Interp(db, dom)
        res = [p for p in it.run(f, kwargs=lambda: {'x': xin, 'y': yin}) if p.outcome == 'return']
        if not res:
            raise AnalysisError('optimize_xy_separable: no returning path (%s)' % label)
        for p in res:
            v = p.value
            got = tuple(x_.dims if isinstance(x_, Sh) else None for x_ in v.items) if hasattr(v, 'items') and len(v.items) == 2 else None
            run.check(got == want, 'C18.boundary', f.qual, 'separable axes: ' + label, 'x varies along the last axis (columns), y along the first (rows): shapes %s [%s]' % (want, label),
                      'optimize_xy_separable returns shapes %s for %s, expected %s: x and y exchange roles (the masks of the primitives built on it come out transposed)' % (got, label, want), f.loc())


def _keystone_roles(fk):
    """{key of the returned dictionaries: local name}"""
    rk = [n for n in walk_no_nested(fk.node) if isinstance(n, ast.Return)]
    if len(rk) != 1:
        raise AnalysisError('keystone aperture: single return not found')
    krole = {}
    for dnode in [n for n in ast.walk(rk[0].value) if isinstance(n, ast.Dict)]:
        for k_, v_ in zip(dnode.keys, dnode.values):
            if isinstance(k_, ast.Constant) and isinstance(v_, ast.Name):
                krole[k_.value] = v_.id
    return krole


def band_rules(run, db):
    """Keystone rings: the radial band of a ring is half-open, so that with zero radial gap a sample exactly on a shared ring radius
    belongs to one ring only.  One pass of the ring loop is interpreted with masks as predicates over the radial / azimuthal grids;
    the radial extent of the mask recorded for a segment is judged (the azimuthal conjuncts are left free)."""
    from ..core.interp import Interp, Value, Const, Tup, Unknown, _Break, _Continue
    from ..core.norm import Rat
    from ..domains.normdom import install_pi, Sym
    from ..domains.pred import PredDomain, Pred, eval_pred
    from .common import loop_as_function
    fk = db.func(S + '_composite_keystone_aperture')
    MASKS = _keystone_roles(fk).get('masks')
    if MASKS is None:
        raise AnalysisError("keystone aperture: the returned dictionary has no 'masks' entry")
    appended = lambda st: {ast.unparse(c_.func.value) for c_ in ast.walk(st) if isinstance(c_, ast.Call) and isinstance(c_.func, ast.Attribute) and c_.func.attr == 'append' and isinstance(c_.func.value, ast.Name)}
    rings = [st for st in fk.node.body if isinstance(st, ast.For) and MASKS in appended(st)]
    if len(rings) != 1:
        raise AnalysisError('keystone aperture: ring loop not found')
    ring = rings[0]
    lists = appended(ring)
    # the radial grid: first result of cart_to_polar (or a hypot of the grids)
    RAD = None
    for n in walk_no_nested(fk.node):
        if isinstance(n, ast.Assign) and isinstance(n.value, ast.Call):
            fn = ast.unparse(n.value.func)
            if fn.endswith('cart_to_polar') and isinstance(n.targets[0], ast.Tuple) and isinstance(n.targets[0].elts[0], ast.Name):
                RAD = n.targets[0].elts[0].id
            elif fn.endswith('hypot') and isinstance(n.targets[0], ast.Name):
                RAD = n.targets[0].id
    if RAD is None:
        raise AnalysisError('keystone aperture: the radial grid (cart_to_polar / hypot of the coordinate grids) was not found')
    lf, params = loop_as_function(fk, ring, [MASKS])

    class Win(Value):
        pass

    class BDomain(PredDomain):
        def __init__(self):
            PredDomain.__init__(self, coords=(RAD,))

        def _coord(self, name):
            import re as _re
            if name not in self.coords:
                self.coords.add(name)
                self._rx = _re.compile(r'(?<![A-Za-z0-9_])(%s)(?![A-Za-z0-9_])' % '|'.join(sorted(self.coords)))

        def call_prysm(self, fi_, args, kw, node):
            if fi_.name == '_local_window':
                return Win()
            if fi_.module is not fk.module and not any(isinstance(a, Sym) and a.r.key() == RAD for a in list(args) + list(kw.values())):
                return Unknown(fi_.name)
            return None

        def subscript(self, v, idx, node):
            if isinstance(idx, Win):
                if isinstance(v, Sym):
                    self._coord(v.r.key())
                    return v
                return Unknown('window of %r' % (v,))
            if isinstance(v, Sym):
                return Unknown('entry')
            return PredDomain.subscript(self, v, idx, node)

        def loop(self, node, frame):
            if isinstance(node, ast.While):
                return True          # angle unwinding: zero turns
            for leaf in ast.walk(node.target):
                if isinstance(leaf, ast.Name) and isinstance(leaf.ctx, ast.Store):
                    frame.env[leaf.id] = self.sym(leaf.id)
            try:
                self.interp.exec_block(node.body, frame)
            except (_Break, _Continue):
                pass
            return True

        def truth(self, v):
            if isinstance(v, Pred):
                return None
            return PredDomain.truth(self, v)

        def store_subscript(self, target, idx, val, node):
            return True

        def isinstance(self, v, names):
            return None if not isinstance(v, Sym) else PredDomain.isinstance(self, v, names)

    dom = BDomain()
    it = install_pi(Interp(db, dom))
    it.MAX_PATHS = max(getattr(it, 'MAX_PATHS', 0), 4000)
    res = it.run(lf, kwargs=lambda: {p_: (Tup([], 'list') if p_ in lists else dom.sym(p_)) for p_ in params})
    preds = []
    for p_ in res:
        if p_.outcome != 'return':
            continue
        lst = p_.value.items[0]
        if isinstance(lst, Tup):
            preds += [m_ for m_ in lst.items]
    if not preds:
        raise AnalysisError('keystone aperture: no segment mask reaches the end of a pass over the ring loop')
    R = dom.R
    zero, one = Rat(R.const(0)), Rat(R.const(1))

    def radial_cmps(p):
        if p.kind == 'cmp':
            return [p] if RAD in {a_ for a_ in _atoms(p.args[1])} else []
        if p.kind == 'const':
            return []
        return [c_ for a_ in p.args for c_ in radial_cmps(a_)]

    def _atoms(r):
        import re as _re
        return set(_re.findall(r'[A-Za-z_][A-Za-z0-9_]*', r.key()))

    def _cmps(p):
        if p.kind == 'cmp':
            return [p]
        if p.kind == 'const':
            return []
        return [c_ for a_ in p.args for c_ in _cmps(a_)]

    def ev(p, subst, positive):
        """exists-azimuth truth of the mask at one radius: comparisons that do not involve the radius are free"""
        if p.kind == 'const':
            return bool(p.args[0])
        if p.kind == 'cmp':
            if RAD not in _atoms(p.args[1]):
                return 'free'
            return eval_pred(p, subst, positive)
        vals = [ev(a_, subst, positive) for a_ in p.args]
        if p.kind == 'not':
            return vals[0] if vals[0] in ('free', None) else (not vals[0])
        if p.kind == 'and':
            if any(v_ is False for v_ in vals):
                return False
            return None if any(v_ is None for v_ in vals) else True
        if p.kind == 'or':
            if any(v_ is True or v_ == 'free' for v_ in vals):
                return True
            return None if any(v_ is None for v_ in vals) else False
        return None
    judged = {}
    for m in preds:
        if not isinstance(m, Pred):
            continue
        cm = radial_cmps(m)
        thr = {}
        for c_ in cm:
            d = c_.args[1]
            d0, d1 = d.subs({RAD: zero}), d.subs({RAD: one})
            k = d1 - d0
            if k.is_zero():
                continue
            t_ = (zero - d0) / k
            thr[t_.key()] = t_
        if len(thr) != 2:
            raise AnalysisError('keystone aperture: the radial extent of a segment mask does not have two boundary radii (%s)' % sorted(thr))
        a, b = list(thr.values())
        positive = (_atoms(a) | _atoms(b)) - {RAD}
        lt = eval_pred(Pred('cmp', ('<0', a - b)), {}, positive)
        if lt is None:
            raise AnalysisError('keystone aperture: cannot order the two boundary radii %s and %s' % (a.key(), b.key()))
        inner, outer = (a, b) if lt else (b, a)
        at_in, at_out, mid = [ev(m, {RAD: r_}, positive) for r_ in (inner, outer, (inner + outer) / 2)]
        if at_in is None or at_out is None or mid is None:
            raise AnalysisError('keystone aperture: could not evaluate the segment mask %s on its boundary radii' % m.key()[:200])
        judged[m.key()] = (mid, at_in, at_out, inner, outer, m)
    if not judged:
        raise AnalysisError('keystone aperture: no segment mask is a predicate over the radial grid (%r)' % (preds[:1],))
    bad = [v_ for v_ in judged.values() if not (v_[0] is True and not (v_[1] is True and v_[2] is True))]
    run.check(not bad, 'C18.band', fk.qual, 'ring band', 'the mask of a keystone segment contains the interior of its ring and at most one of the two boundary radii (half-open band), on each of %d paths' % len(judged),
              'the mask of a keystone segment contains BOTH r = %s and r = %s%s: with radial_gap == 0 a sample exactly on the radius shared by two rings belongs to a segment of each ring (two segments claim one sample)'
              % ((bad[0][3].key(), bad[0][4].key(), '' if bad[0][0] else ' / misses its interior') if bad else ('', '', '')), fk.loc(ring))

    # ---- the angular sector of a segment --------------------------------------------------------------------------------------------------
    # The azimuth grid holds angles in (-pi, pi]; a segment spans lo < theta < hi with hi possibly beyond +pi.  The code touches lo, hi and
    # the grid only through comparisons and shifts by 2 pi, so its result depends only on how lo, hi, pi, hi - 2 pi and the sample's angle
    # are ordered: one representative per ordering decides it.  The pass over the loop is interpreted again with the angle of the segment
    # and the number of segments set to a representative of each regime (sector below +pi, straddling the cut, wholly beyond it), every
    # branch is then decided, and the mask (a predicate over radius and azimuth) is evaluated at 48 azimuths strictly between the
    # multiples of pi/24, at the mid radius of the band: a sample belongs to the sector iff lo < t + 2 pi k < hi for some k.
    TH = None
    for n in walk_no_nested(fk.node):
        if isinstance(n, ast.Assign) and isinstance(n.value, ast.Call):
            fn = ast.unparse(n.value.func)
            if fn.endswith('cart_to_polar') and isinstance(n.targets[0], ast.Tuple) and len(n.targets[0].elts) == 2 and isinstance(n.targets[0].elts[1], ast.Name):
                TH = n.targets[0].elts[1].id
            elif fn.endswith('arctan2') and isinstance(n.targets[0], ast.Name):
                TH = n.targets[0].id
    if TH is None:
        raise AnalysisError('keystone aperture: the azimuth grid (cart_to_polar / arctan2 of the coordinate grids) was not found')
    inner_loops = [st for st in ast.walk(ring) if isinstance(st, ast.For) and st is not ring and MASKS in appended(st) and isinstance(st.target, ast.Name)]
    if len(inner_loops) != 1:
        raise AnalysisError('keystone aperture: the loop over the segments of a ring was not found')
    ANG = inner_loops[0].target.id
    ang_atoms = set()
    for m in preds:
        if isinstance(m, Pred):
            for c_ in _cmps(m):
                at = _atoms(c_.args[1])
                if TH in at:
                    ang_atoms |= at
    others = ang_atoms - {TH, ANG, 'pi', 'I'}
    if ANG not in ang_atoms or len(others) != 1:
        raise AnalysisError('keystone aperture: the angular extent of a segment mask is not a function of the segment angle and one count (%s)' % sorted(ang_atoms))
    NSEG = others.pop()
    F = __import__('fractions').Fraction

    class SDomain(BDomain):
        regime = {}

        def loop(self, node, frame):
            if isinstance(node, ast.While):
                return True
            for leaf in ast.walk(node.target):
                if isinstance(leaf, ast.Name) and isinstance(leaf.ctx, ast.Store):
                    frame.env[leaf.id] = self.regime[leaf.id]() if leaf.id in self.regime else self.sym(leaf.id)
            try:
                self.interp.exec_block(node.body, frame)
            except (_Break, _Continue):
                pass
            return True

        def compare(self, op, a, b, node):
            r_ = BDomain.compare(self, op, a, b, node)
            if r_ is None and not isinstance(a, Pred) and not isinstance(b, Pred):
                ra, rb = self.rat(a), self.rat(b)
                if ra is not None and rb is not None:
                    d = ra - rb
                    if d.den.is_const() and d.num.t and all(m_ and all(a_ == 'pi' for a_, _ in m_) for m_ in d.num.t) and len({c_ > 0 for c_ in d.num.t.values()}) == 1:
                        # a sum of positive powers of pi with coefficients of one sign has that sign
                        sg = (1 if list(d.num.t.values())[0] > 0 else -1) * (1 if d.den.const_value() > 0 else -1)
                        import operator
                        return {ast.Eq: operator.eq, ast.NotEq: operator.ne, ast.Lt: operator.lt, ast.LtE: operator.le, ast.Gt: operator.gt, ast.GtE: operator.ge}[type(op)](sg, 0)
            return r_
    n_sector = 0
    for nseg, c_lo, what in ((4, F(-1, 4), 'below +pi'), (4, F(1, 2), 'ending at +pi'), (4, F(3, 4), 'straddling the cut'), (4, F(1), 'starting at +pi'), (4, F(5, 4), 'beyond +pi'),
                             (3, F(2, 3), 'straddling the cut'), (3, F(-1), 'starting at -pi'), (8, F(7, 8), 'straddling the cut'), (8, F(13, 8), 'beyond +pi')):
        sdom = SDomain()
        sdom._coord(TH)
        sit = install_pi(Interp(db, sdom))
        sit.MAX_PATHS = 4000
        sdom.regime = {ANG: (lambda c_lo=c_lo, sdom=sdom: sdom.lift(Rat(sdom.R.atom('pi')) * c_lo)), NSEG: (lambda nseg=nseg: Const(nseg))}
        kw = {p_: (Tup([], 'list') if p_ in lists else (sdom.regime[p_]() if p_ in sdom.regime else sdom.sym(p_))) for p_ in params}
        res = [p_ for p_ in sit.run(lf, kwargs=lambda: dict(kw)) if p_.outcome == 'return']
        masks = []
        for p_ in res:
            lst = p_.value.items[0]
            if isinstance(lst, Tup):
                masks += [m_ for m_ in lst.items]
        label = 'sector of %d per ring from %s pi (%s)' % (nseg, c_lo, what)
        if len(masks) != 1 or not isinstance(masks[0], Pred):
            raise AnalysisError('keystone aperture, %s: expected one segment mask that is a predicate over the grids, got %r' % (label, masks[:2]))
        m = masks[0]
        thr = {}
        for c_ in radial_cmps(m):
            d = c_.args[1]
            d0, d1 = d.subs({RAD: zero}), d.subs({RAD: one})
            k = d1 - d0
            if not k.is_zero():
                t_ = (zero - d0) / k
                thr[t_.key()] = t_
        if len(thr) != 2:
            raise AnalysisError('keystone aperture, %s: the mask does not have two boundary radii' % label)
        a, b = list(thr.values())
        positive = ((_atoms(a) | _atoms(b)) - {RAD}) | {'pi'}
        lo_, hi_ = c_lo, c_lo + F(2, nseg)
        wrong = []
        undecided = 0
        for j in range(48):
            t = F(-1) + F(2 * j + 1, 48)
            want = any(lo_ < t + 2 * k_ < hi_ for k_ in (-1, 0, 1, 2))
            got = eval_pred(m, {RAD: (a + b) / 2, TH: Rat(sdom.R.atom('pi')) * t}, positive)
            if got is None:
                undecided += 1
            elif got != want:
                wrong.append((t, want, got))
        if undecided:
            raise AnalysisError('keystone aperture, %s: the mask %s is not decided at %d of 48 azimuths' % (label, m.key()[:160], undecided))
        n_sector += 1
        run.check(not wrong, 'C18.sector', fk.qual, label, '%s: the mask holds exactly the azimuths t in (-pi, pi] with lo < t + 2 pi k < hi, at 48 azimuths between the multiples of pi/24' % label,
                  '%s (lo = %s pi, hi = %s pi): at azimuth %s pi the mask is %s, the sector %s it (%d of 48 azimuths differ): samples of the segment between lo and +pi, or beyond the cut, are lost or gained'
                  % ((label, lo_, hi_, wrong[0][0], 'set' if wrong[0][2] else 'clear', 'contains' if wrong[0][1] else 'does not contain', len(wrong)) if wrong else (label, lo_, hi_, '', '', '', 0)), fk.loc(inner_loops[0]))


def corner_rules(run, db):
    """Keystone windows: the local window of a segment is the bounding box of a list of polar points.  The list must hold the two
    inner corners, the two outer corners and the apex of the outer arc (outer radius, middle azimuth): a sector is convex along its
    outer arc, so without the apex the arc's bulge falls outside the window and the recorded mask is truncated.  Decided on the list
    of (radius, azimuth) pairs as built (tuple literals, names of tuples, zip of tuples with + and * int), not on how it is spelt."""
    fk = db.func(S + '_composite_keystone_aperture')

    def refuse(msg):
        raise AnalysisError('keystone aperture, corner points: ' + msg)

    rings = [st for st in fk.node.body if isinstance(st, ast.For)]
    sites = []
    for ring in rings:
        for seg in [n for n in walk_no_nested(ring) if isinstance(n, ast.For) and n is not ring]:
            for st in seg.body:
                if (isinstance(st, ast.Assign) and isinstance(st.value, ast.Call) and ast.unparse(st.value.func).endswith('polar_to_cart')
                        and isinstance(st.targets[0], ast.Tuple) and len(st.targets[0].elts) == 2 and all(isinstance(e, ast.Name) for e in st.targets[0].elts)
                        and len(st.value.args) == 2 and not st.value.keywords):
                    sites.append((ring, seg, st))

    # the two Cartesian lists are what the window is the bounding box of: both reach min(...) and max(...) (directly, or as the
    # argument of a module-level helper that takes min and max of its parameter) before they are rebound
    def extremes(seg, pos, name):
        got = set()
        for later in seg.body[pos + 1:]:
            for c_ in ast.walk(later):
                if isinstance(c_, ast.Call) and len(c_.args) == 1 and isinstance(c_.args[0], ast.Name) and c_.args[0].id == name:
                    fn = ast.unparse(c_.func)
                    if fn in ('min', 'max', 'np.min', 'np.max', 'np.amin', 'np.amax'):
                        got.add(fn[-3:])
                    else:
                        try:
                            h = db.func(fk.module.name + '.' + fn) if hasattr(fk.module, 'name') else None
                        except Exception:
                            h = None
                        if h is not None and len(h.node.args.args) == 1:
                            prm = h.node.args.args[0].arg
                            for d_ in ast.walk(h.node):
                                if isinstance(d_, ast.Call) and ast.unparse(d_.func) in ('min', 'max') and len(d_.args) == 1 and ast.unparse(d_.args[0]) == prm:
                                    got.add(ast.unparse(d_.func))
            if any(isinstance(t_, ast.Name) and t_.id == name and isinstance(t_.ctx, ast.Store) for t_ in ast.walk(later)):
                break
        return got
    sites = [(ring, seg, st) for ring, seg, st in sites
             if all(extremes(seg, seg.body.index(st), e.id) == {'min', 'max'} for e in st.targets[0].elts)]
    if len(sites) != 1:
        refuse('expected one conversion x, y = polar_to_cart(radii, azimuths) in the per-segment loop whose results are read through min and max (the bounding box of the window); found %d' % len(sites))
    ring, seg, st = sites[0]
    pos = seg.body.index(st)

    # single assignments in the per-segment loop, before the conversion
    def binding(name, before):
        vals = [b.value for b in seg.body[:before] if isinstance(b, ast.Assign) and len(b.targets) == 1 and isinstance(b.targets[0], ast.Name) and b.targets[0].id == name]
        return vals[-1] if vals else None

    def seq(e, depth=0):
        """a python / numpy sequence expression as a list of element expressions"""
        if depth > 24:
            refuse('sequence expression nested too deep')
        if isinstance(e, (ast.List, ast.Tuple)):
            if any(isinstance(x_, ast.Starred) for x_ in e.elts):
                refuse('starred element in %s' % ast.unparse(e))
            return list(e.elts)
        if isinstance(e, ast.Name):
            b = binding(e.id, pos)
            if b is None:
                refuse('%s is not bound by a plain assignment in the per-segment loop' % e.id)
            return seq(b, depth + 1)
        if isinstance(e, ast.Call):
            fn = ast.unparse(e.func)
            if fn in ('np.array', 'np.asarray', 'list', 'tuple') and len(e.args) == 1 and not e.keywords:
                return seq(e.args[0], depth + 1)
            if fn == 'zip' and e.args and not e.keywords:
                cols = [seq(a_, depth + 1) for a_ in e.args]
                n = min(len(c_) for c_ in cols)          # zip stops at the shortest
                return [ast.Tuple(elts=[c_[i] for c_ in cols], ctx=ast.Load()) for i in range(n)]
        if isinstance(e, ast.BinOp) and isinstance(e.op, ast.Add):
            return seq(e.left, depth + 1) + seq(e.right, depth + 1)
        if isinstance(e, ast.BinOp) and isinstance(e.op, ast.Mult):
            for a_, b_ in ((e.left, e.right), (e.right, e.left)):
                if isinstance(b_, ast.Constant) and isinstance(b_.value, int) and not isinstance(b_.value, bool):
                    return seq(a_, depth + 1) * b_.value
        refuse('cannot read %s as a list of points' % ast.unparse(e)[:120])

    def atom(e):
        if isinstance(e, ast.Name):
            b = binding(e.id, pos)
            # a name of a tuple (c1 = (inner_radius, lo)) is the tuple; a name of a number is itself
            if isinstance(b, (ast.Tuple, ast.List)):
                return e
            return e.id
        refuse('corner coordinate %s is not a plain name' % ast.unparse(e)[:80])

    def column(e):
        """arr[:, k] of an array of pairs -> (pairs expression, k)"""
        if (isinstance(e, ast.Subscript) and isinstance(e.slice, ast.Tuple) and len(e.slice.elts) == 2 and isinstance(e.slice.elts[0], ast.Slice)
                and e.slice.elts[0].lower is None and e.slice.elts[0].upper is None and e.slice.elts[0].step is None
                and isinstance(e.slice.elts[1], ast.Constant) and e.slice.elts[1].value in (0, 1)):
            return e.value, e.slice.elts[1].value
        return None

    def resolve(e):
        if isinstance(e, ast.Name):
            b = binding(e.id, pos)
            if b is not None and column(b) is not None:
                return b
        return e
    ra, ta = resolve(st.value.args[0]), resolve(st.value.args[1])
    ca, cb = column(ra), column(ta)
    if ca is not None and cb is not None:
        if ast.unparse(ca[0]) != ast.unparse(cb[0]) or (ca[1], cb[1]) != (0, 1):
            refuse('radii and azimuths are not columns 0 and 1 of one array of points')
        pts = []
        for el in seq(ca[0]):
            if isinstance(el, ast.Name):
                b = binding(el.id, pos)
                if not isinstance(b, (ast.Tuple, ast.List)):
                    refuse('point %s is not bound to a pair' % el.id)
                el = b
            if not isinstance(el, (ast.Tuple, ast.List)) or len(el.elts) != 2:
                refuse('point %s is not a pair' % ast.unparse(el)[:80])
            pts.append((atom(el.elts[0]), atom(el.elts[1])))
    elif ca is None and cb is None:
        rs, ts = seq(ra), seq(ta)
        if len(rs) != len(ts):
            refuse('the list of radii and the list of azimuths differ in length (%d, %d)' % (len(rs), len(ts)))
        pts = [(atom(a_), atom(b_)) for a_, b_ in zip(rs, ts)]
    else:
        refuse('radii and azimuths are not given in the same form')
    if any(not isinstance(a_, str) or not isinstance(b_, str) for a_, b_ in pts):
        refuse('a corner coordinate is itself a sequence')
    P = set(pts)
    radii = sorted({a_ for a_, _ in P})
    angles = sorted({b_ for _, b_ in P})
    if len(radii) != 2:
        refuse('the corner points do not lie on two radii (%s)' % radii)
    # which radius is the outer one: the one computed, later in the ring pass, as the other plus the radial width
    def ring_assign(name):
        out = [(i, b.value) for i, b in enumerate(ring.body) if isinstance(b, ast.Assign) and len(b.targets) == 1 and isinstance(b.targets[0], ast.Name) and b.targets[0].id == name]
        return out[-1] if len(out) == 1 else None
    A, B = ring_assign(radii[0]), ring_assign(radii[1])
    if A is None or B is None:
        refuse('the two radii %s are not each assigned once in the pass over a ring' % radii)
    (later_i, later_v), later_n, earlier_n = (B, radii[1], radii[0]) if B[0] > A[0] else (A, radii[0], radii[1])
    if not (isinstance(later_v, ast.BinOp) and isinstance(later_v.op, ast.Add) and earlier_n in {n.id for n in ast.walk(later_v) if isinstance(n, ast.Name)}
            and not any(isinstance(n, (ast.Sub, ast.USub)) for n in ast.walk(later_v))):
        refuse('cannot tell the outer radius from the inner one (%s is not %s plus a width)' % (later_n, earlier_n))
    OUTER, INNER = later_n, earlier_n
    # which azimuth is the middle one: the name that the segment pass computes from an azimuth of the list (whether or not it is in the list)
    mids = []
    for b in seg.body[:pos]:
        if isinstance(b, ast.Assign) and len(b.targets) == 1 and isinstance(b.targets[0], ast.Name) and isinstance(b.value, ast.BinOp) and not any(isinstance(n, (ast.Tuple, ast.List, ast.Call)) for n in ast.walk(b.value)):
            a_ = b.targets[0].id
            if {n.id for n in ast.walk(b.value) if isinstance(n, ast.Name)} & (set(angles) - {a_}) and a_ not in mids:
                mids.append(a_)
    angles = sorted(set(angles) | set(mids))
    if len(mids) != 1 or len(angles) != 3:
        refuse('cannot tell the two edge azimuths and the middle azimuth apart (azimuths %s, computed from another: %s)' % (angles, mids))
    MID = mids[0]
    edges = [a_ for a_ in angles if a_ != MID]
    want = {(OUTER, MID)} | {(r_, a_) for r_ in (INNER, OUTER) for a_ in edges}
    missing = sorted(want - P)
    run.check(not missing, 'C18.corners', fk.qual, 'window corner points',
              'the window of a keystone segment is the bounding box of its four corners and the apex of its outer arc: %s' % sorted(P),
              'the window of a keystone segment is the bounding box of %s only: the point%s %s %s missing, so the part of the annular sector beyond the box of the remaining points (the bulge of the outer arc) lies outside the window and is cut from the segment mask and from the aperture'
              % (sorted(P), '' if len(missing) == 1 else 's', ', '.join('(%s, %s)' % m_ for m_ in missing), 'is' if len(missing) == 1 else 'are'), fk.loc(st))


def mask_memo_rules(run, db):
    """Segment masks are rasterised per segment; if a builder memoises them, the key must determine the whole local grid."""
    from .purity import local_memo_completeness
    for q in (S + '_composite_hexagonal_aperture', S + '_composite_keystone_aperture'):
        fi = db.func(q)
        res = local_memo_completeness(fi)
        for st, memo, bad in res:
            run.check(not bad, 'C18.union', fi.qual, 'memo %s' % memo, 'the memo %s is keyed by everything that varies from segment to segment in what it stores' % memo,
                      'the memo %s stores a value computed from %s, which changes from segment to segment but is not determined by the key: a later segment re-uses the mask rasterised for an earlier one on a '
                      'different local grid (boundary samples on the wrong side of the segment edge; neighbouring segments can overlap)' % (memo, bad), fi.loc(st))
        if not res:
            run.ok('C18.union', fi.qual, 'segment masks are rasterised per segment (no in-function memo)')


def _hex_roles_map(db):
    """{role (attribute the constructor stores it as): local name in the builder} from the positions of the returned tuple."""
    fh = db.func(S + '_composite_hexagonal_aperture')
    fc = db.func(S + 'CompositeHexagonalAperture.__init__')
    unp = [n for n in walk_no_nested(fc.node) if isinstance(n, ast.Assign) and isinstance(n.value, ast.Call) and ast.unparse(n.value.func) == '_composite_hexagonal_aperture']
    rets = [n for n in walk_no_nested(fh.node) if isinstance(n, ast.Return)]
    if len(unp) != 1 or len(rets) != 1 or not isinstance(rets[0].value, ast.Tuple) or not isinstance(unp[0].targets[0], ast.Tuple) or len(unp[0].targets[0].elts) != len(rets[0].value.elts):
        raise AnalysisError('hexagonal aperture: constructor unpack / return not found or of different length')
    return {ast.unparse(t).replace('self.', ''): ast.unparse(r) for t, r in zip(unp[0].targets[0].elts, rets[0].value.elts)}


def ids_rules(run, db):
    """Hexagonal aperture: ring i is numbered after ALL ids of ring i-1, whatever is excluded.  One pass of the ring loop is interpreted
    with symbolic sequence lengths: the ring has H segments, its ids are an arithmetic run, filtering by a mask gives an unknown length."""
    from .common import loop_carried, loop_as_function, norm_interp
    from ..core.interp import Value, Const, Tup, Unknown, _Break, _Continue
    from ..core.norm import Rat
    from ..domains.normdom import NormDomain, Sym
    fh = db.func(S + '_composite_hexagonal_aperture')
    hrole = _hex_roles_map(db)
    IDL = hrole.get('segment_ids')
    per_seg = [hrole.get(k_) for k_ in ('all_centers', 'windows', 'local_coords', 'local_masks', 'segment_ids')]
    if IDL is None:
        raise AnalysisError('hexagonal aperture: the constructor stores no segment_ids')
    appends_ids = lambda st: any(isinstance(c_, ast.Call) and isinstance(c_.func, ast.Attribute) and c_.func.attr == 'append' and ast.unparse(c_.func.value) == IDL for c_ in ast.walk(st))
    appenders = {st.name for st in fh.node.body if isinstance(st, ast.FunctionDef) and appends_ids(st)}          # local closures that record a segment
    calls_appender = lambda st: any(isinstance(c_, ast.Call) and isinstance(c_.func, ast.Name) and c_.func.id in appenders for c_ in ast.walk(st))
    rings = [st for st in fh.node.body if isinstance(st, ast.For) and (appends_ids(st) or calls_appender(st))]
    if len(rings) != 1:
        raise AnalysisError('hexagonal aperture: ring loop not found')
    ring = rings[0]
    carried = sorted(loop_carried(ring) - set(per_seg))
    if not carried:
        raise AnalysisError('hexagonal aperture: no counter is carried from ring to ring')
    lf, params = loop_as_function(fh, ring, carried + [IDL])

    class Seq(Value):
        """a sequence with `n` entries (Rat); `what`: 'ring' (the unfiltered ring or something computed from each of its entries) or 'ids'"""
        def __init__(self, n, what, lo=None):
            self.n, self.what, self.lo = n, what, lo

        def __repr__(self):
            return '%s[%s]' % (self.what, self.n.key() if self.n is not None else '?')

    class Mask(Value):
        def __init__(self, tok):
            self.tok = tok

    class Filt(Value):
        def __init__(self, base, mask):
            self.base, self.mask = base, mask

    class Zip(Value):
        def __init__(self, members):
            self.members = members

    class Elem(Value):
        def __init__(self, src, slot=None):
            self.src, self.slot = src, slot

    class IdDomain(NormDomain):
        def __init__(self):
            super().__init__()
            self.zips, self.runs = [], []

        def param(self, fi, name, default):
            return None

        def call_prysm(self, fi, args, kw, node):
            if fi.name == 'hex_ring':
                return Seq(Rat(self.R.atom('H')), 'ring')
            return Unknown(fi.name)

        def comprehension(self, node, frame):
            if len(node.generators) == 1 and not node.generators[0].ifs and not isinstance(node, ast.DictComp):
                src = self.interp.ev(node.generators[0].iter, frame)
                if isinstance(src, Seq):
                    return Seq(src.n, 'ring')
            return None

        def call_ext(self, dotted, args, kwargs, node):
            last = dotted.rsplit('.', 1)[-1]
            a0 = args[0] if args else None
            if last in ('array', 'asarray', 'list', 'tuple') and isinstance(a0, (Seq, Filt)):
                return a0
            if dotted == 'builtins.len' and isinstance(a0, Seq):
                return self.lift(a0.n)
            if dotted == 'builtins.len' and isinstance(a0, Filt):
                return Unknown('length after filtering')
            if last == 'arange' and len(args) >= 2:
                lo, hi = self.rat(args[0]), self.rat(args[1])
                if lo is None or hi is None:
                    r = Seq(None, 'ids', lo)
                else:
                    r = Seq(hi - lo, 'ids', lo)
                self.runs.append((r, args[1], node))
                return r
            if last == 'isin' and isinstance(a0, Seq):
                return Mask(object())
            if dotted == 'builtins.zip' and args and all(isinstance(a, (Seq, Filt)) for a in args):
                return Zip(list(args))
            if dotted == 'builtins.enumerate':
                return Unknown('enumerate')
            return super().call_ext(dotted, args, kwargs, node)

        def unary(self, op, a, node):
            if isinstance(a, Mask):
                return a
            return super().unary(op, a, node)

        def subscript(self, v, idx, node):
            if isinstance(v, Seq) and isinstance(idx, Mask):
                return Filt(v, idx)
            if isinstance(v, Seq) and v.what == 'ids' and isinstance(idx, Const) and idx.v == -1 and v.n is not None:
                return self.lift(v.lo + v.n - 1)
            if isinstance(v, Seq) and v.what == 'ids' and isinstance(idx, Const) and idx.v == 0 and v.lo is not None:
                return self.lift(v.lo)
            if isinstance(v, (Seq, Filt)) and type(idx).__name__ == 'Slice':
                return Seq(None, 'part of ' + (v.what if isinstance(v, Seq) else 'a filtered sequence'))
            if isinstance(v, (Seq, Filt, Elem)):
                return Unknown('entry of a sequence')
            return super().subscript(v, idx, node)

        def method(self, v, name, args, kwargs, node):
            if isinstance(v, (Seq, Filt)) and name in ('tolist', 'copy', 'astype'):
                return v
            return super().method(v, name, args, kwargs, node) if isinstance(v, Sym) else None

        def loop(self, node, frame):
            if not isinstance(node, ast.For):
                return False
            src = self.interp.ev(node.iter, frame)
            if isinstance(src, Zip) and isinstance(node.target, ast.Tuple) and len(node.target.elts) == len(src.members):
                self.zips.append((src, node))
                for k_, e_ in enumerate(node.target.elts):
                    self.interp.assign(e_, Elem(src, k_), frame, node)
            elif isinstance(src, (Seq, Filt)):
                self.interp.assign(node.target, Elem(src), frame, node)
            else:
                return False
            # zero passes, or one (what a pass leaves behind is what matters; every pass leaves the same kind of thing)
            if self.interp.choose(2, 'loop `%s` runs' % ast.unparse(node.iter)[:40]) == 1:
                try:
                    self.interp.exec_block(node.body, frame)
                except (_Break, _Continue):
                    pass
            return True

        def compare(self, op, a, b, node):
            if isinstance(a, Elem) or isinstance(b, Elem):
                return None
            return super().compare(op, a, b, node)

        def store_subscript(self, target, idx, val, node):
            return True

    def go():
        dom = IdDomain()
        from ..core.interp import Interp
        from ..domains.normdom import install_pi
        it = install_pi(Interp(db, dom))
        kw = {}
        for p_ in params:
            if p_ in carried:
                kw[p_] = dom.sym('carried_' + p_)
            elif p_ in per_seg:
                kw[p_] = Tup([], 'list')
            else:
                kw[p_] = Unknown(p_)
        return it, dom, [q for q in it.run(lf, kwargs=lambda: {k_: (Tup([], 'list') if isinstance(v_, Tup) else v_) for k_, v_ in kw.items()}) if q.outcome == 'return']
    it, dom, paths = go()
    if not paths:
        raise AnalysisError('hexagonal aperture: no path through the ring loop body')
    R = dom.R
    H = Rat(R.atom('H'))
    runs = {id(n_): (r_, n_) for r_, _, n_ in dom.runs}
    if len(runs) != 1:
        raise AnalysisError('hexagonal aperture: expected one arithmetic run of ids per ring, found %d' % len(runs))
    idrun, idnode = list(runs.values())[0]
    # (1) the ring's ids: counter+1 .. counter+H, H the length of the unfiltered ring
    K = None
    if idrun.lo is not None:
        for c_ in carried:
            if idrun.lo == Rat(R.atom('carried_' + c_)) + 1:
                K = c_
    okn = idrun.n is not None and idrun.n == H
    run.check(K is not None and okn, 'C18.ids', fh.qual, 'ring ids', 'the ids of a ring are counter+1 .. counter+len(ring), counted over the unfiltered ring (6 i segments)',
              'ring ids start at %s and there are %s of them (expected counter+1 and H, the length of the whole ring): the documented numbering (6 i ids per ring, exclusions leave gaps) is lost'
              % (idrun.lo.key() if idrun.lo is not None else 'something not followed', idrun.n.key() if idrun.n is not None else 'a number that depends on the exclusions'), fh.loc(idnode))
    # (2) the counter at the end of a ring, on every path
    if K is not None:
        k0 = Rat(R.atom('carried_' + K))
        bad = []
        for q in paths:
            v = q.value.items[carried.index(K)]
            rv = dom.rat(v)
            if rv is not None and rv == k0 + H:
                continue
            if isinstance(v, Elem):
                bad.append('the inner loop variable (the last NON-EXCLUDED id of the ring; a ring whose last id is excluded, or a fully excluded ring, leaves the counter too low and the next ring re-uses ids)')
            elif rv is not None:
                bad.append('%s' % rv.key().replace('carried_', ''))
            else:
                bad.append('a value that is not followed (%r)' % (v,))
        run.check(not bad, 'C18.ids', fh.qual, 'ring-to-ring counter', 'at the end of every ring the counter is the last id of the unfiltered ring (counter + H), on every path',
                  'at the end of a ring the id counter can be %s' % '; or '.join(sorted(set(bad))), fh.loc(ring))
    # (3) ids and centres walked together: the members of the zip are the id run and the ring, filtered by one mask (or not at all)
    seen = {}
    for z, n_ in dom.zips:
        seen[id(n_)] = (z, n_)
    if not seen:
        raise AnalysisError('hexagonal aperture: the per-segment loop over (id, centre) pairs is not followed')
    for z, n_ in seen.values():
        bases = [m_.base if isinstance(m_, Filt) else m_ for m_ in z.members]
        masks = [m_.mask.tok if isinstance(m_, Filt) else None for m_ in z.members]
        ok = len(set(map(id, masks))) == 1 and any(b_ is idrun for b_ in bases) and all(b_.n is not None and b_.n == H for b_ in bases)
        run.check(ok, 'C18.ids', fh.qual, 'id/centre pairing', 'ids and centres are filtered by the same exclusion mask and walked together',
                  'ids and centres are walked together after being filtered differently (or not being the whole ring): %s' % [('filtered ' if isinstance(m_, Filt) else '') + repr(b_) for m_, b_ in zip(z.members, bases)], fh.loc(n_))
    # the recorded id is the id member of the pair
    okid, nid = True, 0
    for q in paths:
        lst = q.value.items[len(carried)]
        if not isinstance(lst, Tup):
            raise AnalysisError('hexagonal aperture: the id list is not followed through the ring loop')
        for e in lst.items:
            nid += 1
            src = e.src.members[e.slot] if isinstance(e, Elem) and isinstance(e.src, Zip) else (e.src if isinstance(e, Elem) else None)
            base = src.base if isinstance(src, Filt) else src
            okid = okid and base is idrun
    if not nid:
        raise AnalysisError('hexagonal aperture: no id is recorded on any path through the ring loop')
    run.check(okid, 'C18.ids', fh.qual, 'recorded id', 'the id recorded for a segment is the entry of the ring\'s id run it is paired with', 'the id recorded for a segment is not an entry of the ring\'s id run', fh.loc(ring))
    # keystone: one counter, advanced once per segment, unconditionally
    fk = db.func(S + '_composite_keystone_aperture')
    rk_ = [n for n in walk_no_nested(fk.node) if isinstance(n, ast.Return)]
    idlist = None
    for dnode in [n for r_ in rk_ for n in ast.walk(r_.value) if isinstance(n, ast.Dict)]:
        for k_, v_ in zip(dnode.keys, dnode.values):
            if isinstance(k_, ast.Constant) and k_.value == 'ids' and isinstance(v_, ast.Name):
                idlist = v_.id
    if idlist is None:
        raise AnalysisError("keystone aperture: the returned dictionary has no 'ids' entry")
    loop = _innermost_loop_with(fk, idlist)
    apps = [a for a in _appends(loop.body) if a[0] == idlist] if loop is not None else []
    KID = ast.unparse(apps[0][1]) if len(apps) == 1 and isinstance(apps[0][1], ast.Name) else None
    incs = [n for n in walk_no_nested(fk.node) if isinstance(n, ast.AugAssign) and KID is not None and ast.unparse(n.target) == KID]
    ok = len(incs) == 1 and isinstance(incs[0].op, ast.Add) and ast.unparse(incs[0].value) == '1' and loop is not None and incs[0] in loop.body
    if not ok and KID is not None:
        # or: the id is the number of segments recorded so far (`ids.append(len(ids))`, possibly through a local): consecutive by construction
        kdefs = [n for n in ast.walk(fk.node) if isinstance(n, ast.Assign) and any(isinstance(t_, ast.Name) and t_.id == KID for t_ in n.targets)]
        ok = bool(kdefs) and all(ast.unparse(n.value).replace(' ', '') == 'len(%s)' % idlist for n in kdefs) and not incs
    if not ok and len(apps) == 1 and ast.unparse(apps[0][1]).replace(' ', '') == 'len(%s)' % idlist:
        ok = True
    run.check(ok, 'C18.ids', fk.qual, 'keystone counter', 'the keystone id counter advances by one per segment, unconditionally, in the per-segment loop', 'keystone id counter no longer advances once per segment', fk.loc(incs[0]) if incs else fk.loc())


# --------------------------------------------------------------------------
def boundary_rules(run, db):
    """Geometric primitives as formulas: the returned mask is exactly the analytic inequality."""
    from ..core.interp import Interp, Const, Tup, Unknown
    from ..core.norm import Rat, diff, _rat
    from ..domains.normdom import install_pi, Sym
    from ..domains.pred import PredDomain, Pred, cmp_pred, p_and, p_or, p_not
    G = 'prysm.geometry.'

    def mk():
        dom = PredDomain(coords=('x', 'y', 'r'))
        it = install_pi(Interp(db, dom))
        dom.nonzero = {'pi'}

        def call_prysm(fi, args, kwargs, node):
            if fi.name == 'optimize_xy_separable':
                return Tup([args[0], args[1]])
            return None
        dom.call_prysm = call_prysm
        return it, dom

    def le(dom, a, b):
        return cmp_pred(dom, ast.LtE(), a, b)

    def lt(dom, a, b):
        return cmp_pred(dom, ast.Lt(), a, b)

    def one_return(it, f, kw, what):
        res = [p for p in it.run(f, kwargs=lambda: dict(kw)) if p.outcome == 'return']
        if len(res) != 1:
            raise AnalysisError('%s (%s): expected one returning path, got %d' % (f.qual, what, len(res)))
        return res[0]

    def verdict(f, construct, got, want, text):
        if not isinstance(got, Pred):
            raise AnalysisError('%s (%s): the result is not a predicate over the coordinates: %r' % (f.qual, construct, got))
        run.check(got == want, 'C18.boundary', f.qual, construct, text, '%s (%s) returns the sample set %s, the analytic region is %s' % (f.name, construct, got.key(), want.key()), f.loc())

    # circle / annulus / offset_circle
    it, dom = mk()
    R = dom.R
    A = lambda n: Rat(R.atom(n))
    f = db.func(G + 'circle')
    p = one_return(it, f, {'radius': dom.sym('radius'), 'r': dom.sym('r')}, 'circle')
    verdict(f, 'region', p.value, le(dom, A('r'), A('radius')), 'circle == {r <= radius} (boundary included)')
    f = db.func(G + 'annulus')
    p = one_return(it, f, {'rin': dom.sym('rin'), 'rout': dom.sym('rout'), 'r': dom.sym('r')}, 'annulus')
    verdict(f, 'region', p.value, p_and(le(dom, A('rin'), A('r')), le(dom, A('r'), A('rout'))), 'annulus == {rin <= r <= rout}')
    f = db.func(G + 'offset_circle')
    p = one_return(it, f, {'radius': dom.sym('radius'), 'x': dom.sym('x'), 'y': dom.sym('y'), 'center': Tup([dom.sym('cx'), dom.sym('cy')])}, 'offset_circle')
    rr = _rat(R.sqrt((A('x') - A('cx')) * (A('x') - A('cx')) + (A('y') - A('cy')) * (A('y') - A('cy'))))
    verdict(f, 'region', p.value, le(dom, rr, A('radius')), 'offset_circle == {|(x, y) - centre| <= radius}')

    # rectangle: angle 0, 90 and general
    f = db.func(G + 'rectangle')
    for label, ang, hgt in (('angle=0', Const(0), 'height'), ('angle=0, height=None', Const(0), None), ('angle=90', Const(90), 'height'), ('general angle', 'sym', 'height')):
        it, dom = mk()
        R = dom.R
        A = lambda n: Rat(R.atom(n))
        dom.nonzero = {'pi', 'angle'}
        kw = {'width': dom.sym('width'), 'x': dom.sym('x'), 'y': dom.sym('y'), 'height': dom.sym('height') if hgt else Const(None), 'angle': dom.sym('angle') if ang == 'sym' else ang}
        res = [q for q in it.run(f, kwargs=lambda: dict(kw)) if q.outcome == 'return']
        if ang == 'sym':
            # paths special-cased by an equality with a constant angle are judged by the constant-angle cases; every other path must be the general rotation
            import re as _re
            special = [q for q in res if any(_re.fullmatch(r'angle==-?\d+(\.\d+)?', c.replace(' ', '')) and t for c, t in q.conds)]
            consts = sorted({c.replace(' ', '').split('==')[1] for q in special for c, t in q.conds if t and _re.fullmatch(r'angle==-?\d+(\.\d+)?', c.replace(' ', ''))})
            run.check(consts in ([], ['90']), 'C18.boundary', f.qual, 'special-cased angles', 'only angle == 90 is special-cased (by exchanging x and y)',
                      'rectangle special-cases the angles %s; only the 90 degree shortcut is known to equal the rotation' % consts, f.loc())
            res = [q for q in res if q not in special]
        if len(res) != 1:
            if ang == 'sym' and len(res) > 1:
                for q in res:
                    extra = [c for c, t in q.conds if t and 'angle' in c and c.replace(' ', '') != 'angle!=0']
                    if extra:
                        run.finding('C18.boundary', f.qual, 'general angle: path under %s' % extra, 'for a general angle rectangle takes a shortcut under the condition %s, which holds for angles at which the shortcut '
                                    'is not the rotation (e.g. 180 degrees with height != width exchanges width and height)' % extra, f.loc())
                res = [q for q in res if not [c for c, t in q.conds if t and 'angle' in c and c.replace(' ', '') != 'angle!=0']]
            if len(res) != 1:
                raise AnalysisError('rectangle (%s): expected one path, got %d' % (label, len(res)))
        w, h = A('width'), (A('height') if hgt else A('width'))
        X, Y = A('x'), A('y')
        if label == 'angle=90':
            X, Y = Y, X
        elif ang == 'sym':
            rho = _rat(R.sqrt(X * X + Y * Y))
            phi = Rat(R.func('arctan2', [A('y'), A('x')])) + A('angle') * A('pi') / 180
            X, Y = rho * _rat(R.trig('cos', phi)), rho * _rat(R.trig('sin', phi))
        want = p_and(le(dom, Y, h), le(dom, -h, Y), le(dom, X, w), le(dom, -w, X))
        verdict(f, label, res[0].value, want, 'rectangle (%s) == {|x\'| <= width, |y\'| <= height} with (x\', y\') the coordinates turned by +angle (polar angle + radians(angle))' % label)

    # rotated ellipse: zero where the quadratic form of a rotated frame exceeds 1
    it, dom = mk()
    R = dom.R
    A = lambda n: Rat(R.atom(n))
    f = db.func(G + 'rotated_ellipse')
    kw = {'width_major': dom.sym('a'), 'width_minor': dom.sym('b'), 'x': dom.sym('x'), 'y': dom.sym('y'), 'major_axis_angle': dom.sym('angle')}
    res = [q for q in it.run(f, kwargs=lambda: dict(kw)) if q.outcome == 'return']
    if len(res) != 1:
        raise AnalysisError('rotated_ellipse: expected one returning path, got %d' % len(res))
    stores = [e for e in res[0].events if e['kind'] == 'maskstore']
    ok_shape = len(stores) == 1 and isinstance(res[0].value, Const) and res[0].value.v == 1 and isinstance(stores[0]['value'], Const) and stores[0]['value'].v == 0 \
        and stores[0]['pred'].kind == 'cmp' and stores[0]['pred'].args[0] in ('<0', '<=0')
    if not ok_shape:
        raise AnalysisError('rotated_ellipse: not of the form ones; arr[Q > 1] = 0: %r' % (stores,))
    run.check(stores[0]['pred'].args[0] == '<0', 'C18.boundary', f.qual, 'boundary', 'samples exactly on the ellipse (Q == 1) are kept: only {Q > 1} is zeroed',
              'rotated_ellipse zeroes {Q >= 1}: samples exactly on the analytic boundary are excluded', f.loc(stores[0]['node']))
    Q = Rat(R.const(1)) - stores[0]['pred'].args[1]            # pred is 1 - Q < 0
    Qxx, Qyy, Qxy = diff(diff(Q, 'x', R), 'x', R) / 2, diff(diff(Q, 'y', R), 'y', R) / 2, diff(diff(Q, 'x', R), 'y', R)
    X, Y = A('x'), A('y')
    pure = (Q - (Qxx * X * X + Qxy * X * Y + Qyy * Y * Y)).is_zero()
    ang = -A('angle') * A('pi') / 180
    c, s_ = _rat(R.trig('cos', ang)), _rat(R.trig('sin', ang))
    a2, b2 = A('a') * A('a'), A('b') * A('b')
    okq = pure and Qxx == c * c / a2 + s_ * s_ / b2 and Qyy == s_ * s_ / a2 + c * c / b2 and (Qxy * Qxy == (2 * c * s_ * (1 / a2 - 1 / b2)) * (2 * c * s_ * (1 / a2 - 1 / b2)))
    run.check(okq, 'C18.boundary', f.qual, 'quadratic form', 'the ellipse is {u^2/a^2 + v^2/b^2 <= 1} with (u, v) an exact rotation of (x, y) by the major-axis angle: Q = R^T diag(1/a^2, 1/b^2) R',
              'rotated_ellipse zeroes {Q > 1} with Q = %s: its quadratic form is not R^T diag(1/a^2, 1/b^2) R for the rotation by the major-axis angle (xx: %s, yy: %s, xy: %s) -- '
              '(u, v) is not an orthonormal rotation of (x, y), so the region is a skewed/enlarged ellipse except at multiples of 90 degrees' % (Q.key(), Qxx.key(), Qyy.key(), Qxy.key()), f.loc())
    guard = [q for q in it.run(f, kwargs=lambda: dict(kw)) if q.outcome == 'raise']
    run.check(len(guard) == 1 and any('width_minor > width_major' in c0 and t for c0, t in guard[0].conds), 'C18.boundary', f.qual, 'axis guard', 'minor > major is rejected', 'the major/minor guard changed', f.loc())

    # spider: complement of the union of half-strips turned by 360/vanes
    f = db.func(G + 'spider')
    for vanes in (1, 2, 3, 4):
        for rot in ('rotation=0', 'rotation (degrees)'):
            it, dom = mk()
            R = dom.R
            A = lambda n: Rat(R.atom(n))
            dom.nonzero = {'pi', 'rotation'}
            kw = {'vanes': Const(vanes), 'width': dom.sym('width'), 'x': dom.sym('x'), 'y': dom.sym('y'), 'rotation': Const(0) if rot == 'rotation=0' else dom.sym('rotation'),
                  'center': Tup([dom.sym('cx'), dom.sym('cy')]), 'rotation_is_rad': Const(False)}
            res = [q for q in it.run(f, kwargs=lambda: dict(kw)) if q.outcome == 'return']
            vals = {q.value.key() if isinstance(q.value, Pred) else repr(q.value) for q in res}
            if len(vals) != 1:
                raise AnalysisError('spider (vanes=%d, %s): paths disagree or no path: %s' % (vanes, rot, sorted(vals)[:2]))
            X, Y = A('x') - A('cx'), A('y') - A('cy')
            rho = _rat(R.sqrt(X * X + Y * Y))
            phi = Rat(R.func('arctan2', [Y, X]))
            if rot != 'rotation=0':
                phi = phi - A('rotation') * A('pi') / 180
            arms = []
            for k in range(vanes):
                pk = phi + Rat(R.const(360 * k)) / vanes * A('pi') / 180
                xk, yk = rho * _rat(R.trig('cos', pk)), rho * _rat(R.trig('sin', pk))
                ay = Rat(R.func('abs', [yk]))
                arms.append(p_and(lt(dom, Rat(R.const(0)), xk), lt(dom, ay, A('width') / 2)))
            want = p_not(p_or(*arms)) if len(arms) > 1 else p_not(arms[0])
            verdict(f, 'vanes=%d, %s' % (vanes, rot), res[0].value, want,
                    'spider == complement of the union over k of {x_k > 0, |y_k| < width/2}, (x_k, y_k) the centred coordinates turned by -rotation + 360 k/vanes degrees')

    # regular polygon: vertices on the circle, equally spaced; point-in-polygon wiring
    it, dom = mk()
    R = dom.R
    A = lambda n: Rat(R.atom(n))
    orig = dom.call_ext

    def call_ext(dotted, args, kwargs, node):
        if dotted == 'numpy.arange':
            return dom.sym('k')
        if dotted == 'numpy.stack' and args and isinstance(args[0], Tup):
            return Tup(list(args[0].items) + [kwargs.get('axis', Const(0))])
        return orig(dotted, args, kwargs, node)
    dom.call_ext = call_ext
    f = db.func(G + '_generate_vertices')
    p = one_return(it, f, {'sides': dom.sym('sides'), 'radius': dom.sym('radius'), 'center': Tup([dom.sym('cx'), dom.sym('cy')]), 'rotation': dom.sym('rotation')}, 'vertices')
    v = p.value
    if not (isinstance(v, Tup) and len(v.items) == 3):
        raise AnalysisError('_generate_vertices: not stack((x, y), axis=1)')
    th = A('k') * 2 * A('pi') / A('sides') + A('rotation') * A('pi') / 180
    wx, wy = A('radius') * _rat(R.trig('sin', th)) + A('cx'), A('radius') * _rat(R.trig('cos', th)) + A('cy')
    gx, gy = dom.rat(v.items[0]), dom.rat(v.items[1])
    run.check(gx is not None and gy is not None and gx == wx and gy == wy and isinstance(v.items[2], Const) and v.items[2].v == 1, 'C18.boundary', f.qual, 'vertices',
              'vertex k = centre + radius (sin, cos)(2 pi k/sides + rotation): on the circumscribed circle, equally spaced, stacked as (x, y) columns',
              'polygon vertices are (%s, %s), expected centre + radius (sin, cos)(2 pi k/sides + rotation)' % (gx.key() if gx is not None else '?', gy.key() if gy is not None else '?'), f.loc())
    # point in polygon, decided by interpreting regular_polygon with the vertex routine and the triangulation summarised:
    # the hull is triangulated from the vertices of (sides, radius, center, rotation), queried with (x, y) pairs stacked on the last axis,
    # and a sample is inside exactly when a simplex was found (index >= 0)
    from .common import capture_calls
    from ..core.interp import Value
    from ..domains.pred import PredDomain, Pred, eval_pred
    from ..domains.normdom import install_pi

    class Tri(Value):
        def __init__(self, pts):
            self.pts = pts
    f = db.func(G + 'regular_polygon')
    pdom = PredDomain(coords=('SIMPLEX',))
    pit = install_pi(Interp(db, pdom))
    queries = []
    oe, om = pdom.call_ext, pdom.method

    def call_ext(dotted, args, kwargs, node):
        last = dotted.rsplit('.', 1)[-1]
        if last in ('array', 'asarray') and args and pdom.rat(args[0]) is not None:
            return args[0]
        if last == 'stack' and args and isinstance(args[0], Tup) and len(args[0].items) == 2 and all(pdom.rat(z) is not None for z in args[0].items):
            ax = kwargs.get('axis', args[1] if len(args) > 1 else Const(0))
            return pdom.func_atom('stack_axis%s' % (ax.v if isinstance(ax, Const) else '?'), list(args[0].items))
        if last == 'Delaunay' and args:
            return Tri(args[0])
        if dotted == 'builtins.hasattr':
            return Const(False)
        return oe(dotted, args, kwargs, node)

    def method(v, name, args, kwargs, node):
        if isinstance(v, Tri) and name == 'find_simplex' and args:
            queries.append((v.pts, args[0]))
            return pdom.sym('SIMPLEX')
        return om(v, name, args, kwargs, node)
    pdom.call_ext, pdom.method = call_ext, method
    paths, vcalls = capture_calls(pit, pdom, f, lambda: {'sides': pdom.sym('sides'), 'radius': pdom.sym('radius'), 'x': pdom.sym('X'), 'y': pdom.sym('Y'),
                                                         'center': Tup([pdom.sym('cx'), pdom.sym('cy')]), 'rotation': pdom.sym('rotation')},
                                  {G + '_generate_vertices'}, lambda fi_, b_: pdom.sym('VERTS'))
    rets = [p_ for p_ in paths if p_.outcome == 'return']
    keyp = lambda v_: pdom.rat(v_).key() if v_ is not None and pdom.rat(v_) is not None else repr(v_)
    okw = len(vcalls) == 1 and keyp(vcalls[0][1].get('sides')) == 'sides' and keyp(vcalls[0][1].get('radius')) == 'radius' and keyp(vcalls[0][1].get('rotation')) == 'rotation' \
        and isinstance(vcalls[0][1].get('center'), Tup) and [keyp(z) for z in vcalls[0][1]['center'].items] == ['cx', 'cy']
    run.check(okw, 'C18.boundary', f.qual, 'wiring', 'regular_polygon passes (sides, radius, center, rotation) and (x, y) through',
              'regular_polygon hands %s to the vertex routine' % [{k: keyp(v) for k, v in c_[1].items()} for c_ in vcalls], f.loc())
    okq = len(queries) == 1 and keyp(queries[0][0]) == 'VERTS' and keyp(queries[0][1]) == 'stack_axis2(X,Y)'
    inside = rets[0].value if len(rets) == 1 else None
    okin = isinstance(inside, Pred)
    if okin:
        PR = pdom.R
        c_ = lambda v_: Rat(PR.const(v_))
        okin = eval_pred(inside, {'SIMPLEX': c_(-1)}, set()) is False and eval_pred(inside, {'SIMPLEX': c_(0)}, set()) is True and eval_pred(inside, {'SIMPLEX': c_(7)}, set()) is True
    run.check(okq and okin, 'C18.boundary', db.func(G + '_generate_mask').qual, 'point in polygon', 'samples are (x, y) pairs in the vertex order; inside == a simplex of the triangulated hull was found',
              'the hull of %s is queried with %s and a sample counts as inside when %s' % ([keyp(q_[0]) for q_ in queries], [keyp(q_[1]) for q_ in queries], inside.key() if isinstance(inside, Pred) else repr(inside)), f.loc())


def hex_roles(run, db, fh, fc, unpack, roles):
    """Interpret _composite_hexagonal_aperture with tokens for windows, local grids, masks and loop elements (loops run once); the value
    returned at each position must be what the constructor stores it as."""
    from ..core.interp import Interp, Domain, Value, Const, Tup, Unknown, _Break, _Continue
    from .common import bind_call

    class Tok(Value):
        def __init__(self, kind, *args):
            self.kind, self.args = kind, args

        def __eq__(self, o):
            return isinstance(o, Tok) and (self.kind, len(self.args)) == (o.kind, len(o.args)) and all(a is b or a == b for a, b in zip(self.args, o.args))

        def __hash__(self):
            return hash(self.kind)

        def __repr__(self):
            return '%s(%s)' % (self.kind, ', '.join(map(repr, self.args)))

    def same(a, b):
        if a is b:
            return True
        if isinstance(a, Tok) and isinstance(b, Tok):
            return a == b
        if isinstance(a, Const) and isinstance(b, Const):
            return a.v == b.v
        if isinstance(a, Tup) and isinstance(b, Tup):
            return len(a.items) == len(b.items) and all(same(x_, y_) for x_, y_ in zip(a.items, b.items))
        return False

    class SegDomain(Domain):
        def param(self, fi, name, default):
            if fi is fh and name in ('x', 'y'):
                return Tok('grid', name)
            if fi is fh and name == 'segment_diameter':
                return Tok('size', name)
            return None

        def call_prysm(self, fi, args, kw, node):
            if fi.name == '_local_window':
                b = bind_call(fi, args, kw)
                return Tok('window', b.get('center'))
            if fi.name == 'regular_polygon':
                b = bind_call(fi, args, kw)
                return Tok('mask', b.get('x'), b.get('y'), b.get('center'))
            if fi.module != fh.module or fi.name in ('hex_ring', 'hex_to_xy'):
                return Unknown(fi.name)
            return None

        def subscript(self, v, idx, node):
            if isinstance(v, Tok) and v.kind == 'grid' and isinstance(idx, Tok) and idx.kind == 'window':
                return Tok('local', v.args[0], idx)
            if isinstance(v, Tok) and v.kind == 'elem' and isinstance(idx, Const):
                return Tok('comp', v, idx.v)
            return None

        def binop(self, op, a, b, node):
            if isinstance(op, ast.Sub) and isinstance(a, Tok) and a.kind == 'local':
                if isinstance(b, Tok) and b.kind == 'comp':
                    return Tok('shifted', a, b)
                if isinstance(b, Const) and b.v == 0:
                    return a
            if isinstance(op, (ast.Mult, ast.Div)) and isinstance(a, Tok) and a.kind == 'size' and not isinstance(b, Tok):
                return a
            if isinstance(op, ast.Mult) and isinstance(b, Tok) and b.kind == 'size' and not isinstance(a, Tok):
                return b
            return None

        def loop(self, node, frame):
            if isinstance(node, ast.For):
                tg = node.target
                if isinstance(tg, ast.Name):
                    frame.env[tg.id] = Tok('elem', None, id(node))
                elif isinstance(tg, ast.Tuple):
                    for k_, e_ in enumerate(tg.elts):
                        for leaf in ast.walk(e_):
                            if isinstance(leaf, ast.Name):
                                frame.env[leaf.id] = Tok('elem', k_, id(node))
            try:
                self.interp.exec_block(node.body, frame)
            except (_Break, _Continue):
                pass
            return True

        def store_subscript(self, target, idx, val, node):
            return True

    dom = SegDomain()
    it = Interp(db, dom)
    paths = [p for p in it.run(fh) if p.outcome == 'return']
    if not paths:
        raise AnalysisError('hexagonal aperture: no returning path')
    pos = {r: k for k, r in enumerate(roles)}
    problems, judged = [], 0
    for p in paths:
        v = p.value
        if not isinstance(v, Tup) or len(v.items) != len(roles):
            raise AnalysisError('hexagonal aperture: the returned value is not a %d-tuple on path %s' % (len(roles), p.conds))
        get = lambda r: v.items[pos[r]]
        lists = {r: get(r) for r in ('windows', 'local_coords', 'local_masks', 'segment_ids')}
        if not all(isinstance(l_, Tup) for l_ in lists.values()):
            raise AnalysisError('hexagonal aperture: a per-segment list is not followed to the return (%s)' % {r: type(l_).__name__ for r, l_ in lists.items()})
        n = {len(l_.items) for l_ in lists.values()}
        if len(n) != 1:
            continue        # lock-step is decided by C18.lockstep above
        for k in range(n.pop()):
            w, lc, m, sid = [lists[r].items[k] for r in ('windows', 'local_coords', 'local_masks', 'segment_ids')]
            kinds = {r: getattr(x_, 'kind', None) for r, x_ in (('windows', w), ('local_masks', m), ('segment_ids', sid))}
            # a value that is positively another role's
            if kinds['windows'] != 'window':
                if kinds['windows'] in ('mask', 'elem', 'local', 'shifted') or isinstance(w, Tup):
                    problems.append('the list stored as windows holds %r' % (w,))
                    continue
                raise AnalysisError('hexagonal aperture: entry %d of the windows list is not followed (%r)' % (k, w))
            c = w.args[0]
            judged += 1
            if not (isinstance(lc, Tup) and len(lc.items) == 2):
                problems.append('the list stored as local_coords holds %r, not an (x, y) pair' % (lc,))
                continue
            for axis, (g, e) in enumerate(zip(('x', 'y'), lc.items)):
                base = e.args[0] if isinstance(e, Tok) and e.kind == 'shifted' else e
                if not (isinstance(base, Tok) and base.kind == 'local'):
                    raise AnalysisError('hexagonal aperture: local coordinate %d of entry %d is not followed (%r)' % (axis, k, e))
                if base.args[0] != g or not same(base.args[1], w):
                    problems.append("local coordinate %d of a segment is the %s grid inside %s, not the %s grid inside the segment's own window" % (axis, base.args[0], 'another window' if base.args[0] == g else 'a window', g))
                centred_at_origin = isinstance(c, Tup) and all(isinstance(z, Const) and z.v == 0 for z in c.items)
                if isinstance(e, Tok) and e.kind == 'shifted':
                    sh = e.args[1]
                    if not (same(sh.args[0], c) and sh.args[1] == axis):
                        problems.append("local coordinate %d of a segment is shifted by component %s of %r, not by component %d of the segment's own centre" % (axis, sh.args[1], sh.args[0], axis))
                elif not centred_at_origin:
                    problems.append('local coordinate %d of a segment is not measured from the segment centre' % axis)
            if kinds['local_masks'] == 'mask':
                mx, my, mc = m.args
                okm = isinstance(mx, Tok) and isinstance(my, Tok) and mx.kind == 'local' and my.kind == 'local' and mx.args[0] == 'x' and my.args[0] == 'y' \
                    and same(mx.args[1], w) and same(my.args[1], w) and same(mc, c)
                if not okm:
                    problems.append("a segment's mask is rasterised on %r, %r about %r, not on its own window's grids about its own centre" % (mx, my, mc))
            elif kinds['local_masks'] in ('window', 'elem', 'local', 'shifted'):
                problems.append('the list stored as local_masks holds %r' % (m,))
            if kinds['segment_ids'] == 'elem':
                if isinstance(c, Tok) and c.kind == 'elem' and (sid.args[0] == c.args[0] and sid.args[1] == c.args[1]):
                    problems.append('the id recorded for a segment is the same loop element as its centre')
            elif kinds['segment_ids'] in ('window', 'mask', 'local', 'shifted'):
                problems.append('the list stored as segment_ids holds %r' % (sid,))
        vt = get('vtov')
        if isinstance(vt, (Tup,)) or (isinstance(vt, Tok) and vt.kind != 'size'):
            problems.append('the value stored as the vertex-to-vertex size is %r' % (vt,))
        ac = get('all_centers')
        if isinstance(ac, Tup) and any(isinstance(x_, Tok) and x_.kind in ('window', 'mask', 'local', 'shifted') for x_ in ac.items):
            problems.append('the list stored as all_centers holds %r' % (ac.items[:1],))
    if not judged:
        raise AnalysisError('hexagonal aperture: no per-segment entry reached the return on any path')
    run.check(not problems, 'C18.lockstep', fc.qual, 'unpack order', 'each position of the returned tuple holds what the constructor stores it as (vertex-to-vertex size, centres, windows, centred local coordinates, '
              'masks on the window\'s own grids, ids, aperture): %d per-segment entries judged' % judged,
              'the tuple returned by _composite_hexagonal_aperture is unpacked as %s, but %s' % (roles, '; '.join(sorted(set(problems))[:3])), fc.loc(unpack))


def check(run, db, tier):
    run.trust('statement-order dataflow over the per-segment loop bodies (appends, the OR into the aperture, name rebinding)')
    run.assume('NARROW claim for the composite apertures: disjointness and areas of rasterised segments are geometry of values and are not decided; the bookkeeping that ties windows, masks, ids and the aperture together is',
               'primitives are decided as formulas (C18.boundary): monotonic growth and symmetry follow from the analytic inequality; the Delaunay point-in-polygon test itself (qhull) and truecircle are not decided')
    run.rule('C18.lockstep', 'per-segment lists are appended exactly once, unconditionally, with no early exit in between')
    run.rule('C18.union', 'the aperture mask is written only by OR-ing the (window, mask) pair that is also recorded (plus initialisation / spider removal)')
    run.rule('C18.confine', "composed OPD passes through the segment's own mask before accumulation into its own window")
    fh = db.func(S + '_composite_hexagonal_aperture')
    fk = db.func(S + '_composite_keystone_aperture')
    # the roles of the builders' local names are read off their interfaces: the position in the returned tuple that the
    # constructor unpacks into self.<attr> (hexagonal), the key of the returned dictionaries (keystone)
    fc = db.func(S + 'CompositeHexagonalAperture.__init__')
    unp = [n for n in walk_no_nested(fc.node) if isinstance(n, ast.Assign) and isinstance(n.value, ast.Call) and ast.unparse(n.value.func) == '_composite_hexagonal_aperture']
    rets = [n for n in walk_no_nested(fh.node) if isinstance(n, ast.Return)]
    if len(unp) != 1 or len(rets) != 1 or not isinstance(rets[0].value, ast.Tuple) or not isinstance(unp[0].targets[0], ast.Tuple) or len(unp[0].targets[0].elts) != len(rets[0].value.elts):
        raise AnalysisError('hexagonal aperture: constructor unpack / return not found or of different length')
    hrole = {ast.unparse(t).replace('self.', ''): ast.unparse(r) for t, r in zip(unp[0].targets[0].elts, rets[0].value.elts)}
    need = ('vtov', 'all_centers', 'windows', 'local_coords', 'local_masks', 'segment_ids', 'amp')
    if not all(k in hrole for k in need):
        raise AnalysisError('hexagonal aperture: the constructor does not unpack %s (got %s)' % (list(need), sorted(hrole)))
    run.group(lockstep, run, fh, [hrole['segment_ids'], hrole['windows'], hrole['local_coords'], hrole['local_masks']], hrole['amp'], hrole['windows'], hrole['local_masks'])
    run.group(mask_writers, run, fh, hrole['amp'], [('whole=', lambda v: v.startswith('np.zeros(')), ('subBitOr', None)])
    rk = [n for n in walk_no_nested(fk.node) if isinstance(n, ast.Return)]
    if len(rk) != 1:
        raise AnalysisError('keystone aperture: single return not found')
    krole = {}
    for dnode in [n for n in ast.walk(rk[0].value) if isinstance(n, ast.Dict)]:
        for k_, v_ in zip(dnode.keys, dnode.values):
            if isinstance(k_, ast.Constant) and isinstance(v_, ast.Name):
                krole[k_.value] = v_.id
    for k_ in ('windows', 'masks', 'mask', 'window', 'amplitude_mask'):
        if k_ not in krole:
            raise AnalysisError('keystone aperture: returned dictionaries have no plain entry %r (got %s)' % (k_, sorted(krole)))
    seg_loop = _innermost_loop_with(fk, krole['windows'])
    # a list that the pass over one segment (re)binds itself is scratch of that pass (e.g. the points of a bounding box), not a
    # per-segment ledger: what is appended to it, and how often, says nothing about the lists going out of step
    scratch = set()
    if seg_loop is not None:
        for st_ in seg_loop.body:
            for n_ in ast.walk(st_):
                if isinstance(n_, ast.Name) and isinstance(n_.ctx, ast.Store):
                    scratch.add(n_.id)
    klists = sorted({a[0] for a in _appends(seg_loop.body)} - scratch) if seg_loop is not None else []
    if len(klists) < 8:
        raise AnalysisError('keystone aperture: fewer than eight per-segment lists found (%s)' % klists)
    run.group(lockstep, run, fk, klists, krole['amplitude_mask'], krole['windows'], krole['masks'])
    tainted = set()
    changed = True
    while changed:
        changed = False
        for n in walk_no_nested(fk.node):
            if isinstance(n, (ast.Assign, ast.AugAssign)):
                v = n.value
                hit = any((isinstance(x, ast.Call) and ast.unparse(x.func) == 'spider') or (isinstance(x, ast.Name) and x.id in tainted) for x in ast.walk(v))
                if hit:
                    tgts = n.targets if isinstance(n, ast.Assign) else [n.target]
                    for t in tgts:
                        b_ = t.value if isinstance(t, ast.Subscript) else t
                        if isinstance(b_, ast.Name) and b_.id not in tainted and b_.id != krole['amplitude_mask']:
                            tainted.add(b_.id)
                            changed = True
    inv_spiders = {'~' + x for x in tainted}
    run.group(mask_writers, run, fk, krole['amplitude_mask'], [('whole=', lambda v: v.startswith('np.zeros(')), ('subBitOr', None), ('sub=', lambda v: v == krole['mask']),
                                                                 ('wholeBitAnd', lambda v: v in inv_spiders),
                                                                 # the spider removal spelled as a masked store: mask[spiders] = False
                                                                 ('sub=', lambda v, sl: sl in tainted and v in ('False', '0'))])
    run.group(_centre_segment_lengths, run, fh, hrole)
    _rest_of_check(run, db, fh, fk, fc, unp, hrole, krole)


def _centre_segment_lengths(run, fh, hrole):
    # hexagonal: before the ring loop, whatever the centre segment's exclusion decides, the per-segment lists have one common length
    # (0 or 1 entries each): decided by following list lengths through the statements ahead of the ring loop, on every branch
    per_seg = [hrole[k_] for k_ in ('all_centers', 'windows', 'local_coords', 'local_masks', 'segment_ids')]
    ring_loop = next((st for st in fh.node.body if isinstance(st, (ast.For, ast.While)) and any(isinstance(c_, ast.Call) and isinstance(c_.func, ast.Attribute) and c_.func.attr == 'append'
                                                                                                  and ast.unparse(c_.func.value) in per_seg for c_ in ast.walk(st))), None)
    if ring_loop is None:
        raise AnalysisError('hexagonal aperture: the loop over the rings (appending to the per-segment lists) is not a top-level statement')

    def lengths(stmts, state):
        """all (state after the statements) reachable; a state maps list name -> number of entries"""
        states = [dict(state)]
        for st in stmts:
            if st is ring_loop:
                break
            nxt = []
            for cur in states:
                if isinstance(st, ast.If):
                    nxt.extend(lengths(st.body, cur))
                    nxt.extend(lengths(st.orelse, cur))
                    continue
                if isinstance(st, ast.Assign) and isinstance(st.value, (ast.List, ast.Tuple)):
                    for t_ in st.targets:
                        if isinstance(t_, ast.Name) and t_.id in per_seg:
                            cur[t_.id] = len(st.value.elts)
                        elif isinstance(t_, ast.Tuple) and isinstance(st.value, ast.Tuple) and len(t_.elts) == len(st.value.elts):
                            for tt, vv in zip(t_.elts, st.value.elts):
                                if isinstance(tt, ast.Name) and tt.id in per_seg and isinstance(vv, ast.List):
                                    cur[tt.id] = len(vv.elts)
                elif isinstance(st, ast.Assign) and any(isinstance(t_, ast.Name) and t_.id in per_seg for t_ in st.targets):
                    raise AnalysisError('hexagonal aperture: `%s` initialises a per-segment list with something other than a list display' % norm_stmt(st))
                elif isinstance(st, ast.AugAssign) and isinstance(st.target, ast.Name) and st.target.id in per_seg:
                    if not isinstance(st.op, ast.Add) or not isinstance(st.value, (ast.List, ast.Tuple)) or st.target.id not in cur:
                        raise AnalysisError('hexagonal aperture: `%s` ahead of the ring loop is not followed' % norm_stmt(st))
                    cur[st.target.id] += len(st.value.elts)
                elif isinstance(st, ast.Expr) and isinstance(st.value, ast.Call) and isinstance(st.value.func, ast.Attribute) and ast.unparse(st.value.func.value) in per_seg:
                    nm_, meth = ast.unparse(st.value.func.value), st.value.func.attr
                    if meth != 'append' or nm_ not in cur:
                        raise AnalysisError('hexagonal aperture: `%s` ahead of the ring loop is not followed' % norm_stmt(st))
                    cur[nm_] += 1
                elif isinstance(st, (ast.For, ast.While, ast.With, ast.Try)) and any(isinstance(x_, ast.Name) and x_.id in per_seg for x_ in ast.walk(st)):
                    raise AnalysisError('hexagonal aperture: a compound statement ahead of the ring loop touches the per-segment lists')
                nxt.append(cur)
            states = nxt
        return states
    finals = lengths(fh.node.body, {})
    bad_states = [st_ for st_ in finals if set(st_) != set(per_seg) or len(set(st_.values())) != 1]
    if not any(set(st_) == set(per_seg) for st_ in finals):
        raise AnalysisError('hexagonal aperture: the per-segment lists are not all initialised ahead of the ring loop (%s)' % finals)
    run.check(not bad_states and {tuple(set(st_.values()))[0] for st_ in finals} <= {0, 1}, 'C18.lockstep', fh.qual, 'centre segment',
              'ahead of the ring loop the per-segment lists have one common length on every branch (centre segment kept: 1 entry each, excluded: none)',
              'ahead of the ring loop the per-segment lists have different lengths on some branch: %s -- windows, masks, ids, coordinates and centres are no longer index-aligned' % (bad_states or finals), fh.loc(ring_loop))


def _rest_of_check(run, db, fh, fk, fc, unp, hrole, krole):
    # what sits at each returned position is what its role says: decided on the returned value of the builder, interpreted with tokens
    run.group(hex_roles, run, db, fh, fc, unp[0], list(hrole))
    fkc = db.func(S + 'CompositeKeystoneAperture.__init__')
    bk = match_all(fkc.node, ["self.segment_windows = V_ks['windows']", "self.segment_masks = V_ks['masks']", "self.center_mask = V_cs['mask']", "self.center_window = V_cs['window']"])
    run.check(bk is not None and bk['V_ks'] != bk['V_cs'], 'C18.lockstep', fkc.qual, 'dict wiring', 'windows/masks travel under matching keys from the builder to the object', 'keystone builder/constructor key wiring changed', fkc.loc())
    run.group(confine, run, db, S + 'CompositeHexagonalAperture.compose_opd', ['self.windows', 'self.local_masks'])
    run.group(confine, run, db, S + 'CompositeKeystoneAperture.compose_opd', ['self.segment_windows', 'self.segment_masks'], center='out[self.center_window]+=tile*self.center_mask')
    run.rule('C18.ids', 'segment ids: ring i is numbered after all 6(i-1)-ring ids whatever is excluded; ids and centres filtered together')
    run.group(ids_rules, run, db)
    run.group(mask_memo_rules, run, db)
    run.group(separable_rules, run, db)
    run.rule('C18.band', 'keystone ring bands are half-open in the radius (no sample on a shared ring radius belongs to two rings)')
    run.rule('C18.sector', 'keystone sectors: the angular mask of a segment holds exactly the azimuths of its sector, for a representative of every ordering of lo, hi, +pi and the branch cut')
    run.group(band_rules, run, db)
    run.rule('C18.corners', 'keystone windows: the bounding box that is cut out for a segment is taken over its four corners and the apex of its outer arc')
    run.group(corner_rules, run, db)
    run.require_instances('C18.corners', 1)
    run.require_instances('C18.sector', 9)
    run.require_instances('C18.ids', 4)
    run.rule('C18.boundary', 'geometric primitives (circle, annulus, offset circle, rectangle, rotated ellipse, spider, regular polygon vertices) equal their analytic inequalities as formulas')
    run.group(boundary_rules, run, db)
    run.require_instances('C18.boundary', 21)
    run.require_instances('C18.lockstep', 15)
    run.require_instances('C18.union', 6)
    run.require_instances('C18.confine', 5)
