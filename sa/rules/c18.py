"""C18 -- segmented apertures (narrow claim: lock-step bookkeeping, mask provenance, OPD confinement)."""
import ast

from ..core.db import AnalysisError, norm_stmt, walk_no_nested
from ..core.pattern import match_all, find

S = 'prysm.segmented.'


def _appends(body):
    """[(list name, arg node, stmt, depth-0?)] for X.append(arg) statements in a loop body (any nesting)."""
    out = []

    def rec(stmts, top):
        for st in stmts:
            if isinstance(st, ast.Expr) and isinstance(st.value, ast.Call) and isinstance(st.value.func, ast.Attribute) and st.value.func.attr == 'append' \
                    and isinstance(st.value.func.value, ast.Name):
                out.append((st.value.func.value.id, st.value.args[0], st, top))
            for fld in ('body', 'orelse'):
                sub = getattr(st, fld, None)
                if isinstance(sub, list) and sub and isinstance(sub[0], ast.stmt):
                    rec(sub, False)
    rec(body, True)
    return out


def _innermost_loop_with(fi, listname):
    best = None
    for n in walk_no_nested(fi.node):
        if isinstance(n, (ast.For, ast.While)):
            if any(a[0] == listname for a in _appends(n.body) if a[3]):
                best = n
    return best


def lockstep(run, fi, lists, mask_name, win_list, mask_list, subset_ok=False):
    lp = _innermost_loop_with(fi, win_list)
    if lp is None:
        raise AnalysisError('%s: per-segment loop (appending to %s) not found' % (fi.qual, win_list))
    aps = _appends(lp.body)
    seg = [a for a in aps if a[0] in lists]
    counts = {}
    for name, arg, st, top in seg:
        counts.setdefault(name, []).append((st, top))
    for name in lists:
        c = counts.get(name, [])
        run.check(len(c) == 1 and c[0][1], 'C18.lockstep', fi.qual, 'append to %s' % name, '%s is appended exactly once per segment, unconditionally' % name,
                  'per-segment list %s is appended %d time(s)%s in the segment loop: the lists go out of step' % (name, len(c), '' if all(t for _, t in c) else ' (conditionally)'), fi.loc(lp))
    if seg:
        first = min(a[2].lineno for a in seg)
        last = max(a[2].lineno for a in seg)
        jumps = [n for st in lp.body for n in ast.walk(st) if isinstance(n, (ast.Continue, ast.Break, ast.Return)) and first < n.lineno < last]
        run.check(not jumps, 'C18.lockstep', fi.qual, 'no early exit between appends', 'no continue/break/return between the first and the last per-segment append',
                  'a %s at line %d sits between the per-segment appends: some lists get the segment and others do not' % (type(jumps[0]).__name__.lower() if jumps else '', jumps[0].lineno if jumps else 0), fi.loc(lp))
    # the pair OR-ed into the global mask is the recorded pair
    ors = [st for st in lp.body if isinstance(st, ast.AugAssign) and isinstance(st.op, ast.BitOr) and isinstance(st.target, ast.Subscript) and ast.unparse(st.target.value) == mask_name]
    if len(ors) != 1:
        run.finding('C18.union', fi.qual, 'mask accumulation', 'the segment loop ORs %d masks into %s (expected exactly one per segment)' % (len(ors), mask_name), fi.loc(lp))
        return
    o = ors[0]
    w, m = ast.unparse(o.target.slice), ast.unparse(o.value)
    wa = [ast.unparse(a[1]) for a in seg if a[0] == win_list]
    ma = [ast.unparse(a[1]) for a in seg if a[0] == mask_list]
    run.check(wa == [w] and ma == [m], 'C18.union', fi.qual, 'recorded pair', 'the (window, mask) OR-ed into the aperture is the pair recorded for the segment',
              'the aperture gets %s[%s] |= %s but the lists record window %s and mask %s' % (mask_name, w, m, wa, ma), fi.loc(o))
    # neither name is rebound between the OR and its append
    for nm, lst in ((w, win_list), (m, mask_list)):
        ap = [a[2] for a in seg if a[0] == lst]
        if not ap:
            continue
        lo_, hi_ = sorted((o.lineno, ap[0].lineno))
        rebound = [st for st in lp.body if isinstance(st, ast.Assign) and lo_ < st.lineno < hi_ and nm in [x.id for t in st.targets for x in ast.walk(t) if isinstance(x, ast.Name)]]
        run.check(not rebound, 'C18.union', fi.qual, '%s stable' % nm, '%s is not rebound between the OR and the append' % nm, '%s is reassigned between being OR-ed into the aperture and being recorded' % nm, fi.loc(o))


def mask_writers(run, fi, mask_name, allowed):
    """Every write to the global mask has one of the allowed forms."""
    n_w = 0
    for n in walk_no_nested(fi.node):
        tgt = None
        if isinstance(n, ast.Assign):
            for t in n.targets:
                base = t.value if isinstance(t, ast.Subscript) else t
                if isinstance(base, ast.Name) and base.id == mask_name:
                    tgt = ('=', t, n)
        elif isinstance(n, ast.AugAssign):
            base = n.target.value if isinstance(n.target, ast.Subscript) else n.target
            if isinstance(base, ast.Name) and base.id == mask_name:
                tgt = (type(n.op).__name__, n.target, n)
        if tgt is None:
            continue
        n_w += 1
        op, t, st = tgt
        form = '%s%s' % ('sub' if isinstance(t, ast.Subscript) else 'whole', op)
        val = ast.unparse(st.value).replace(' ', '')
        sl = ast.unparse(t.slice).replace(' ', '') if isinstance(t, ast.Subscript) else None

        def accepts(v):
            if v is None:
                return True
            try:
                return v(val, sl)
            except TypeError:
                return v(val)
        ok = any(f == form and accepts(v) for f, v in allowed)
        run.check(ok, 'C18.union', fi.qual, norm_stmt(st), 'write to the aperture mask has an allowed form (%s)' % form,
                  'the aperture mask %s is written by `%s`, which is not a recorded-segment OR, the initial zero mask or the spider removal' % (mask_name, norm_stmt(st)), fi.loc(st))
    if n_w < 2:
        raise AnalysisError('%s: writes to %s not found' % (fi.qual, mask_name))


def confine(run, db, qual, zipped, center=None):
    fi = db.func(qual)
    loops = [n for n in walk_no_nested(fi.node) if isinstance(n, ast.For) and isinstance(n.iter, ast.Call) and ast.unparse(n.iter.func) == 'zip']
    if len(loops) != 1:
        raise AnalysisError('%s: loop over the zipped segment lists not found' % qual)
    lp = loops[0]
    args = [ast.unparse(a) for a in lp.iter.args]
    tnames = [ast.unparse(e) for e in lp.target.elts] if isinstance(lp.target, ast.Tuple) else []
    run.check(args[:2] == zipped, 'C18.confine', fi.qual, 'zipped lists', 'windows and masks are zipped from the lock-stepped lists %s' % zipped, 'compose_opd zips %s' % args, fi.loc(lp))
    if len(tnames) < 4:
        raise AnalysisError('%s: loop target is not (win, mask, base, c)' % qual)
    win, mask, base, c = tnames[:4]
    body = lp.body
    idx = {}
    OUT = TILE = None
    for pats in (['V_tile = sum_of_2d_modes(%s, %s)' % (base, c), 'V_tile *= %s' % mask, 'V_out[%s] += V_tile' % win],
                 ['V_tile = sum_of_2d_modes(%s, %s)' % (base, c), 'V_tile = V_tile * %s' % mask, 'V_out[%s] += V_tile' % win],
                 ['V_tile = sum_of_2d_modes(%s, %s)' % (base, c), 'V_out[%s] += V_tile * %s' % (win, mask)]):
        bm = match_all(body, pats, ordered=True)
        if bm is not None:
            OUT, TILE = bm['V_out'], bm['V_tile']
            nodes = bm['@nodes']
            idx = {'tile': body.index(nodes[0]), 'mask': body.index(nodes[1]), 'acc': body.index(nodes[-1])}
            break
    ok = 'tile' in idx and 'mask' in idx and 'acc' in idx and idx['tile'] < idx['acc'] and idx['tile'] <= idx['mask'] <= idx['acc']
    run.check(ok, 'C18.confine', fi.qual, 'mask before accumulate', "the tile is multiplied by the segment's own mask before it is added into the segment's own window",
              'compose_opd does not multiply the tile by the zipped mask before `out[win] += tile` (statements: %s)' % [ast.unparse(s) for s in body], fi.loc(lp))
    def _base_name(st):
        t = st.targets[0] if isinstance(st, ast.Assign) else st.target
        b_ = t.value if isinstance(t, ast.Subscript) else t
        return b_.id if isinstance(b_, ast.Name) else None
    others = [st for st in body if isinstance(st, (ast.Assign, ast.AugAssign)) and OUT is not None and _base_name(st) == OUT and body.index(st) != idx.get('acc')]
    run.check(not others, 'C18.confine', fi.qual, 'single accumulation', 'the output is written once per segment', 'the output is written more than once per segment', fi.loc(lp))
    if center:
        okc = OUT is not None and (match_all(fi.node, ['%s[self.center_window] += V_t * self.center_mask' % OUT, 'V_t = sum_of_2d_modes(self.opd_bases[0], center_coefs)']) is not None)
        run.check(okc, 'C18.confine', fi.qual, 'centre segment', 'the centre tile is masked by the centre mask and ADDED into the centre window', 'centre segment composition changed', fi.loc())


def separable_rules(run, db):
    """optimize_xy_separable (used by the rectangle / offset circle / gaussian primitives): x stays the COLUMN coordinate and
    y the ROW coordinate, for meshgrid input and for 1-D axis vectors."""
    from ..core.interp import Interp
    from ..domains.shape import ShapeDomain, Sh
    f = db.func('prysm.coordinates.optimize_xy_separable')
    for label, xin, yin, want in (('2-D meshgrids (M, N)', Sh(('M', 'N')), Sh(('M', 'N')), (('N',), ('M', 1))), ('1-D axis vectors (N,), (M,)', Sh(('N',)), Sh(('M',)), ((1, 'N'), ('M', 1)))):
        dom = ShapeDomain({})
        it = Interp(db, dom)
        res = [p for p in it.run(f, kwargs=lambda: {'x': xin, 'y': yin}) if p.outcome == 'return']
        if not res:
            raise AnalysisError('optimize_xy_separable: no returning path (%s)' % label)
        for p in res:
            v = p.value
            got = tuple(x_.dims if isinstance(x_, Sh) else None for x_ in v.items) if hasattr(v, 'items') and len(v.items) == 2 else None
            run.check(got == want, 'C18.boundary', f.qual, 'separable axes: ' + label, 'x varies along the last axis (columns), y along the first (rows): shapes %s [%s]' % (want, label),
                      'optimize_xy_separable returns shapes %s for %s, expected %s: x and y exchange roles (the masks of the primitives built on it come out transposed)' % (got, label, want), f.loc())


def band_rules(run, db):
    """Keystone rings: the radial band of a ring is half-open, so that with zero radial gap a sample exactly on a shared ring
    radius belongs to one ring only."""
    from ..core.interp import Interp, Frame
    from ..core.norm import Rat
    from ..domains.normdom import install_pi
    from ..domains.pred import PredDomain, Pred, eval_pred
    fk = db.func(S + '_composite_keystone_aperture')
    # the ring band is the mask built from circle()/annulus() of the radial grid inside the ring loop
    cdefs = {}
    for n in ast.walk(fk.node):
        if isinstance(n, ast.Assign) and isinstance(n.targets[0], ast.Name) and isinstance(n.value, ast.Call) and ast.unparse(n.value.func) in ('circle', 'annulus'):
            cdefs[n.targets[0].id] = n
    arcs = []
    for n in ast.walk(fk.node):
        if isinstance(n, ast.Assign) and isinstance(n.targets[0], ast.Name):
            v = n.value
            names = {x.id for x in ast.walk(v) if isinstance(x, ast.Name)}
            if isinstance(v, ast.BinOp) and len(names & set(cdefs)) >= 2:
                arcs.append(n)
            elif isinstance(v, ast.Call) and ast.unparse(v.func) == 'annulus' and n.targets[0].id not in cdefs:
                arcs.append(n)
    if not arcs:
        arcs = [cdefs[k] for k in cdefs if ast.unparse(cdefs[k].value.func) == 'annulus']
    if len(arcs) != 1:
        raise AnalysisError('keystone aperture: the ring band (a combination of two circle() masks, or an annulus()) was not found uniquely (%d candidates)' % len(arcs))
    # its two radii and the radial grid, as the circle()/annulus() calls name them
    used_ = {x.id for x in ast.walk(arcs[0].value) if isinstance(x, ast.Name)}
    calls_ = [cdefs[k].value for k in cdefs if k in used_] if isinstance(arcs[0].value, ast.BinOp) else [arcs[0].value]
    radii, grids = [], set()
    for c in calls_:
        if ast.unparse(c.func) == 'circle' and len(c.args) == 2:
            radii.append(ast.unparse(c.args[0]))
            grids.add(ast.unparse(c.args[1]))
        elif ast.unparse(c.func) == 'annulus' and len(c.args) == 3:
            radii += [ast.unparse(c.args[0]), ast.unparse(c.args[1])]
            grids.add(ast.unparse(c.args[2]))
    radii = sorted(set(radii))
    if len(radii) != 2 or len(grids) != 1:
        raise AnalysisError('keystone aperture: the ring band does not compare one radial grid with two radii (%s, %s)' % (radii, sorted(grids)))
    defs = {}
    for n in ast.walk(fk.node):
        if isinstance(n, ast.Assign) and isinstance(n.targets[0], ast.Name):
            defs.setdefault(n.targets[0].id, []).append(n)
    dom = PredDomain(coords=('r',))
    it = install_pi(Interp(db, dom))
    it._reset_run([])
    R = dom.R
    inner, g = Rat(R.atom('inner')), Rat(R.atom('gap'))
    verdicts = []
    for ra_, rb_ in ((radii[0], radii[1]), (radii[1], radii[0])):
        fr = Frame(fk, fk.module, {ra_: dom.sym('inner'), rb_: dom.sym('outer'), sorted(grids)[0]: dom.sym('r')})
        for nm in sorted({x.id for x in ast.walk(arcs[0].value) if isinstance(x, ast.Name)} - {ra_, rb_, sorted(grids)[0]}):
            ds = defs.get(nm, [])
            if len(ds) == 1:
                fr.env[nm] = it.ev(ds[0].value, fr)
        v = it.ev(arcs[0].value, fr)
        if not isinstance(v, Pred):
            raise AnalysisError('keystone aperture: the ring band is not a predicate over the radius: %r' % (v,))
        at_in = eval_pred(v, {'r': inner, 'outer': inner + g}, {'gap', 'inner'})
        at_out = eval_pred(v, {'r': inner + g, 'outer': inner + g}, {'gap', 'inner'})
        mid = eval_pred(v, {'r': inner + g / 2, 'outer': inner + g}, {'gap', 'inner'})
        if at_in is None or at_out is None or mid is None:
            raise AnalysisError('keystone aperture: could not evaluate the band %s on its boundaries' % v.key())
        verdicts.append((mid, at_in, at_out))
    mid, at_in, at_out = next((vd for vd in verdicts if vd[0]), verdicts[0])
    run.check(mid is True and not (at_in and at_out), 'C18.band', fk.qual, 'ring band', 'the band of a ring contains its interior and at most one of its two boundary radii (half-open)',
              'the ring band `%s` contains BOTH r = inner_radius and r = outer_radius%s: with radial_gap == 0 a sample exactly on the radius shared by two rings belongs to a segment of each ring '
              '(two segments claim one sample)' % (ast.unparse(arcs[0].value), '' if mid else ' / misses its interior'), fk.loc(arcs[0]))


def mask_memo_rules(run, db):
    """Segment masks are rasterised per segment; if a builder memoises them, the key must determine the whole local grid."""
    from .purity import local_memo_completeness
    for q in (S + '_composite_hexagonal_aperture', S + '_composite_keystone_aperture'):
        fi = db.func(q)
        res = local_memo_completeness(fi)
        for st, memo, bad in res:
            run.check(not bad, 'C18.union', fi.qual, 'memo %s' % memo, 'the memo %s is keyed by everything that varies from segment to segment in what it stores' % memo,
                      'the memo %s stores a value computed from %s, which changes from segment to segment but is not determined by the key: a later segment re-uses the mask rasterised for an earlier one on a '
                      'different local grid (boundary samples on the wrong side of the segment edge; neighbouring segments can overlap)' % (memo, bad), fi.loc(st))
        if not res:
            run.ok('C18.union', fi.qual, 'segment masks are rasterised per segment (no in-function memo)')


def ids_rules(run, db):
    """Hexagonal aperture: ring i is numbered after ALL ids of ring i-1, whatever is excluded."""
    from .common import loop_carried, reaching_at_end, ENTRY
    fh = db.func(S + '_composite_hexagonal_aperture')
    rings = [n for n in walk_no_nested(fh.node) if isinstance(n, ast.For) and 'rings' in ast.unparse(n.iter)]
    if len(rings) != 1:
        raise AnalysisError('hexagonal aperture: ring loop not found')
    ring = rings[0]
    carried = loop_carried(ring)
    # the ring's ids are an arange assigned at the top level of the ring loop; the counter is the name its lower bound is built from
    idsdef = [st for st in ring.body if isinstance(st, ast.Assign) and isinstance(st.targets[0], ast.Name) and isinstance(st.value, ast.Call) and ast.unparse(st.value.func).endswith('arange') and len(st.value.args) >= 2]
    if len(idsdef) != 1:
        raise AnalysisError('hexagonal aperture: `ids = arange(lo, hi)` not found in the ring loop')
    IDS = idsdef[0].targets[0].id
    lo_names = [x.id for x in ast.walk(idsdef[0].value.args[0]) if isinstance(x, ast.Name)]
    if len(lo_names) != 1 or lo_names[0] not in carried:
        raise AnalysisError('hexagonal aperture: the id counter is not carried from ring to ring (carried: %s)' % sorted(carried))
    SID = lo_names[0]
    lo, hi = [ast.unparse(a).replace(' ', '') for a in idsdef[0].value.args[:2]]
    # which list is counted, and is it still unfiltered at that point?
    cnt = [n for n in ast.walk(idsdef[0].value.args[1]) if isinstance(n, ast.Call) and ast.unparse(n.func) == 'len']
    okc = lo == '%s+1' % SID and len(cnt) == 1 and hi == '%s+1+len(%s)' % (SID, ast.unparse(cnt[0].args[0]))
    counted = ast.unparse(cnt[0].args[0]) if cnt else '?'
    pos = ring.body.index(idsdef[0])
    defs_before = [st for st in ring.body[:pos] if isinstance(st, ast.Assign) and ast.unparse(st.targets[0]) == counted]
    hexdef = [st.targets[0].id for st in ring.body[:pos] if isinstance(st, ast.Assign) and isinstance(st.targets[0], ast.Name) and isinstance(st.value, ast.Call) and ast.unparse(st.value.func) == 'hex_ring']
    unfiltered = len(defs_before) == 1 and len(hexdef) == 1 and any(isinstance(x, ast.Name) and x.id == hexdef[0] for x in ast.walk(defs_before[0].value)) \
        and not any(isinstance(x, ast.Name) and x.id == 'exclude' for x in ast.walk(defs_before[0].value)) and not isinstance(defs_before[0].value, ast.Subscript)
    run.check(okc and unfiltered, 'C18.ids', fh.qual, 'ring ids', 'the ids of a ring are counter+1 .. counter+len(ring), counted over the unfiltered ring (6 i segments)',
              'ring ids are arange(%s, %s) with `%s` %s: the documented numbering (6 i ids per ring, exclusions leave gaps) is lost' % (lo, hi, counted, 'unfiltered' if unfiltered else 'already filtered by the exclusion mask'), fh.loc(idsdef[0]))
    reach = reaching_at_end(ring.body, SID)
    bad = []
    for d in reach:
        if d is ENTRY:
            bad.append('the value it had when the ring started (the counter never advances on some path)')
        elif isinstance(d, ast.For):
            bad.append('the inner loop variable of `for %s in %s` (the last NON-EXCLUDED id of the ring; a ring whose last id is excluded, or a fully excluded ring, leaves the counter too low and the next ring re-uses ids)'
                       % (ast.unparse(d.target), ast.unparse(d.iter)))
        elif isinstance(d, ast.Assign) and ast.unparse(d.value).replace(' ', '') in ('%s[-1]' % IDS, '%s+len(%s)' % (SID, counted)) and (ast.unparse(d.value).replace(' ', '') == '%s[-1]' % IDS or unfiltered):
            continue
        else:
            bad.append('`%s`' % norm_stmt(d))
    run.check(not bad, 'C18.ids', fh.qual, 'ring-to-ring counter', 'at the end of every ring the counter is the last id of the unfiltered ring (`ids[-1]`), on every path',
              'at the end of a ring the id counter can be %s' % '; or '.join(bad), fh.loc(ring))
    # the per-segment id appended is the loop variable of the filtered (valid_ids, centers) pair
    bp = match_all(ring.body, ['V_im = ~np.isin(%s, exclude, assume_unique=True)' % IDS, 'V_valid = %s[V_im]' % IDS, 'V_cen = V_cen[V_im]'])
    inner = [n for n in ring.body if isinstance(n, ast.For)]
    ok = bp is not None and len(inner) == 1 and ast.unparse(inner[0].iter).replace(' ', '') == 'zip(%s,%s)' % (bp['V_valid'], bp['V_cen']) \
        and isinstance(inner[0].target, ast.Tuple) and len(inner[0].target.elts) == 2 and ast.unparse(inner[0].target.elts[0]) == SID
    run.check(ok, 'C18.ids', fh.qual, 'id/centre pairing', 'ids and centres are filtered by the same exclusion mask and walked together', 'ids and centres are no longer filtered by one mask and zipped', fh.loc(ring))
    # keystone: one counter, advanced once per segment, unconditionally
    fk = db.func(S + '_composite_keystone_aperture')
    rk_ = [n for n in walk_no_nested(fk.node) if isinstance(n, ast.Return)]
    idlist = None
    for dnode in [n for r_ in rk_ for n in ast.walk(r_.value) if isinstance(n, ast.Dict)]:
        for k_, v_ in zip(dnode.keys, dnode.values):
            if isinstance(k_, ast.Constant) and k_.value == 'ids' and isinstance(v_, ast.Name):
                idlist = v_.id
    if idlist is None:
        raise AnalysisError("keystone aperture: the returned dictionary has no 'ids' entry")
    loop = _innermost_loop_with(fk, idlist)
    apps = [a for a in _appends(loop.body) if a[0] == idlist] if loop is not None else []
    KID = ast.unparse(apps[0][1]) if len(apps) == 1 and isinstance(apps[0][1], ast.Name) else None
    incs = [n for n in walk_no_nested(fk.node) if isinstance(n, ast.AugAssign) and KID is not None and ast.unparse(n.target) == KID]
    ok = len(incs) == 1 and isinstance(incs[0].op, ast.Add) and ast.unparse(incs[0].value) == '1' and loop is not None and incs[0] in loop.body
    if not ok and KID is not None:
        # or: the id is the number of segments recorded so far (`ids.append(len(ids))`, possibly through a local): consecutive by construction
        kdefs = [n for n in ast.walk(fk.node) if isinstance(n, ast.Assign) and any(isinstance(t_, ast.Name) and t_.id == KID for t_ in n.targets)]
        ok = bool(kdefs) and all(ast.unparse(n.value).replace(' ', '') == 'len(%s)' % idlist for n in kdefs) and not incs
    if not ok and len(apps) == 1 and ast.unparse(apps[0][1]).replace(' ', '') == 'len(%s)' % idlist:
        ok = True
    run.check(ok, 'C18.ids', fk.qual, 'keystone counter', 'the keystone id counter advances by one per segment, unconditionally, in the per-segment loop', 'keystone id counter no longer advances once per segment', fk.loc(incs[0]) if incs else fk.loc())


# --------------------------------------------------------------------------
def boundary_rules(run, db):
    """Geometric primitives as formulas: the returned mask is exactly the analytic inequality."""
    from ..core.interp import Interp, Const, Tup, Unknown
    from ..core.norm import Rat, diff, _rat
    from ..domains.normdom import install_pi, Sym
    from ..domains.pred import PredDomain, Pred, cmp_pred, p_and, p_or, p_not
    G = 'prysm.geometry.'

    def mk():
        dom = PredDomain(coords=('x', 'y', 'r'))
        it = install_pi(Interp(db, dom))
        dom.nonzero = {'pi'}

        def call_prysm(fi, args, kwargs, node):
            if fi.name == 'optimize_xy_separable':
                return Tup([args[0], args[1]])
            return None
        dom.call_prysm = call_prysm
        return it, dom

    def le(dom, a, b):
        return cmp_pred(dom, ast.LtE(), a, b)

    def lt(dom, a, b):
        return cmp_pred(dom, ast.Lt(), a, b)

    def one_return(it, f, kw, what):
        res = [p for p in it.run(f, kwargs=lambda: dict(kw)) if p.outcome == 'return']
        if len(res) != 1:
            raise AnalysisError('%s (%s): expected one returning path, got %d' % (f.qual, what, len(res)))
        return res[0]

    def verdict(f, construct, got, want, text):
        if not isinstance(got, Pred):
            raise AnalysisError('%s (%s): the result is not a predicate over the coordinates: %r' % (f.qual, construct, got))
        run.check(got == want, 'C18.boundary', f.qual, construct, text, '%s (%s) returns the sample set %s, the analytic region is %s' % (f.name, construct, got.key(), want.key()), f.loc())

    # circle / annulus / offset_circle
    it, dom = mk()
    R = dom.R
    A = lambda n: Rat(R.atom(n))
    f = db.func(G + 'circle')
    p = one_return(it, f, {'radius': dom.sym('radius'), 'r': dom.sym('r')}, 'circle')
    verdict(f, 'region', p.value, le(dom, A('r'), A('radius')), 'circle == {r <= radius} (boundary included)')
    f = db.func(G + 'annulus')
    p = one_return(it, f, {'rin': dom.sym('rin'), 'rout': dom.sym('rout'), 'r': dom.sym('r')}, 'annulus')
    verdict(f, 'region', p.value, p_and(le(dom, A('rin'), A('r')), le(dom, A('r'), A('rout'))), 'annulus == {rin <= r <= rout}')
    f = db.func(G + 'offset_circle')
    p = one_return(it, f, {'radius': dom.sym('radius'), 'x': dom.sym('x'), 'y': dom.sym('y'), 'center': Tup([dom.sym('cx'), dom.sym('cy')])}, 'offset_circle')
    rr = _rat(R.sqrt((A('x') - A('cx')) * (A('x') - A('cx')) + (A('y') - A('cy')) * (A('y') - A('cy'))))
    verdict(f, 'region', p.value, le(dom, rr, A('radius')), 'offset_circle == {|(x, y) - centre| <= radius}')

    # rectangle: angle 0, 90 and general
    f = db.func(G + 'rectangle')
    for label, ang, hgt in (('angle=0', Const(0), 'height'), ('angle=0, height=None', Const(0), None), ('angle=90', Const(90), 'height'), ('general angle', 'sym', 'height')):
        it, dom = mk()
        R = dom.R
        A = lambda n: Rat(R.atom(n))
        dom.nonzero = {'pi', 'angle'}
        kw = {'width': dom.sym('width'), 'x': dom.sym('x'), 'y': dom.sym('y'), 'height': dom.sym('height') if hgt else Const(None), 'angle': dom.sym('angle') if ang == 'sym' else ang}
        res = [q for q in it.run(f, kwargs=lambda: dict(kw)) if q.outcome == 'return']
        if ang == 'sym':
            # paths special-cased by an equality with a constant angle are judged by the constant-angle cases; every other path must be the general rotation
            import re as _re
            special = [q for q in res if any(_re.fullmatch(r'angle==-?\d+(\.\d+)?', c.replace(' ', '')) and t for c, t in q.conds)]
            consts = sorted({c.replace(' ', '').split('==')[1] for q in special for c, t in q.conds if t and _re.fullmatch(r'angle==-?\d+(\.\d+)?', c.replace(' ', ''))})
            run.check(consts in ([], ['90']), 'C18.boundary', f.qual, 'special-cased angles', 'only angle == 90 is special-cased (by exchanging x and y)',
                      'rectangle special-cases the angles %s; only the 90 degree shortcut is known to equal the rotation' % consts, f.loc())
            res = [q for q in res if q not in special]
        if len(res) != 1:
            if ang == 'sym' and len(res) > 1:
                for q in res:
                    extra = [c for c, t in q.conds if t and 'angle' in c and c.replace(' ', '') != 'angle!=0']
                    if extra:
                        run.finding('C18.boundary', f.qual, 'general angle: path under %s' % extra, 'for a general angle rectangle takes a shortcut under the condition %s, which holds for angles at which the shortcut '
                                    'is not the rotation (e.g. 180 degrees with height != width exchanges width and height)' % extra, f.loc())
                res = [q for q in res if not [c for c, t in q.conds if t and 'angle' in c and c.replace(' ', '') != 'angle!=0']]
            if len(res) != 1:
                raise AnalysisError('rectangle (%s): expected one path, got %d' % (label, len(res)))
        w, h = A('width'), (A('height') if hgt else A('width'))
        X, Y = A('x'), A('y')
        if label == 'angle=90':
            X, Y = Y, X
        elif ang == 'sym':
            rho = _rat(R.sqrt(X * X + Y * Y))
            phi = Rat(R.func('arctan2', [A('y'), A('x')])) + A('angle') * A('pi') / 180
            X, Y = rho * _rat(R.trig('cos', phi)), rho * _rat(R.trig('sin', phi))
        want = p_and(le(dom, Y, h), le(dom, -h, Y), le(dom, X, w), le(dom, -w, X))
        verdict(f, label, res[0].value, want, 'rectangle (%s) == {|x\'| <= width, |y\'| <= height} with (x\', y\') the coordinates turned by +angle (polar angle + radians(angle))' % label)

    # rotated ellipse: zero where the quadratic form of a rotated frame exceeds 1
    it, dom = mk()
    R = dom.R
    A = lambda n: Rat(R.atom(n))
    f = db.func(G + 'rotated_ellipse')
    kw = {'width_major': dom.sym('a'), 'width_minor': dom.sym('b'), 'x': dom.sym('x'), 'y': dom.sym('y'), 'major_axis_angle': dom.sym('angle')}
    res = [q for q in it.run(f, kwargs=lambda: dict(kw)) if q.outcome == 'return']
    if len(res) != 1:
        raise AnalysisError('rotated_ellipse: expected one returning path, got %d' % len(res))
    stores = [e for e in res[0].events if e['kind'] == 'maskstore']
    ok_shape = len(stores) == 1 and isinstance(res[0].value, Const) and res[0].value.v == 1 and isinstance(stores[0]['value'], Const) and stores[0]['value'].v == 0 \
        and stores[0]['pred'].kind == 'cmp' and stores[0]['pred'].args[0] in ('<0', '<=0')
    if not ok_shape:
        raise AnalysisError('rotated_ellipse: not of the form ones; arr[Q > 1] = 0: %r' % (stores,))
    run.check(stores[0]['pred'].args[0] == '<0', 'C18.boundary', f.qual, 'boundary', 'samples exactly on the ellipse (Q == 1) are kept: only {Q > 1} is zeroed',
              'rotated_ellipse zeroes {Q >= 1}: samples exactly on the analytic boundary are excluded', f.loc(stores[0]['node']))
    Q = Rat(R.const(1)) - stores[0]['pred'].args[1]            # pred is 1 - Q < 0
    Qxx, Qyy, Qxy = diff(diff(Q, 'x', R), 'x', R) / 2, diff(diff(Q, 'y', R), 'y', R) / 2, diff(diff(Q, 'x', R), 'y', R)
    X, Y = A('x'), A('y')
    pure = (Q - (Qxx * X * X + Qxy * X * Y + Qyy * Y * Y)).is_zero()
    ang = -A('angle') * A('pi') / 180
    c, s_ = _rat(R.trig('cos', ang)), _rat(R.trig('sin', ang))
    a2, b2 = A('a') * A('a'), A('b') * A('b')
    okq = pure and Qxx == c * c / a2 + s_ * s_ / b2 and Qyy == s_ * s_ / a2 + c * c / b2 and (Qxy * Qxy == (2 * c * s_ * (1 / a2 - 1 / b2)) * (2 * c * s_ * (1 / a2 - 1 / b2)))
    run.check(okq, 'C18.boundary', f.qual, 'quadratic form', 'the ellipse is {u^2/a^2 + v^2/b^2 <= 1} with (u, v) an exact rotation of (x, y) by the major-axis angle: Q = R^T diag(1/a^2, 1/b^2) R',
              'rotated_ellipse zeroes {Q > 1} with Q = %s: its quadratic form is not R^T diag(1/a^2, 1/b^2) R for the rotation by the major-axis angle (xx: %s, yy: %s, xy: %s) -- '
              '(u, v) is not an orthonormal rotation of (x, y), so the region is a skewed/enlarged ellipse except at multiples of 90 degrees' % (Q.key(), Qxx.key(), Qyy.key(), Qxy.key()), f.loc())
    guard = [q for q in it.run(f, kwargs=lambda: dict(kw)) if q.outcome == 'raise']
    run.check(len(guard) == 1 and any('width_minor > width_major' in c0 and t for c0, t in guard[0].conds), 'C18.boundary', f.qual, 'axis guard', 'minor > major is rejected', 'the major/minor guard changed', f.loc())

    # spider: complement of the union of half-strips turned by 360/vanes
    f = db.func(G + 'spider')
    for vanes in (1, 2, 3, 4):
        for rot in ('rotation=0', 'rotation (degrees)'):
            it, dom = mk()
            R = dom.R
            A = lambda n: Rat(R.atom(n))
            dom.nonzero = {'pi', 'rotation'}
            kw = {'vanes': Const(vanes), 'width': dom.sym('width'), 'x': dom.sym('x'), 'y': dom.sym('y'), 'rotation': Const(0) if rot == 'rotation=0' else dom.sym('rotation'),
                  'center': Tup([dom.sym('cx'), dom.sym('cy')]), 'rotation_is_rad': Const(False)}
            res = [q for q in it.run(f, kwargs=lambda: dict(kw)) if q.outcome == 'return']
            vals = {q.value.key() if isinstance(q.value, Pred) else repr(q.value) for q in res}
            if len(vals) != 1:
                raise AnalysisError('spider (vanes=%d, %s): paths disagree or no path: %s' % (vanes, rot, sorted(vals)[:2]))
            X, Y = A('x') - A('cx'), A('y') - A('cy')
            rho = _rat(R.sqrt(X * X + Y * Y))
            phi = Rat(R.func('arctan2', [Y, X]))
            if rot != 'rotation=0':
                phi = phi - A('rotation') * A('pi') / 180
            arms = []
            for k in range(vanes):
                pk = phi + Rat(R.const(360 * k)) / vanes * A('pi') / 180
                xk, yk = rho * _rat(R.trig('cos', pk)), rho * _rat(R.trig('sin', pk))
                ay = Rat(R.func('abs', [yk]))
                arms.append(p_and(lt(dom, Rat(R.const(0)), xk), lt(dom, ay, A('width') / 2)))
            want = p_not(p_or(*arms)) if len(arms) > 1 else p_not(arms[0])
            verdict(f, 'vanes=%d, %s' % (vanes, rot), res[0].value, want,
                    'spider == complement of the union over k of {x_k > 0, |y_k| < width/2}, (x_k, y_k) the centred coordinates turned by -rotation + 360 k/vanes degrees')

    # regular polygon: vertices on the circle, equally spaced; point-in-polygon wiring
    it, dom = mk()
    R = dom.R
    A = lambda n: Rat(R.atom(n))
    orig = dom.call_ext

    def call_ext(dotted, args, kwargs, node):
        if dotted == 'numpy.arange':
            return dom.sym('k')
        if dotted == 'numpy.stack' and args and isinstance(args[0], Tup):
            return Tup(list(args[0].items) + [kwargs.get('axis', Const(0))])
        return orig(dotted, args, kwargs, node)
    dom.call_ext = call_ext
    f = db.func(G + '_generate_vertices')
    p = one_return(it, f, {'sides': dom.sym('sides'), 'radius': dom.sym('radius'), 'center': Tup([dom.sym('cx'), dom.sym('cy')]), 'rotation': dom.sym('rotation')}, 'vertices')
    v = p.value
    if not (isinstance(v, Tup) and len(v.items) == 3):
        raise AnalysisError('_generate_vertices: not stack((x, y), axis=1)')
    th = A('k') * 2 * A('pi') / A('sides') + A('rotation') * A('pi') / 180
    wx, wy = A('radius') * _rat(R.trig('sin', th)) + A('cx'), A('radius') * _rat(R.trig('cos', th)) + A('cy')
    gx, gy = dom.rat(v.items[0]), dom.rat(v.items[1])
    run.check(gx is not None and gy is not None and gx == wx and gy == wy and isinstance(v.items[2], Const) and v.items[2].v == 1, 'C18.boundary', f.qual, 'vertices',
              'vertex k = centre + radius (sin, cos)(2 pi k/sides + rotation): on the circumscribed circle, equally spaced, stacked as (x, y) columns',
              'polygon vertices are (%s, %s), expected centre + radius (sin, cos)(2 pi k/sides + rotation)' % (gx.key() if gx is not None else '?', gy.key() if gy is not None else '?'), f.loc())
    # point in polygon, decided by interpreting regular_polygon with the vertex routine and the triangulation summarised:
    # the hull is triangulated from the vertices of (sides, radius, center, rotation), queried with (x, y) pairs stacked on the last axis,
    # and a sample is inside exactly when a simplex was found (index >= 0)
    from .common import capture_calls
    from ..core.interp import Value
    from ..domains.pred import PredDomain, Pred, eval_pred
    from ..domains.normdom import install_pi

    class Tri(Value):
        def __init__(self, pts):
            self.pts = pts
    f = db.func(G + 'regular_polygon')
    pdom = PredDomain(coords=('SIMPLEX',))
    pit = install_pi(Interp(db, pdom))
    queries = []
    oe, om = pdom.call_ext, pdom.method

    def call_ext(dotted, args, kwargs, node):
        last = dotted.rsplit('.', 1)[-1]
        if last in ('array', 'asarray') and args and pdom.rat(args[0]) is not None:
            return args[0]
        if last == 'stack' and args and isinstance(args[0], Tup) and len(args[0].items) == 2 and all(pdom.rat(z) is not None for z in args[0].items):
            ax = kwargs.get('axis', args[1] if len(args) > 1 else Const(0))
            return pdom.func_atom('stack_axis%s' % (ax.v if isinstance(ax, Const) else '?'), list(args[0].items))
        if last == 'Delaunay' and args:
            return Tri(args[0])
        if dotted == 'builtins.hasattr':
            return Const(False)
        return oe(dotted, args, kwargs, node)

    def method(v, name, args, kwargs, node):
        if isinstance(v, Tri) and name == 'find_simplex' and args:
            queries.append((v.pts, args[0]))
            return pdom.sym('SIMPLEX')
        return om(v, name, args, kwargs, node)
    pdom.call_ext, pdom.method = call_ext, method
    paths, vcalls = capture_calls(pit, pdom, f, lambda: {'sides': pdom.sym('sides'), 'radius': pdom.sym('radius'), 'x': pdom.sym('X'), 'y': pdom.sym('Y'),
                                                         'center': Tup([pdom.sym('cx'), pdom.sym('cy')]), 'rotation': pdom.sym('rotation')},
                                  {G + '_generate_vertices'}, lambda fi_, b_: pdom.sym('VERTS'))
    rets = [p_ for p_ in paths if p_.outcome == 'return']
    keyp = lambda v_: pdom.rat(v_).key() if v_ is not None and pdom.rat(v_) is not None else repr(v_)
    okw = len(vcalls) == 1 and keyp(vcalls[0][1].get('sides')) == 'sides' and keyp(vcalls[0][1].get('radius')) == 'radius' and keyp(vcalls[0][1].get('rotation')) == 'rotation' \
        and isinstance(vcalls[0][1].get('center'), Tup) and [keyp(z) for z in vcalls[0][1]['center'].items] == ['cx', 'cy']
    run.check(okw, 'C18.boundary', f.qual, 'wiring', 'regular_polygon passes (sides, radius, center, rotation) and (x, y) through',
              'regular_polygon hands %s to the vertex routine' % [{k: keyp(v) for k, v in c_[1].items()} for c_ in vcalls], f.loc())
    okq = len(queries) == 1 and keyp(queries[0][0]) == 'VERTS' and keyp(queries[0][1]) == 'stack_axis2(X,Y)'
    inside = rets[0].value if len(rets) == 1 else None
    okin = isinstance(inside, Pred)
    if okin:
        PR = pdom.R
        c_ = lambda v_: Rat(PR.const(v_))
        okin = eval_pred(inside, {'SIMPLEX': c_(-1)}, set()) is False and eval_pred(inside, {'SIMPLEX': c_(0)}, set()) is True and eval_pred(inside, {'SIMPLEX': c_(7)}, set()) is True
    run.check(okq and okin, 'C18.boundary', db.func(G + '_generate_mask').qual, 'point in polygon', 'samples are (x, y) pairs in the vertex order; inside == a simplex of the triangulated hull was found',
              'the hull of %s is queried with %s and a sample counts as inside when %s' % ([keyp(q_[0]) for q_ in queries], [keyp(q_[1]) for q_ in queries], inside.key() if isinstance(inside, Pred) else repr(inside)), f.loc())


def check(run, db, tier):
    run.trust('statement-order dataflow over the per-segment loop bodies (appends, the OR into the aperture, name rebinding)')
    run.assume('NARROW claim for the composite apertures: disjointness and areas of rasterised segments are geometry of values and are not decided; the bookkeeping that ties windows, masks, ids and the aperture together is',
               'primitives are decided as formulas (C18.boundary): monotonic growth and symmetry follow from the analytic inequality; the Delaunay point-in-polygon test itself (qhull) and truecircle are not decided')
    run.rule('C18.lockstep', 'per-segment lists are appended exactly once, unconditionally, with no early exit in between')
    run.rule('C18.union', 'the aperture mask is written only by OR-ing the (window, mask) pair that is also recorded (plus initialisation / spider removal)')
    run.rule('C18.confine', "composed OPD passes through the segment's own mask before accumulation into its own window")
    fh = db.func(S + '_composite_hexagonal_aperture')
    fk = db.func(S + '_composite_keystone_aperture')
    # the roles of the builders' local names are read off their interfaces: the position in the returned tuple that the
    # constructor unpacks into self.<attr> (hexagonal), the key of the returned dictionaries (keystone)
    fc = db.func(S + 'CompositeHexagonalAperture.__init__')
    unp = [n for n in walk_no_nested(fc.node) if isinstance(n, ast.Assign) and isinstance(n.value, ast.Call) and ast.unparse(n.value.func) == '_composite_hexagonal_aperture']
    rets = [n for n in walk_no_nested(fh.node) if isinstance(n, ast.Return)]
    if len(unp) != 1 or len(rets) != 1 or not isinstance(rets[0].value, ast.Tuple) or not isinstance(unp[0].targets[0], ast.Tuple) or len(unp[0].targets[0].elts) != len(rets[0].value.elts):
        raise AnalysisError('hexagonal aperture: constructor unpack / return not found or of different length')
    hrole = {ast.unparse(t).replace('self.', ''): ast.unparse(r) for t, r in zip(unp[0].targets[0].elts, rets[0].value.elts)}
    need = ('vtov', 'all_centers', 'windows', 'local_coords', 'local_masks', 'segment_ids', 'amp')
    if not all(k in hrole for k in need):
        raise AnalysisError('hexagonal aperture: the constructor does not unpack %s (got %s)' % (list(need), sorted(hrole)))
    run.group(lockstep, run, fh, [hrole['segment_ids'], hrole['windows'], hrole['local_coords'], hrole['local_masks']], hrole['amp'], hrole['windows'], hrole['local_masks'])
    run.group(mask_writers, run, fh, hrole['amp'], [('whole=', lambda v: v.startswith('np.zeros(')), ('subBitOr', None)])
    rk = [n for n in walk_no_nested(fk.node) if isinstance(n, ast.Return)]
    if len(rk) != 1:
        raise AnalysisError('keystone aperture: single return not found')
    krole = {}
    for dnode in [n for n in ast.walk(rk[0].value) if isinstance(n, ast.Dict)]:
        for k_, v_ in zip(dnode.keys, dnode.values):
            if isinstance(k_, ast.Constant) and isinstance(v_, ast.Name):
                krole[k_.value] = v_.id
    for k_ in ('windows', 'masks', 'mask', 'window', 'amplitude_mask'):
        if k_ not in krole:
            raise AnalysisError('keystone aperture: returned dictionaries have no plain entry %r (got %s)' % (k_, sorted(krole)))
    seg_loop = _innermost_loop_with(fk, krole['windows'])
    klists = sorted({a[0] for a in _appends(seg_loop.body)}) if seg_loop is not None else []
    if len(klists) < 8:
        raise AnalysisError('keystone aperture: fewer than eight per-segment lists found (%s)' % klists)
    run.group(lockstep, run, fk, klists, krole['amplitude_mask'], krole['windows'], krole['masks'])
    tainted = set()
    changed = True
    while changed:
        changed = False
        for n in walk_no_nested(fk.node):
            if isinstance(n, (ast.Assign, ast.AugAssign)):
                v = n.value
                hit = any((isinstance(x, ast.Call) and ast.unparse(x.func) == 'spider') or (isinstance(x, ast.Name) and x.id in tainted) for x in ast.walk(v))
                if hit:
                    tgts = n.targets if isinstance(n, ast.Assign) else [n.target]
                    for t in tgts:
                        b_ = t.value if isinstance(t, ast.Subscript) else t
                        if isinstance(b_, ast.Name) and b_.id not in tainted and b_.id != krole['amplitude_mask']:
                            tainted.add(b_.id)
                            changed = True
    inv_spiders = {'~' + x for x in tainted}
    run.group(mask_writers, run, fk, krole['amplitude_mask'], [('whole=', lambda v: v.startswith('np.zeros(')), ('subBitOr', None), ('sub=', lambda v: v == krole['mask']),
                                                                 ('wholeBitAnd', lambda v: v in inv_spiders),
                                                                 # the spider removal spelled as a masked store: mask[spiders] = False
                                                                 ('sub=', lambda v, sl: sl in tainted and v in ('False', '0'))])
    # hexagonal: centre segment branch initialises all lists together
    ifs = [n for n in walk_no_nested(fh.node) if isinstance(n, ast.If) and 'exclude' in ast.unparse(n.test) and n.orelse]
    if not ifs:
        raise AnalysisError('hexagonal aperture: centre-segment branch not found')
    names = lambda body: sorted({t.id for st in body if isinstance(st, ast.Assign) for t in st.targets if isinstance(t, ast.Name)})
    a, b = names(ifs[0].body), names(ifs[0].orelse)
    lens = lambda body: {t.id: len(st.value.elts) for st in body if isinstance(st, ast.Assign) and isinstance(st.value, ast.List) for t in st.targets if isinstance(t, ast.Name)}
    la, lb = lens(ifs[0].body), lens(ifs[0].orelse)
    run.check(a == b and len(set(la.values())) == 1 and len(set(lb.values())) == 1, 'C18.lockstep', fh.qual, 'centre segment', 'both branches initialise the same lists with equal lengths',
              'the centre-segment branches initialise different lists or lengths: %s / %s' % (la, lb), fh.loc(ifs[0]))
    # what sits at each returned position is what its role says (the lists' contents are decided by lockstep/union above):
    # local coordinates are the window coordinates minus the segment centre, ids are the loop's id, the centres accumulate the ring centres
    bh = match_all(fh.node, ['%s.append((V_xx - V_c[0], V_yy - V_c[1]))' % hrole['local_coords'], '%s.append(V_sid)' % hrole['segment_ids'], 'V_xx = x[V_lw]', 'V_yy = y[V_lw]',
                             '%s.append(V_lw)' % hrole['windows'], 'V_lw = _local_window(V_cy, V_cx, V_c, V_dx, V_sps, x, y)'])
    okv = any(isinstance(n, ast.Assign) and isinstance(n.targets[0], ast.Name) and n.targets[0].id == hrole['vtov'] and 'segment_diameter' in ast.unparse(n.value) for n in walk_no_nested(fh.node))
    okc = any(isinstance(n, ast.AugAssign) and isinstance(n.target, ast.Name) and n.target.id == hrole['all_centers'] and 'tolist' in ast.unparse(n.value) for n in walk_no_nested(fh.node))
    run.check(bh is not None and okv and okc, 'C18.lockstep', fc.qual, 'unpack order', 'each position of the returned tuple holds what the constructor stores it as (vertex-to-vertex size, centres, windows, centred local coordinates, masks, ids, aperture)',
              'the tuple returned by _composite_hexagonal_aperture is unpacked as %s, but the value at one of those positions is not what that name says' % hrole, fc.loc(unp[0]))
    fkc = db.func(S + 'CompositeKeystoneAperture.__init__')
    bk = match_all(fkc.node, ["self.segment_windows = V_ks['windows']", "self.segment_masks = V_ks['masks']", "self.center_mask = V_cs['mask']", "self.center_window = V_cs['window']"])
    run.check(bk is not None and bk['V_ks'] != bk['V_cs'], 'C18.lockstep', fkc.qual, 'dict wiring', 'windows/masks travel under matching keys from the builder to the object', 'keystone builder/constructor key wiring changed', fkc.loc())
    run.group(confine, run, db, S + 'CompositeHexagonalAperture.compose_opd', ['self.windows', 'self.local_masks'])
    run.group(confine, run, db, S + 'CompositeKeystoneAperture.compose_opd', ['self.segment_windows', 'self.segment_masks'], center='out[self.center_window]+=tile*self.center_mask')
    run.rule('C18.ids', 'segment ids: ring i is numbered after all 6(i-1)-ring ids whatever is excluded; ids and centres filtered together')
    run.group(ids_rules, run, db)
    run.group(mask_memo_rules, run, db)
    run.group(separable_rules, run, db)
    run.rule('C18.band', 'keystone ring bands are half-open in the radius (no sample on a shared ring radius belongs to two rings)')
    run.group(band_rules, run, db)
    run.require_instances('C18.ids', 4)
    run.rule('C18.boundary', 'geometric primitives (circle, annulus, offset circle, rectangle, rotated ellipse, spider, regular polygon vertices) equal their analytic inequalities as formulas')
    run.group(boundary_rules, run, db)
    run.require_instances('C18.boundary', 21)
    run.require_instances('C18.lockstep', 15)
    run.require_instances('C18.union', 6)
    run.require_instances('C18.confine', 6)
