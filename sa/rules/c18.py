"""C18 -- segmented apertures (narrow claim: lock-step bookkeeping, mask provenance, OPD confinement)."""
import ast

from ..core.db import AnalysisError, norm_stmt, walk_no_nested

S = 'prysm.segmented.'


def _appends(body):
    """[(list name, arg node, stmt, depth-0?)] for X.append(arg) statements in a loop body (any nesting)."""
    out = []

    def rec(stmts, top):
        for st in stmts:
            if isinstance(st, ast.Expr) and isinstance(st.value, ast.Call) and isinstance(st.value.func, ast.Attribute) and st.value.func.attr == 'append' \
                    and isinstance(st.value.func.value, ast.Name):
                out.append((st.value.func.value.id, st.value.args[0], st, top))
            for fld in ('body', 'orelse'):
                sub = getattr(st, fld, None)
                if isinstance(sub, list) and sub and isinstance(sub[0], ast.stmt):
                    rec(sub, False)
    rec(body, True)
    return out


def _innermost_loop_with(fi, listname):
    best = None
    for n in walk_no_nested(fi.node):
        if isinstance(n, (ast.For, ast.While)):
            if any(a[0] == listname for a in _appends(n.body) if a[3]):
                best = n
    return best


def lockstep(run, fi, lists, mask_name, win_list, mask_list, subset_ok=False):
    lp = _innermost_loop_with(fi, win_list)
    if lp is None:
        raise AnalysisError('%s: per-segment loop (appending to %s) not found' % (fi.qual, win_list))
    aps = _appends(lp.body)
    seg = [a for a in aps if a[0] in lists]
    counts = {}
    for name, arg, st, top in seg:
        counts.setdefault(name, []).append((st, top))
    for name in lists:
        c = counts.get(name, [])
        run.check(len(c) == 1 and c[0][1], 'C18.lockstep', fi.qual, 'append to %s' % name, '%s is appended exactly once per segment, unconditionally' % name,
                  'per-segment list %s is appended %d time(s)%s in the segment loop: the lists go out of step' % (name, len(c), '' if all(t for _, t in c) else ' (conditionally)'), fi.loc(lp))
    if seg:
        first = min(a[2].lineno for a in seg)
        last = max(a[2].lineno for a in seg)
        jumps = [n for st in lp.body for n in ast.walk(st) if isinstance(n, (ast.Continue, ast.Break, ast.Return)) and first < n.lineno < last]
        run.check(not jumps, 'C18.lockstep', fi.qual, 'no early exit between appends', 'no continue/break/return between the first and the last per-segment append',
                  'a %s at line %d sits between the per-segment appends: some lists get the segment and others do not' % (type(jumps[0]).__name__.lower() if jumps else '', jumps[0].lineno if jumps else 0), fi.loc(lp))
    # the pair OR-ed into the global mask is the recorded pair
    ors = [st for st in lp.body if isinstance(st, ast.AugAssign) and isinstance(st.op, ast.BitOr) and isinstance(st.target, ast.Subscript) and ast.unparse(st.target.value) == mask_name]
    if len(ors) != 1:
        run.finding('C18.union', fi.qual, 'mask accumulation', 'the segment loop ORs %d masks into %s (expected exactly one per segment)' % (len(ors), mask_name), fi.loc(lp))
        return
    o = ors[0]
    w, m = ast.unparse(o.target.slice), ast.unparse(o.value)
    wa = [ast.unparse(a[1]) for a in seg if a[0] == win_list]
    ma = [ast.unparse(a[1]) for a in seg if a[0] == mask_list]
    run.check(wa == [w] and ma == [m], 'C18.union', fi.qual, 'recorded pair', 'the (window, mask) OR-ed into the aperture is the pair recorded for the segment',
              'the aperture gets %s[%s] |= %s but the lists record window %s and mask %s' % (mask_name, w, m, wa, ma), fi.loc(o))
    # neither name is rebound between the OR and its append
    for nm, lst in ((w, win_list), (m, mask_list)):
        ap = [a[2] for a in seg if a[0] == lst]
        if not ap:
            continue
        lo_, hi_ = sorted((o.lineno, ap[0].lineno))
        rebound = [st for st in lp.body if isinstance(st, ast.Assign) and lo_ < st.lineno < hi_ and nm in [x.id for t in st.targets for x in ast.walk(t) if isinstance(x, ast.Name)]]
        run.check(not rebound, 'C18.union', fi.qual, '%s stable' % nm, '%s is not rebound between the OR and the append' % nm, '%s is reassigned between being OR-ed into the aperture and being recorded' % nm, fi.loc(o))


def mask_writers(run, fi, mask_name, allowed):
    """Every write to the global mask has one of the allowed forms."""
    n_w = 0
    for n in walk_no_nested(fi.node):
        tgt = None
        if isinstance(n, ast.Assign):
            for t in n.targets:
                base = t.value if isinstance(t, ast.Subscript) else t
                if isinstance(base, ast.Name) and base.id == mask_name:
                    tgt = ('=', t, n)
        elif isinstance(n, ast.AugAssign):
            base = n.target.value if isinstance(n.target, ast.Subscript) else n.target
            if isinstance(base, ast.Name) and base.id == mask_name:
                tgt = (type(n.op).__name__, n.target, n)
        if tgt is None:
            continue
        n_w += 1
        op, t, st = tgt
        form = '%s%s' % ('sub' if isinstance(t, ast.Subscript) else 'whole', op)
        val = ast.unparse(st.value).replace(' ', '')
        ok = any(f == form and (v is None or v(val)) for f, v in allowed)
        run.check(ok, 'C18.union', fi.qual, norm_stmt(st), 'write to the aperture mask has an allowed form (%s)' % form,
                  'the aperture mask %s is written by `%s`, which is not a recorded-segment OR, the initial zero mask or the spider removal' % (mask_name, norm_stmt(st)), fi.loc(st))
    if n_w < 2:
        raise AnalysisError('%s: writes to %s not found' % (fi.qual, mask_name))


def confine(run, db, qual, zipped, center=None):
    fi = db.func(qual)
    loops = [n for n in walk_no_nested(fi.node) if isinstance(n, ast.For) and isinstance(n.iter, ast.Call) and ast.unparse(n.iter.func) == 'zip']
    if len(loops) != 1:
        raise AnalysisError('%s: loop over the zipped segment lists not found' % qual)
    lp = loops[0]
    args = [ast.unparse(a) for a in lp.iter.args]
    tnames = [ast.unparse(e) for e in lp.target.elts] if isinstance(lp.target, ast.Tuple) else []
    run.check(args[:2] == zipped, 'C18.confine', fi.qual, 'zipped lists', 'windows and masks are zipped from the lock-stepped lists %s' % zipped, 'compose_opd zips %s' % args, fi.loc(lp))
    if len(tnames) < 4:
        raise AnalysisError('%s: loop target is not (win, mask, base, c)' % qual)
    win, mask, base, c = tnames[:4]
    body = lp.body
    idx = {}
    for i, st in enumerate(body):
        t = ast.unparse(st).replace(' ', '')
        if t == 'tile=sum_of_2d_modes(%s,%s)' % (base, c):
            idx['tile'] = i
        if t == 'tile*=%s' % mask or t == 'tile=tile*%s' % mask:
            idx['mask'] = i
        if t == 'out[%s]+=tile' % win:
            idx['acc'] = i
        if t in ('out[%s]+=tile*%s' % (win, mask), 'out[%s]+=(tile*%s)' % (win, mask)):
            idx['mask'] = i
            idx['acc'] = i
    ok = 'tile' in idx and 'mask' in idx and 'acc' in idx and idx['tile'] < idx['acc'] and idx['tile'] <= idx['mask'] <= idx['acc']
    run.check(ok, 'C18.confine', fi.qual, 'mask before accumulate', "the tile is multiplied by the segment's own mask before it is added into the segment's own window",
              'compose_opd does not multiply the tile by the zipped mask before `out[win] += tile` (statements: %s)' % [ast.unparse(s) for s in body], fi.loc(lp))
    others = [st for st in body if isinstance(st, (ast.Assign, ast.AugAssign)) and 'out' in ast.unparse(st.targets[0] if isinstance(st, ast.Assign) else st.target) and body.index(st) != idx.get('acc')]
    run.check(not others, 'C18.confine', fi.qual, 'single accumulation', 'out is written once per segment', 'out is written more than once per segment', fi.loc(lp))
    if center:
        src = ast.unparse(fi.node).replace(' ', '')
        run.check(center.replace(' ', '') in src, 'C18.confine', fi.qual, 'centre segment', 'the centre tile is masked by the centre mask in the centre window', 'centre segment composition changed', fi.loc())


def check(run, db, tier):
    run.trust('statement-order dataflow over the per-segment loop bodies (appends, the OR into the aperture, name rebinding)')
    run.assume('NARROW claim: disjointness, areas, analytic boundaries, monotonic growth and symmetry of the masks are geometry of values and are not decided; only the bookkeeping that ties windows, masks, ids and the aperture together is')
    run.rule('C18.lockstep', 'per-segment lists are appended exactly once, unconditionally, with no early exit in between')
    run.rule('C18.union', 'the aperture mask is written only by OR-ing the (window, mask) pair that is also recorded (plus initialisation / spider removal)')
    run.rule('C18.confine', "composed OPD passes through the segment's own mask before accumulation into its own window")
    fh = db.func(S + '_composite_hexagonal_aperture')
    run.group(lockstep, run, fh, ['segment_ids', 'windows', 'local_coords', 'local_masks'], 'mask', 'windows', 'local_masks')
    run.group(mask_writers, run, fh, 'mask', [('whole=', lambda v: v.startswith('np.zeros(')), ('subBitOr', None)])
    fk = db.func(S + '_composite_keystone_aperture')
    klists = ['segment_ids', 'local_masks', 'local_coords', 'all_centers', 'windows', 'left_edges', 'right_edges', 'radial_diameters', 'idods', 'corners', 'center_angles']
    run.group(lockstep, run, fk, klists, 'primary_mask', 'windows', 'local_masks')
    run.group(mask_writers, run, fk, 'primary_mask', [('whole=', lambda v: v.startswith('np.zeros(')), ('subBitOr', None), ('sub=', lambda v: v == 'center_mask'), ('wholeBitAnd', lambda v: v == '~all_spiders')])
    # hexagonal: centre segment branch initialises all lists together
    ifs = [n for n in walk_no_nested(fh.node) if isinstance(n, ast.If) and 'exclude' in ast.unparse(n.test) and n.orelse]
    if not ifs:
        raise AnalysisError('hexagonal aperture: centre-segment branch not found')
    names = lambda body: sorted({t.id for st in body if isinstance(st, ast.Assign) for t in st.targets if isinstance(t, ast.Name)})
    a, b = names(ifs[0].body), names(ifs[0].orelse)
    lens = lambda body: {t.id: len(st.value.elts) for st in body if isinstance(st, ast.Assign) and isinstance(st.value, ast.List) for t in st.targets if isinstance(t, ast.Name)}
    la, lb = lens(ifs[0].body), lens(ifs[0].orelse)
    run.check(a == b and len(set(la.values())) == 1 and len(set(lb.values())) == 1, 'C18.lockstep', fh.qual, 'centre segment', 'both branches initialise the same lists with equal lengths',
              'the centre-segment branches initialise different lists or lengths: %s / %s' % (la, lb), fh.loc(ifs[0]))
    # constructor unpack order == return order
    fc = db.func(S + 'CompositeHexagonalAperture.__init__')
    unp = [n for n in walk_no_nested(fc.node) if isinstance(n, ast.Assign) and isinstance(n.value, ast.Call) and ast.unparse(n.value.func) == '_composite_hexagonal_aperture']
    rets = [n for n in walk_no_nested(fh.node) if isinstance(n, ast.Return)]
    if len(unp) != 1 or len(rets) != 1:
        raise AnalysisError('hexagonal aperture: constructor unpack / return not found')
    tg = [ast.unparse(e).replace('self.', '') for e in unp[0].targets[0].elts]
    rv = [ast.unparse(e) for e in rets[0].value.elts]
    want = {'vtov': 'segment_vtov', 'all_centers': 'all_centers', 'windows': 'windows', 'local_coords': 'local_coords', 'local_masks': 'local_masks', 'segment_ids': 'segment_ids', 'amp': 'mask'}
    run.check(len(tg) == len(rv) and all(want.get(t) == r for t, r in zip(tg, rv)), 'C18.lockstep', fc.qual, 'unpack order', 'the constructor unpacks the lists in the order they are returned',
              'constructor unpacks %s from a function returning %s' % (tg, rv), fc.loc(unp[0]))
    fkc = db.func(S + 'CompositeKeystoneAperture.__init__')
    src = ast.unparse(fkc.node).replace(' ', '')
    ok = "self.segment_windows=ks['windows']" in src and "self.segment_masks=ks['masks']" in src and "self.center_mask=cs['mask']" in src and "self.center_window=cs['window']" in src
    rk = [n for n in walk_no_nested(fk.node) if isinstance(n, ast.Return)]
    d = ast.unparse(rk[0].value).replace(' ', '') if rk else ''
    ok = ok and "'windows':windows" in d and "'masks':local_masks" in d and "'mask':center_mask" in d and "'window':win" in d and "'amplitude_mask':primary_mask" in d
    run.check(ok, 'C18.lockstep', fkc.qual, 'dict wiring', 'windows/masks travel under matching keys from the builder to the object', 'keystone builder/constructor key wiring changed', fkc.loc())
    run.group(confine, run, db, S + 'CompositeHexagonalAperture.compose_opd', ['self.windows', 'self.local_masks'])
    run.group(confine, run, db, S + 'CompositeKeystoneAperture.compose_opd', ['self.segment_windows', 'self.segment_masks'], center='out[self.center_window]+=tile*self.center_mask')
    run.require_instances('C18.lockstep', 15)
    run.require_instances('C18.union', 6)
    run.require_instances('C18.confine', 6)
