"""C02 / C03 on values: the free-space transfer function on small concrete grids (FILE's arrays, NORM's exp atoms): every sample is
exp(-i pi lambda z (ky^2 + kx^2)) with ky, kx the FFT frequencies of its row and column and lambda converted from um to mm -- unit
modulus, rows from samples[0], columns from samples[1]."""
from fractions import Fraction

from ..core.db import AnalysisError
from ..core.interp import Const, Tup
from ..core.norm import Rat, _rat
from ..domains.filedom import file_interp, FArr

P = 'prysm.propagation.'


def freespace_value_rules(run, db, rule):
    f = db.func(P + 'angular_spectrum_transfer_function')
    n_ok = 0
    for samples in ((2, 3), (3, 2), 2, (1, 4)):
        it, dom = file_interp(db)
        R = dom.R
        A = lambda n: Rat(R.atom(n))
        shape = (samples, samples) if isinstance(samples, int) else samples
        sv = Const(samples) if isinstance(samples, int) else Tup([Const(samples[0]), Const(samples[1])])
        label = 'angular_spectrum_transfer_function(samples=%s)' % (samples,)
        res = it.run(f, kwargs=lambda: {'samples': sv, 'wvl': dom.sym('wvl'), 'dx': dom.sym('dx'), 'z': dom.sym('z')})
        rets = [p for p in res if p.outcome == 'return']
        if len(rets) != len(res) or not rets:
            raise AnalysisError('%s: not every path returns' % label)

        def freq(k, n):
            kk = k if k <= (n - 1) // 2 else k - n
            return Rat(R.const(kk)) / (A('dx') * n)
        for p in rets:
            v = p.value
            if not isinstance(v, FArr):
                raise AnalysisError('%s: the transfer function that is returned is not followed: %r' % (label, v))
            cells = [dom.rat(c) for c in v.values()]
            if any(c is None for c in cells):
                raise AnalysisError('%s: a sample of the transfer function is not followed' % label)
            bad = '' if tuple(v.shape) == tuple(shape) else 'the result has shape %s, not %s (rows follow samples[0], columns samples[1])' % (tuple(v.shape), tuple(shape))
            for i in range(shape[0]):
                for j in range(shape[1]):
                    if bad:
                        break
                    arg = -R.I * A('pi') * A('wvl') * A('z') * (freq(i, shape[0]) * freq(i, shape[0]) + freq(j, shape[1]) * freq(j, shape[1])) / 1000
                    want = Rat(R.const(1)) if arg.is_zero() else _rat(R.exp(arg))
                    if not (cells[i * shape[1] + j] == want):
                        bad = 'sample (%d, %d) is %s, expected exp(-i pi lambda z (ky^2 + kx^2)) = %s with lambda in mm' % (i, j, cells[i * shape[1] + j].key()[:120], want.key()[:120])
            run.check(not bad, rule, f.qual, 'transfer function on values', '%s: every sample is exp(-i pi lambda[um->mm] z (ky^2 + kx^2)) of its own row and column frequency (unit modulus)' % label,
                      '%s: %s' % (label, bad), f.loc())
            n_ok += not bad
    return n_ok


def unitarity_decided(db):
    """(instances of inverse / energy identities decided on values, findings) for this tree, computed once per DB"""
    cached = getattr(db, '_c02_unitarity', None)
    if cached is None:
        from ..core.report import Run
        quiet = Run('C02', 'quick', '')
        try:
            n = unitarity_value_rules(quiet, db)
            cached = (n, len(quiet.findings))
        except AnalysisError:
            cached = (0, 0)
        db._c02_unitarity = cached
    return cached


def defer_to_unitarity(run, db, what, err, credits=()):
    """The reading of focus / unfocus (one FFT with norm='ortho', shift typestate through both legs) defers to the identities on values
    when it cannot read this organisation: unfocus(focus(f, Q), 1) == pad(f, Q), focus(unfocus(f, Q), 1) == pad(f, Q) and
    sum |focus(f, Q)|^2 == sum |f|^2 in symbolic samples, even and odd lengths."""
    n, bad = unitarity_decided(db)
    if not n or bad:
        return False
    run.info('%s does not read this organisation of the FFT propagators (%s); inverse and energy identities were decided on values (%d instances)' % (what, str(err)[:140], n))
    for rule, k in credits:
        run.credit(rule, k, '%s refused; decided on values' % what)
    return True


def unitarity_value_rules(run, db, rule='C02.ortho'):
    """inverses and energy on values (symbolic complex samples, exact small DFTs): unfocus(focus(f, Q), 1) is f zero-padded by Q and
    sum |focus(f, Q)|^2 == sum |f|^2; idft2(dft2(f, 1, shape), 1, shape) == f and the same through the chirp-Z executor"""
    from ..core.interp import Obj
    from ..domains.filedom import DType
    FT = 'prysm.fttools.'
    n_ok = 0

    def field(dom, shape):
        return FArr.of(shape, [dom.lift(dom.rat(dom.sym('a%d%d' % (i, j))) + dom.R.I * dom.rat(dom.sym('b%d%d' % (i, j)))) for i in range(shape[0]) for j in range(shape[1])], DType('c', 16))

    def one(it, f, label, self_obj=None, **kw):
        res = it.run(f, kwargs=lambda: dict(kw), self_obj=self_obj)
        rets = [p for p in res if p.outcome == 'return']
        if len(rets) != len(res) or len(rets) != 1 or not isinstance(rets[0].value, FArr):
            raise AnalysisError('%s: expected one returning path with an array that is followed' % label)
        return rets[0].value
    ffo, fun, fpad = db.func(P + 'focus'), db.func(P + 'unfocus'), db.func('prysm.fttools.pad2d')
    for shape, Q in (((2, 2), 2), ((3, 2), 1), ((1, 3), 2), ((3, 3), 2), ((2, 1), 2)):
        it, dom = file_interp(db)
        label = 'focus / unfocus, %dx%d field, Q=%d' % (shape[0], shape[1], Q)
        F = one(it, ffo, label, wavefunction=field(dom, shape), Q=Const(Q))
        back = one(it, fun, label, wavefunction=F, Q=Const(1))
        ref = one(it, fpad, label, array=field(dom, shape), Q=Const(Q)) if Q != 1 else field(dom, shape)
        rb, rr = [dom.rat(c) for c in back.values()], [dom.rat(c) for c in ref.values()]
        if any(c is None for c in rb + rr):
            raise AnalysisError('%s: a sample is not followed' % label)
        ok = tuple(back.shape) == tuple(ref.shape) and all(x == y for x, y in zip(rb, rr))
        k = next((i for i, (x, y) in enumerate(zip(rb, rr)) if not (x == y)), 0)
        run.check(ok, rule, fun.qual, 'inverse on values', '%s: unfocus(focus(f, Q), 1) is f zero-padded by Q, sample by sample' % label,
                  '%s: unfocus(focus(f, Q), 1) has %s at flat position %d where the padded field has %s' % (label, rb[k].key()[:100] if ok is False and k < len(rb) else '?', k, rr[k].key()[:60] if k < len(rr) else '?'), fun.loc())
        n_ok += ok
        G = one(it, fun, label, wavefunction=field(dom, shape), Q=Const(Q))
        back2 = one(it, ffo, label, wavefunction=G, Q=Const(1))
        rb2 = [dom.rat(c) for c in back2.values()]
        if any(c is None for c in rb2):
            raise AnalysisError('%s: a sample is not followed' % label)
        ok2 = tuple(back2.shape) == tuple(ref.shape) and all(x == y for x, y in zip(rb2, rr))
        k = next((i for i, (x, y) in enumerate(zip(rb2, rr)) if not (x == y)), 0)
        run.check(ok2, rule, ffo.qual, 'inverse on values (other order)', '%s: focus(unfocus(f, Q), 1) is f zero-padded by Q, sample by sample' % label,
                  '%s: focus(unfocus(f, Q), 1) has %s at flat position %d where the padded field has %s' % (label, rb2[k].key()[:100] if k < len(rb2) else '?', k, rr[k].key()[:60] if k < len(rr) else '?'), ffo.loc())
        n_ok += ok2
        e_out = sum((dom.rat(c) * dom.rat(c).conj() for c in F.values()), Rat(dom.R.const(0)))
        e_in = sum((dom.rat(c) * dom.rat(c).conj() for c in field(dom, shape).values()), Rat(dom.R.const(0)))
        run.check(e_out == e_in, rule, ffo.qual, 'energy on values', '%s: sum |focus(f, Q)|^2 == sum |f|^2' % label,
                  '%s: sum |focus(f, Q)|^2 - sum |f|^2 = %s, not 0' % (label, (e_out - e_in).key()[:160]), ffo.loc())
        n_ok += (e_out == e_in)
    for eng, fwd, inv in (('MatrixDFTExecutor', 'dft2', 'idft2'), ('ChirpZTransformExecutor', 'czt2', 'iczt2')):
        ci = db.cls(FT + eng)
        for shape in ((2, 2), (2, 1)):
            it, dom = file_interp(db)

            def mk():
                o = Obj(ci)
                it.call_funcinfo(db.method(ci, '__init__'), [], {}, o, None)
                return o
            label = '%s / %s, %dx%d field, Q=1, same number of samples' % (fwd, inv, shape[0], shape[1])
            so = Tup([Const(shape[0]), Const(shape[1])])
            F = one(it, db.func(FT + eng + '.' + fwd), label, self_obj=mk, ary=field(dom, shape), Q=Const(1), samples_out=so, shift=Tup([Const(0), Const(0)]))
            back = one(it, db.func(FT + eng + '.' + inv), label, self_obj=mk, ary=F, Q=Const(1), samples_out=so, shift=Tup([Const(0), Const(0)]))
            rb, rr = [dom.rat(c) for c in back.values()], [dom.rat(c) for c in field(dom, shape).values()]
            if any(c is None for c in rb):
                raise AnalysisError('%s: a sample is not followed' % label)
            ok = tuple(back.shape) == tuple(shape) and all(x == y for x, y in zip(rb, rr))
            k = next((i for i, (x, y) in enumerate(zip(rb, rr)) if not (x == y)), 0)
            run.check(ok, rule, FT + eng + '.' + inv, 'inverse on values', '%s: the inverse of the forward transform is the field' % label,
                      '%s: %s(%s(f)) has %s at flat position %d where f has %s' % (label, inv, fwd, rb[k].key()[:100] if k < len(rb) else '?', k, rr[k].key()[:40]), db.func(FT + eng + '.' + inv).loc())
            n_ok += ok
    return n_ok
