"""C02 / C03 on values: the free-space transfer function on small concrete grids (FILE's arrays, NORM's exp atoms): every sample is
exp(-i pi lambda z (ky^2 + kx^2)) with ky, kx the FFT frequencies of its row and column and lambda converted from um to mm -- unit
modulus, rows from samples[0], columns from samples[1]."""
from fractions import Fraction

from ..core.db import AnalysisError
from ..core.interp import Const, Tup
from ..core.norm import Rat, _rat
from ..domains.filedom import file_interp, FArr

P = 'prysm.propagation.'


def freespace_value_rules(run, db, rule):
    f = db.func(P + 'angular_spectrum_transfer_function')
    n_ok = 0
    for samples in ((2, 3), (3, 2), 2, (1, 4)):
        it, dom = file_interp(db)
        R = dom.R
        A = lambda n: Rat(R.atom(n))
        shape = (samples, samples) if isinstance(samples, int) else samples
        sv = Const(samples) if isinstance(samples, int) else Tup([Const(samples[0]), Const(samples[1])])
        label = 'angular_spectrum_transfer_function(samples=%s)' % (samples,)
        res = it.run(f, kwargs=lambda: {'samples': sv, 'wvl': dom.sym('wvl'), 'dx': dom.sym('dx'), 'z': dom.sym('z')})
        rets = [p for p in res if p.outcome == 'return']
        if len(rets) != len(res) or not rets:
            raise AnalysisError('%s: not every path returns' % label)

        def freq(k, n):
            kk = k if k <= (n - 1) // 2 else k - n
            return Rat(R.const(kk)) / (A('dx') * n)
        for p in rets:
            v = p.value
            if not isinstance(v, FArr):
                raise AnalysisError('%s: the transfer function that is returned is not followed: %r' % (label, v))
            cells = [dom.rat(c) for c in v.values()]
            if any(c is None for c in cells):
                raise AnalysisError('%s: a sample of the transfer function is not followed' % label)
            bad = '' if tuple(v.shape) == tuple(shape) else 'the result has shape %s, not %s (rows follow samples[0], columns samples[1])' % (tuple(v.shape), tuple(shape))
            for i in range(shape[0]):
                for j in range(shape[1]):
                    if bad:
                        break
                    arg = -R.I * A('pi') * A('wvl') * A('z') * (freq(i, shape[0]) * freq(i, shape[0]) + freq(j, shape[1]) * freq(j, shape[1])) / 1000
                    want = Rat(R.const(1)) if arg.is_zero() else _rat(R.exp(arg))
                    if not (cells[i * shape[1] + j] == want):
                        bad = 'sample (%d, %d) is %s, expected exp(-i pi lambda z (ky^2 + kx^2)) = %s with lambda in mm' % (i, j, cells[i * shape[1] + j].key()[:120], want.key()[:120])
            run.check(not bad, rule, f.qual, 'transfer function on values', '%s: every sample is exp(-i pi lambda[um->mm] z (ky^2 + kx^2)) of its own row and column frequency (unit modulus)' % label,
                      '%s: %s' % (label, bad), f.loc())
            n_ok += not bad
    return n_ok
