"""Sequence functions decided for fixed order lists and symbolic coordinates.

A `*_seq` function is interpreted with its list of orders (or (n, m) pairs) as concrete integers -- so its bookkeeping (running
indices, per-key tables, which orders are stepped through and which are stored) is executed exactly -- and with the coordinate
a symbol, in NORM.  Every slot of the result must be, as a polynomial identity in the coordinate, what the single-order function
returns for the order requested in that slot (interpreted the same way).  Bounded: it decides the listed requests only; but it
does not depend on how the function is organised (loops, helpers, tables), only on what it computes.
"""
import ast

from ..core.db import AnalysisError
from ..core.interp import Value, Const, Tup, Unknown
from .common import norm_interp, bind_call

P = 'prysm.polynomials.'

ORDER_LISTS = ([0, 1, 2, 3, 4], [2, 6], [7], [3, 6, 9])
NM_LISTS = ([(2, 2), (2, -2), (4, 2), (3, 1), (5, 5), (4, 0)], [(0, 0), (1, 1), (1, -1), (2, 0), (2, 2), (2, -2), (3, 1), (3, -1)], [(5, 5)],
            [(3, 3), (3, 1), (2, 0), (6, -4), (6, -4), (8, 2)],
            # |m| = 1 has hand-written starting polynomials for n = 0..3: each of them requested, alone at the end of its table and not
            [(0, 1), (1, -1), (2, 1), (2, -1)], [(3, 1), (4, -1), (2, 1)])

# (sequence function, single function, extra scalar arguments and the values they take, coordinate arguments)
FAMILIES = [
    ('jacobi.jacobi_seq', 'jacobi.jacobi', {'alpha': (0, 1, 0), 'beta': (2, 1, 0)}, ('x',)),
    ('jacobi.jacobi_der_seq', 'jacobi.jacobi_der', {'alpha': (0, 1, 0), 'beta': (2, 1, 0)}, ('x',)),
    ('legendre.legendre_seq', 'legendre.legendre', {}, ('x',)),
    ('legendre.legendre_der_seq', 'legendre.legendre_der', {}, ('x',)),
    ('cheby.cheby1_seq', 'cheby.cheby1', {}, ('x',)), ('cheby.cheby1_der_seq', 'cheby.cheby1_der', {}, ('x',)),
    ('cheby.cheby2_seq', 'cheby.cheby2', {}, ('x',)), ('cheby.cheby2_der_seq', 'cheby.cheby2_der', {}, ('x',)),
    ('cheby.cheby3_seq', 'cheby.cheby3', {}, ('x',)), ('cheby.cheby3_der_seq', 'cheby.cheby3_der', {}, ('x',)),
    ('cheby.cheby4_seq', 'cheby.cheby4', {}, ('x',)), ('cheby.cheby4_der_seq', 'cheby.cheby4_der', {}, ('x',)),
    ('dickson.dickson1_seq', 'dickson.dickson1', {'alpha': (0, 1, 2)}, ('x',)),
    ('dickson.dickson2_seq', 'dickson.dickson2', {'alpha': (0, 1, 2)}, ('x',)),
    ('hermite.hermite_He_seq', 'hermite.hermite_He', {}, ('x',)), ('hermite.hermite_He_der_seq', 'hermite.hermite_He_der', {}, ('x',)),
    ('hermite.hermite_H_seq', 'hermite.hermite_H', {}, ('x',)), ('hermite.hermite_H_der_seq', 'hermite.hermite_H_der', {}, ('x',)),
    ('laguerre.laguerre_seq', 'laguerre.laguerre', {'alpha': (0, 1, 2)}, ('x',)),
    ('laguerre.laguerre_der_seq', 'laguerre.laguerre_der', {'alpha': (0, 1, 2)}, ('x',)),
    ('qpoly.Qcon_seq', 'qpoly.Qcon', {}, ('x',)),
]


_NDARRAY_ATTRS = frozenset('''T all any argmax argmin argsort astype base clip conj conjugate copy ctypes cumprod cumsum data diagonal dot dtype fill flags flat flatten
imag item itemsize max mean min nbytes ndim nonzero prod ravel real repeat reshape resize round shape size sort squeeze std strides sum swapaxes take tobytes
tolist trace transpose var view __len__ __getitem__ __setitem__ __iter__ __array__ __add__ __mul__'''.split())


def _seq_domain():
    from ..domains.normdom import ArrNormDomain, Arr, Sym, _size
    from ..core.interp import Slice
    import itertools

    class SeqDomain(ArrNormDomain):
        """NORM + small concrete-shaped arrays, with the numpy indexing the sequence functions use (slices, newaxis, integer-array
        lookups, slice stores).  Coordinates are arrays of shape (1,) holding one symbol, so that broadcasting is the real one."""

        def _general_index(self, v, idx):
            """(shape, data) of v[idx] for ints, constant slices, None and Ellipsis; None if something else is in the index"""
            items = list(idx.items) if isinstance(idx, Tup) else [idx]
            n_real = sum(1 for x in items if not (isinstance(x, Const) and (x.v is None or x.v is Ellipsis)))
            if any(isinstance(x, Const) and x.v is Ellipsis for x in items):
                k = next(i for i, x in enumerate(items) if isinstance(x, Const) and x.v is Ellipsis)
                items[k:k + 1] = [Slice(Const(None), Const(None), Const(None))] * (v.ndim - n_real)
            else:
                items += [Slice(Const(None), Const(None), Const(None))] * (v.ndim - n_real)
            sel, shape = [], []
            ax = 0
            for x in items:
                if isinstance(x, Const) and x.v is None:
                    sel.append(None)
                    shape.append(1)
                    continue
                if ax >= v.ndim:
                    return None
                d = v.shape[ax]
                if isinstance(x, Const) and isinstance(x.v, int) and not isinstance(x.v, bool):
                    if not -d <= x.v < d:
                        return None
                    sel.append([x.v % d])
                elif isinstance(x, Slice) and all(isinstance(z, Const) and (z.v is None or isinstance(z.v, int)) for z in (x.lo, x.hi, x.step)):
                    r = list(range(d))[slice(x.lo.v, x.hi.v, x.step.v)]
                    sel.append(r)
                    shape.append(len(r))
                elif isinstance(x, Arr) and x.ndim == 1 and all(isinstance(z, Const) and isinstance(z.v, int) for z in x.data):
                    sel.append([z.v % d for z in x.data])
                    shape.append(len(x.data))
                else:
                    return None
                ax += 1
            real = [s_ for s_ in sel if s_ is not None]
            cells = [tuple(c) for c in itertools.product(*real)] if real else [()]
            return tuple(shape), cells

        lost = None          # set when something is written through a view of an array (the copy made here does not see it)

        # Views.  A part of an array obtained by basic indexing (integers, slices, None, Ellipsis) is a view in numpy: it is modelled as
        # a copy that remembers which cells of the root array it shows.  Every store / in-place operation is written through to the
        # root, and every other view of that root is refreshed from it, so the copies never disagree with what numpy would hold.
        # (An integer-array index gives a copy in numpy too: no link is kept.)
        @staticmethod
        def _basic(idx):
            items = list(idx.items) if isinstance(idx, Tup) else [idx]
            return not any(isinstance(x, Arr) or (isinstance(x, Tup)) for x in items)

        def _link(self, part, parent, cells):
            root = getattr(parent, 'root', None)
            if root is None:
                part.root, part.root_cells = parent, [tuple(c) for c in cells]
            else:
                part.root, part.root_cells = root, [parent.root_cells[parent.offset(c)] for c in cells]
            part.root.__dict__.setdefault('views', []).append(part)

        def _written(self, arr):
            """arr.data was modified in place: write through to its root and refresh the other views"""
            root = getattr(arr, 'root', None)
            if root is not None:
                for i, c in enumerate(arr.root_cells):
                    root.data[root.offset(c)] = arr.data[i]
            else:
                root = arr
            for vw in getattr(root, 'views', ()):
                if vw is not arr:
                    for i, c in enumerate(vw.root_cells):
                        vw.data[i] = root.data[root.offset(c)]

        def subscript(self, v, idx, node):
            if isinstance(v, Arr):
                g = self._general_index(v, idx)
                if g is not None:
                    shape, cells = g
                    data = [v.get(*c) for c in cells]
                    if not shape:
                        return data[0]
                    r = Arr(shape, data)
                    if self._basic(idx):
                        self._link(r, v, cells)
                    return r
            return ArrNormDomain.subscript(self, v, idx, node)

        def augassign(self, op, target, val, node):
            if isinstance(target, Arr) and (getattr(target, 'root', None) is not None or getattr(target, 'views', None)):
                r = self.binop(op, target, val, node)
                if not isinstance(r, Arr) or r.shape != target.shape:
                    self.lost = 'an in-place operation on an array that has views, whose result is not followed (line %d)' % getattr(node, 'lineno', 0)
                    return None
                target.data[:] = r.data
                self._written(target)
                return target
            return ArrNormDomain.augassign(self, op, target, val, node) if hasattr(ArrNormDomain, 'augassign') else None

        def store_subscript(self, target, idx, val, node):
            r = self._store_subscript(target, idx, val, node)
            if isinstance(target, Arr):
                self._written(target)
            return r

        def _store_subscript(self, target, idx, val, node):
            if isinstance(target, Arr):
                g = self._general_index(target, idx)
                if g is not None:
                    shape, cells = g
                    if isinstance(val, Arr):
                        src = self._emap(lambda a, b: b, Arr(shape, [Const(0)] * len(cells)), val) if shape else val
                        if not isinstance(src, Arr) or len(src.data) != len(cells):
                            return ArrNormDomain.store_subscript(self, target, idx, val, node)
                        vals = src.data
                    else:
                        vals = [val] * len(cells)
                    for c, x in zip(cells, vals):
                        target.data[target.offset(c)] = x
                    return True
            return ArrNormDomain.store_subscript(self, target, idx, val, node)

        def getattr(self, v, name, node):
            if isinstance(v, Arr):
                if name == 'shape':
                    return Tup([Const(d) for d in v.shape])
                if name == 'ndim':
                    return Const(v.ndim)
                if name == 'size':
                    return Const(_size(v.shape))
                if name == 'dtype':
                    return Unknown('dtype')
                if name == 'T' and v.ndim <= 1:
                    return v
            return ArrNormDomain.getattr(self, v, name, node)

        def binop(self, op, a, b, node):
            if isinstance(op, ast.Mult):
                for t_, k_ in ((a, b), (b, a)):
                    if isinstance(t_, Tup) and isinstance(k_, Const) and isinstance(k_.v, int) and not isinstance(k_.v, bool) and 0 <= k_.v <= 8:
                        return Tup(list(t_.items) * k_.v, t_.kind)
            return ArrNormDomain.binop(self, op, a, b, node)

        def method(self, v, name, args, kwargs, node):
            if isinstance(v, Arr) and name == 'reshape':
                shp = args[0] if len(args) == 1 else Tup(list(args))
                dims = [z.v for z in shp.items] if isinstance(shp, Tup) and all(isinstance(z, Const) and isinstance(z.v, int) for z in shp.items) else ([shp.v] if isinstance(shp, Const) and isinstance(shp.v, int) else None)
                if dims is not None and dims.count(-1) <= 1:
                    known = 1
                    for d in dims:
                        if d != -1:
                            known *= d
                    if known and _size(v.shape) % known == 0:
                        dims = [d if d != -1 else _size(v.shape) // known for d in dims]
                        if _size(tuple(dims)) == _size(v.shape):
                            return Arr(tuple(dims), v.data)
            if isinstance(v, Arr):
                if name in ('max', 'min') and not args and all(isinstance(z, Const) for z in v.data):
                    return Const((max if name == 'max' else min)(z.v for z in v.data))
                if name in ('ravel', 'flatten'):
                    return Arr((_size(v.shape),), v.data)
                if name == 'squeeze':
                    return Arr(tuple(d for d in v.shape if d != 1), v.data)
                if name == 'tolist' and v.ndim == 1:
                    return Tup(list(v.data), 'list')
            return ArrNormDomain.method(self, v, name, args, kwargs, node)

        def call_ext(self, dotted, args, kwargs, node):
            last = dotted.rsplit('.', 1)[-1]
            a0 = args[0] if args else None
            if kwargs.get('out') is not None and not (isinstance(kwargs['out'], Const) and kwargs['out'].v is None):
                self.lost = 'a result written through out= (line %d)' % getattr(node, 'lineno', 0)
            if last in ('copyto', 'put', 'place', 'putmask'):
                self.lost = '%s (line %d)' % (last, getattr(node, 'lineno', 0))
            if dotted.startswith('numpy.'):
                if last in ('zeros_like', 'ones_like') and a0 is not None and self.rat(a0) is not None:
                    return Const(0 if last == 'zeros_like' else 1)
                if last in ('zeros_like', 'ones_like', 'empty_like') and isinstance(a0, Arr):
                    fill = {'zeros_like': Const(0), 'ones_like': Const(1), 'empty_like': Unknown('uninitialised')}[last]
                    return Arr(a0.shape, [fill] * len(a0.data))
                if last in ('empty', 'zeros', 'ones') and isinstance(a0, Tup) and all(isinstance(z, Const) and isinstance(z.v, int) for z in a0.items):
                    shp = tuple(z.v for z in a0.items)
                    fill = {'zeros': Const(0), 'ones': Const(1), 'empty': Unknown('uninitialised')}[last]
                    return Arr(shp, [fill] * _size(shp))
                if last == 'squeeze' and isinstance(a0, Arr):
                    return Arr(tuple(d for d in a0.shape if d != 1), a0.data)
                if last in ('asarray', 'array') and isinstance(a0, Tup) and a0.items and all(isinstance(z, Arr) and z.shape == a0.items[0].shape for z in a0.items):
                    return Arr((len(a0.items),) + a0.items[0].shape, [d for z in a0.items for d in z.data])
                if last == 'stack' and isinstance(a0, Tup) and a0.items and all(isinstance(z, Arr) and z.shape == a0.items[0].shape for z in a0.items) and not kwargs and len(args) == 1:
                    return Arr((len(a0.items),) + a0.items[0].shape, [d for z in a0.items for d in z.data])
                if last in ('asarray', 'array', 'ascontiguousarray') and isinstance(a0, Arr):
                    return a0 if last != 'array' else Arr(a0.shape, a0.data)
                if last in ('max', 'amax', 'min', 'amin') and isinstance(a0, Arr) and all(isinstance(z, Const) for z in a0.data):
                    return Const((max if 'max' in last else min)(z.v for z in a0.data))
            if dotted == 'numpy.trim_zeros' and len(args) <= 2 and set(kwargs) <= {'trim'}:
                # entries that are the constant 0 are zeros; a symbolic entry stands for a generic (non-zero) number
                tr = kwargs.get('trim', args[1] if len(args) > 1 else Const('fb'))
                seq = list(a0.items) if isinstance(a0, Tup) else (list(a0.data) if isinstance(a0, Arr) and a0.ndim == 1 else None)
                if seq is not None and isinstance(tr, Const) and isinstance(tr.v, str) and all(isinstance(z, (Const, Sym)) for z in seq):
                    iszero = lambda z: isinstance(z, Const) and z.v == 0
                    lo, hi = 0, len(seq)
                    if 'f' in tr.v.lower():
                        while lo < hi and iszero(seq[lo]):
                            lo += 1
                    if 'b' in tr.v.lower():
                        while hi > lo and iszero(seq[hi - 1]):
                            hi -= 1
                    return Tup(seq[lo:hi], a0.kind) if isinstance(a0, Tup) else Arr((hi - lo,), seq[lo:hi])
            if dotted == 'builtins.len' and isinstance(a0, Arr):
                return Const(a0.shape[0])
            if dotted in ('builtins.max', 'builtins.min') and len(args) == 1 and isinstance(a0, Arr) and all(isinstance(z, Const) for z in a0.data):
                return Const((max if dotted.endswith('max') else min)(z.v for z in a0.data))
            if dotted == 'builtins.int' and isinstance(a0, Const) and isinstance(a0.v, int):
                return a0
            if dotted == 'builtins.hasattr' and len(args) == 2 and isinstance(a0, Arr) and isinstance(args[1], Const) and isinstance(args[1].v, str):
                return Const(args[1].v in _NDARRAY_ATTRS)
            return ArrNormDomain.call_ext(self, dotted, args, kwargs, node)

        def to_int(self, v, node):
            return ArrNormDomain.to_int(self, v, node)
    return SeqDomain, Arr


def mk_interp(db):
    SeqDomain, Arr = _seq_domain()
    it, dom = norm_interp(db, domain_cls=SeqDomain)
    dom.coord = lambda name: Arr((1,), [dom.sym(name)])
    return it, dom


def rows_of(v):
    from ..domains.normdom import Arr
    if isinstance(v, Arr) and v.ndim >= 1:
        n = v.shape[0]
        per = len(v.data) // n if n else 0
        return {k: [v.data[k * per:(k + 1) * per]] for k in range(n)}
    if isinstance(v, Tup):
        return {k: [x.data if isinstance(x, Arr) else [x]] for k, x in enumerate(v.items)}
    return None


def compare_family(db, seq_q, one_q, extras, coords, lists, it=None, dom=None, seq_kw=None, one_kw=None, maxorder=None):
    """[(label, problems)] for one family; raises AnalysisError when a side cannot be followed."""
    fs, fo = db.func(P + seq_q), db.func(P + one_q)
    out = []
    combos = list(zip(*extras.values())) if extras else [()]
    for combo in combos:
        ex = dict(zip(extras.keys(), combo))
        for orders in lists:
            if it is None:
                it_, dom_ = mk_interp(db)
            else:
                it_, dom_ = it, dom
            base = {c: dom_.coord(c) for c in coords}
            base.update({k: Const(v) for k, v in ex.items()})
            pair = orders and isinstance(orders[0], tuple)
            req = Tup([Tup([Const(a), Const(b)]) for a, b in orders], 'list') if pair else Tup([Const(n) for n in orders], 'list')
            kw = dict(base)
            kw[fs.params[0]] = req
            kw.update(seq_kw or {})
            allp = it_.run(fs, kwargs=lambda: dict(kw))
            res = [q for q in allp if q.outcome == 'return']
            label = '%s(%s%s)' % (fs.name, orders, ''.join(', %s=%s' % kv for kv in ex.items()))
            if not res and len(allp) == 1 and allp[0].outcome == 'raise' and not allp[0].conds and not dom_.lost:
                # no test on the way was undecided: for these requests the routine raises, where the single-order routine returns
                out.append((label, ['the call raises %s on its only path (every test on the way was decided by the concrete requests)' % getattr(allp[0].value, 'v', allp[0].value)]))
                continue
            if len(res) != 1:
                raise AnalysisError('%s: expected one returning path for concrete orders, got %d' % (label, len(res)))
            if dom_.lost:
                raise AnalysisError('%s: %s is not followed (arrays are copied, not viewed, here)' % (label, dom_.lost))
            rows = rows_of(res[0].value)
            if rows is None:
                raise AnalysisError('%s: the returned sequence is not followed (%r)' % (label, res[0].value))
            bad = []
            for k, n in enumerate(orders):
                okw = dict(base)
                if pair:
                    okw[fo.params[0]], okw[fo.params[1]] = Const(n[0]), Const(n[1])
                else:
                    okw[fo.params[0]] = Const(n)
                okw.update(one_kw or {})
                ref = [q for q in it_.run(fo, kwargs=lambda: dict(okw)) if q.outcome == 'return']
                from ..domains.normdom import Arr as _Arr
                rv = ref[0].value if len(ref) == 1 else None
                cells = rv.data if isinstance(rv, _Arr) else [rv]
                if rv is None or len(cells) != 1 or dom_.rat(cells[0]) is None:
                    raise AnalysisError('%s(%s): the single-order value is not followed (%r)' % (fo.name, n, rv))
                want = dom_.rat(cells[0])
                got = rows.get(k, [])
                if len(got) != 1 or len(got[0]) != 1 or dom_.rat(got[0][0]) is None:
                    if got and all(len(g) == 1 and isinstance(g[0], Unknown) for g in got):
                        bad.append('slot %d (order %s) is never written' % (k, n))
                    else:
                        raise AnalysisError('%s: slot %d is not followed (%r)' % (label, k, got))
                elif not (dom_.rat(got[0][0]) == want):
                    bad.append('slot %d holds %s, %s(%s) is %s' % (k, dom_.rat(got[0][0]).key()[:100], fo.name, n, want.key()[:100]))
            extra = sorted(set(rows) - set(range(len(orders))))
            if extra:
                bad.append('slots %s beyond the requests are written' % extra)
            out.append((label, bad))
    return out


Q_ATOMS = ('g_qbfs', 'h_qbfs', 'f_qbfs', 'g_q2d', 'f_q2d')
Q_FAMILIES = {'Qbfs_seq': (('qpoly.Qbfs_seq', 'qpoly.Qbfs', {}, ('x',)), ORDER_LISTS),
              'Q2d_seq': (('qpoly.Q2d_seq', 'qpoly.Q2d', {}, ('r', 't')), NM_LISTS)}


def q_interp(db):
    """the fixed-order interpreter with Forbes' auxiliary coefficients opaque at their (concrete) indices: they have their own rule"""
    it, dom = mk_interp(db)

    def call_prysm(fi, args, kwargs, node):
        if fi.name == 'abc_q2d':
            return Tup([dom.func_atom('%s_q2d' % c, list(args)) for c in 'ABC'])
        if fi.name in Q_ATOMS:
            return dom.func_atom(fi.name, list(args))
        return None
    dom.call_prysm = call_prysm
    return it, dom


def q_fixed_rules(run, db, rule, which):
    """Qbfs_seq / Q2d_seq against Qbfs / Q2d for the fixed request lists; number of obligations.  AnalysisError when not followed."""
    fam, lists = Q_FAMILIES[which]
    fs = db.func(P + fam[0])
    it, dom = q_interp(db)
    n = 0
    for label, bad in compare_family(db, *fam, lists, it=it, dom=dom):
        n += 1
        run.check(not bad, rule, fs.qual, 'fixed requests: ' + label, 'slot i of %s equals %s of the order requested there' % (label, fam[1].split('.')[-1]),
                  '%s: %s' % (label, '; '.join(bad[:3])), fs.loc())
    return n


def fixed_order_rules(run, db, rule, families=None, only=None):
    """An additional detector next to the general (symbolic order) rules: where the interpretation can follow a family it decides it
    for the fixed order lists; where it cannot (generators, writes through views, ...) it says so in the evidence and decides
    nothing -- it never turns a run into a refusal by itself."""
    n, skipped = 0, []
    for seq_q, one_q, extras, coords in (families or FAMILIES):
        if only is not None and not only(seq_q):
            continue
        if not db.has_func(P + seq_q) or not db.has_func(P + one_q):
            continue
        fs = db.func(P + seq_q)
        try:
            results = compare_family(db, seq_q, one_q, extras, coords, ORDER_LISTS)
        except (AnalysisError, RecursionError) as e:
            skipped.append('%s (%s)' % (fs.name, str(e)[:120]))
            continue
        for label, bad in results:
            n += 1
            run.check(not bad, rule, fs.qual, label, 'slot i of %s equals the single-order function of the order requested there' % label,
                      '%s: %s' % (label, '; '.join(bad[:3])), fs.loc())
    if skipped and hasattr(run, 'info'):
        run.info('%s: not decided for fixed orders: %s' % (rule, '; '.join(skipped)))
    return n
