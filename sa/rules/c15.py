"""C15 -- image formation obeys the convolution theorem; the MTF is a valid MTF."""
import ast

from ..core.db import AnalysisError, norm_stmt, walk_no_nested
from ..core.interp import Interp, Const, Tup, Unknown, Obj
from ..domains.origin import OriginDomain, Og, Real, Ix, half as ohalf
from . import c04
from .purity import memo_completeness, input_mutations

CV = 'prysm.convolution.'
OT = 'prysm.otf.'


def _dom(parity):
    dom = OriginDomain(parity)

    def call_prysm(fi, args, kwargs, node, dom=dom):
        if fi.qual == 'prysm.coordinates.optimize_xy_separable':
            return Tup(list(args[:2]))
        if fi.qual == 'prysm.coordinates.cart_to_polar':
            a, b = args[0], args[1]
            if isinstance(a, Og) and isinstance(b, Og) and a.o == b.o:
                return Tup([a, a])
            return Tup([Unknown('polar'), Unknown('polar')])
        return None
    dom.call_prysm = call_prysm
    return dom


def _direction(run, f, path, want, label):
    """Transform directions on a path: data enter the frequency domain by the FORWARD transform (the convention in which
    transfer functions / OTFs are defined) and come back by the inverse."""
    seq = [e['which'] for e in path.events if e['kind'] == 'fft']
    run.check(seq == want, 'C15.origin', f.qual, 'transform directions ' + label, 'transforms applied in the order %s' % want,
              '%s applies the transforms %s, expected %s: with forward and inverse exchanged every real, even transfer function still works, but a complex or asymmetric one is '
              'applied conjugated (a displaced impulse moves the image the wrong way; conv and apply_transfer_functions disagree)' % (f.name, seq, want), f.loc())


def conv_rules(run, db):
    f = db.func(CV + 'conv')
    for parity in (0, 1):
        dom = _dom(parity)
        it = Interp(db, dom)
        par = 'odd' if parity else 'even'
        res = [p for p in it.run(f, kwargs=lambda: {'obj': dom.centred(), 'psf': dom.centred()}) if p.outcome == 'return']
        if len(res) != 1:
            raise AnalysisError('conv: expected one path')
        v = res[0].value
        _direction(run, f, res[0], ['fft2', 'fft2', 'ifft2'], '[%s]' % par)
        ok = isinstance(v, Og) and v.o == ohalf(parity) and v.r.is_zero()
        run.check(ok, 'C15.origin', f.qual, 'conv origin', 'centred object (*) centred PSF -> centred image, no phase ramp [%s]' % par,
                  'conv returns %r for %s sizes (expected the origin at n//2 and no ramp): the image is displaced / the real part is taken of a ramped array' % (v, par), f.loc())
        bad = [e for e in res[0].events if e['kind'] in ('real-of-ramped', 'origin-mismatch')]
        run.check(not bad, 'C15.origin', f.qual, 'conv spectra', 'both spectra share one origin; .real is taken of an unramped array [%s]' % par,
                  'conv: %s for %s sizes' % (bad[0]['kind'] if bad else '', par), f.loc())
        # a PSF whose impulse sits at index 0 (not centred) must displace the image by -n//2: translation covariance
        res2 = [p for p in it.run(f, kwargs=lambda: {'obj': dom.centred(), 'psf': dom.at_zero()}) if p.outcome == 'return']
        v2 = res2[0].value
        want = ohalf(parity) - ohalf(parity)       # origin a, impulse displaced by -a  ->  0
        ok2 = isinstance(v2, Og) and v2.o == Ix(0, 0, parity) and v2.r.is_zero()
        run.check(ok2, 'C15.origin', f.qual, 'conv translation', 'an impulse displaced by -n//2 displaces the image by -n//2 [%s]' % par,
                  'conv does not translate the object by the impulse offset for %s sizes: %r' % (par, v2), f.loc())


def atf_rules(run, db):
    f = db.func(CV + 'apply_transfer_functions')
    for parity in (0, 1):
        par = 'odd' if parity else 'even'
        for shift in (True, False):
            dom = _dom(parity)
            it = Interp(db, dom)
            tf_og = Og(ohalf(parity), Ix(0, 0, parity), 'freq') if shift else Og(Ix(0, 0, parity), Ix(0, 0, parity), 'freq')
            from ..core.interp import LambdaRef, Frame
            lam = ast.parse('lambda: T', mode='eval').body

            def kw(with_callable):
                tfs = [tf_og, tf_og]
                if with_callable:
                    tfs = [tf_og, LambdaRef(lam, Frame(f, f.module, {'T': tf_og}))]
                return {'obj': dom.centred(), 'dx': Real(), 'tfs': Tup(tfs, 'list'), 'fx': Const(None), 'fy': Const(None),
                        'ft': Const(None), 'fr': Const(None), 'shift': Const(shift)}
            res = [p for wc in (False, True) for p in it.run(f, kwargs=lambda wc=wc: kw(wc)) if p.outcome == 'return']
            if not res:
                raise AnalysisError('apply_transfer_functions: no returning path')
            seen = set()
            for p in res:
                v = p.value
                if not isinstance(v, Og):
                    raise AnalysisError('apply_transfer_functions(shift=%s): result has no origin typestate on path %s: %r' % (shift, p.conds, v))
                key = repr(v)
                if ('dir', shift) not in seen:
                    seen.add(('dir', shift))
                    _direction(run, f, p, ['fft2', 'ifft2'], 'shift=%s [%s]' % (shift, par))
                ok = isinstance(v, Og) and v.o == ohalf(parity) and v.r.is_zero()
                mism = [e for e in p.events if e['kind'] in ('origin-mismatch', 'real-of-ramped')]
                fxv = p.frame.env.get('fx')          # a parameter
                if isinstance(fxv, Og) and ('grid', repr(fxv)) not in seen:
                    seen.add(('grid', repr(fxv)))
                    want = ohalf(parity) if shift else Ix(0, 0, parity)
                    run.check(fxv.o == want, 'C15.grid', f.qual, 'frequency grids shift=%s' % shift,
                              'callables are evaluated on grids whose zero is at %s [%s]' % ('the centre' if shift else '[0,0]', par),
                              'with shift=%s the frequency grids given to callable transfer functions have their zero at index %r but the spectrum they multiply has DC at index %r' % (shift, fxv.o, want), f.loc())
                if key + str(bool(mism)) in seen:
                    continue
                seen.add(key + str(bool(mism)))
                run.check(ok and not mism, 'C15.origin', f.qual, 'filter origin shift=%s' % shift,
                          'centred object, transfer functions with DC at %s -> centred image [%s]' % ('the centre' if shift else '[0,0]', par),
                          'apply_transfer_functions(shift=%s) returns %r for %s sizes (expected origin n//2, no ramp)%s: an all-ones transfer function is not the identity'
                          % (shift, v, par, '; spectra with different origins are multiplied' if mism else ''), f.loc())
    # fold: every element multiplies the running spectrum exactly once
    loops = [n for n in walk_no_nested(f.node) if isinstance(n, ast.For) and ast.unparse(n.iter) == 'tfs']
    if len(loops) != 1:
        raise AnalysisError('apply_transfer_functions: loop over tfs not found')
    lp = loops[0]
    tgt = ast.unparse(lp.target)
    from .common import loop_carried
    SPEC = loop_carried(lp)          # the running spectrum is what the loop carries from one transfer function to the next
    mults = []
    for st in lp.body:
        if isinstance(st, ast.Assign) and isinstance(st.value, ast.BinOp) and isinstance(st.value.op, ast.Mult) and ast.unparse(st.targets[0]) in SPEC:
            ops = {ast.unparse(st.value.left), ast.unparse(st.value.right)}
            if ops == {ast.unparse(st.targets[0]), tgt}:
                mults.append(st)
        if isinstance(st, ast.AugAssign) and isinstance(st.op, ast.Mult) and ast.unparse(st.target) in SPEC and ast.unparse(st.value) == tgt:
            mults.append(st)
    ctl = [n for st in lp.body for n in ast.walk(st) if isinstance(n, (ast.Break, ast.Continue, ast.Return))]
    run.check(len(mults) == 1 and not ctl and not lp.orelse, 'C15.fold', f.qual, 'running product', 'each transfer function multiplies the spectrum exactly once (top level of the loop, no break/continue)',
              'the loop over tfs does not multiply the spectrum by each element exactly once (%d multiplications, %d control statements)' % (len(mults), len(ctl)), f.loc(lp))


def grid_shape_rules(run, db):
    """Frequency grids handed to callable transfer functions broadcast to the shape of the spectrum they multiply,
    whether the caller gives none, vectors, or the documented 2-D (M, N) grids."""
    from ..domains.shape import ShapeDomain, Sh, Scalar, broadcast
    from .common import block_as_function
    f = db.func(CV + 'apply_transfer_functions')
    blk = [n for n in f.node.body if isinstance(n, ast.If) and 'callable' in ast.unparse(n.test)]
    if len(blk) != 1:
        raise AnalysisError('apply_transfer_functions: the callable-grid block was not found')
    fn, params = block_as_function(f, blk[0].body, ['fx', 'fy', 'fr', 'ft'], 'grids')

    def ft_unit(dom, fi, args, kwargs, node):
        n = args[1] if len(args) > 1 else kwargs.get('samples')
        from ..domains.shape import Dim
        return Sh((n.n,)) if isinstance(n, Dim) else Sh(('?',))
    for label, gx, gy in (('no grids given', Const(None), Const(None)), ('vectors (N,), (M,)', Sh(('N',)), Sh(('M',))), ('2-D grids (M, N)', Sh(('M', 'N')), Sh(('M', 'N')))):
        dom = ShapeDomain({'prysm.fttools.forward_ft_unit': ft_unit})
        it = Interp(db, dom)
        kw = {p_: Scalar() for p_ in params}
        kw.update({'obj': Sh(('M', 'N')), 'fx': gx, 'fy': gy, 'fr': Const(None), 'ft': Const(None), 'dx': Scalar(), 'shift': Const(False)})
        res = [p for p in it.run(fn, kwargs=lambda: dict(kw)) if p.outcome == 'return']
        if not res:
            raise AnalysisError('apply_transfer_functions grids (%s): no returning path' % label)
        for p in res:
            errs = [e for e in p.events if e['kind'] in ('broadcast-error', 'index-error')]
            shapes = [v.dims if isinstance(v, Sh) else None for v in p.value.items]
            ok = not errs and all(sh is not None for sh in shapes) and all(broadcast(sh, ('M', 'N')) == ('M', 'N') for sh in shapes) \
                and shapes[2] == ('M', 'N') and shapes[3] == ('M', 'N') and broadcast(shapes[0], shapes[1]) == ('M', 'N')
            run.check(ok, 'C15.grid', f.qual, 'grid shapes: ' + label, 'fx, fy broadcast to (M, N) and fr, ft have shape (M, N) [%s]' % label,
                      'with %s the grids handed to callable transfer functions have shapes fx=%s fy=%s fr=%s ft=%s; they must broadcast to the (M, N) spectrum (a wrong rank silently yields a 3-D "image")'
                      % tuple([label] + shapes), f.loc(blk[0]))


def inventory_rules(run, db):
    """Who may touch the data between the object and the image: the convolution routines transform, multiply and transform
    back on the array's OWN grid; the OTF products are the transform's modulus / angle / value divided by their DC sample."""
    allowed = {
        CV + 'conv': {'fft.fft2', 'fft.ifft2', 'fft.fftshift', 'fft.ifftshift'},
        CV + 'apply_transfer_functions': {'fft.fft2', 'fft.ifft2', 'fft.fftshift', 'fft.ifftshift', 'any', 'callable', 'forward_ft_unit', 'optimize_xy_separable', 'cart_to_polar',
                                          'inspect.signature'},
    }
    for q, ok_calls in allowed.items():
        f = db.func(q)
        local = {n.id for n in ast.walk(f.node) if isinstance(n, ast.Name) and isinstance(n.ctx, ast.Store)} | set(f.params)
        extra = []
        for c in walk_no_nested(f.node):
            if isinstance(c, ast.Call):
                t = ast.unparse(c.func)
                if t in ok_calls or (isinstance(c.func, ast.Name) and c.func.id in local):
                    continue          # a local name that is called is a user-supplied transfer function
                extra.append(c)
        run.check(not extra, 'C15.origin', f.qual, 'operations on the data', '%s only transforms, shifts and multiplies (calls: %s)' % (f.name, sorted(ok_calls)),
                  '%s also calls `%s`: the result is no longer the circular convolution on the array\'s own grid / no longer linear in the object (resizing to another FFT length changes what wraps around; '
                  'a modulus or clip breaks linearity)' % (f.name, ast.unparse(extra[0]) if extra else ''), f.loc(extra[0]) if extra else f.loc())
        rets = [n for n in walk_no_nested(f.node) if isinstance(n, ast.Return) and n.value is not None]
        names = {}
        for n in walk_no_nested(f.node):
            if isinstance(n, ast.Assign) and isinstance(n.targets[0], ast.Name):
                names[n.targets[0].id] = n.value
        okr = bool(rets)
        for r in rets:
            v = r.value
            if isinstance(v, ast.Name) and v.id in names:
                v = names[v.id]
            # somewhere between the inverse transform and the return value the real part is taken (shifts commute with it)
            has_real = any((isinstance(x, ast.Attribute) and x.attr == 'real' and any(isinstance(c, ast.Call) and ast.unparse(c.func).endswith('ifft2') for c in ast.walk(x.value))) or
                           (isinstance(x, ast.Call) and ast.unparse(x.func) in ('np.real', 'numpy.real') and any(isinstance(c, ast.Call) and ast.unparse(c.func).endswith('ifft2') for c in ast.walk(x)))
                           for x in ast.walk(v))
            okr = okr and has_real
        run.check(okr, 'C15.origin', f.qual, 'real part', 'the image is the REAL PART of the inverse transform (linear in the object, negative samples kept)',
                  '%s does not return `.real` of the inverse transform on every path' % f.name, f.loc())
    # OTF products: the returned array is written by its defining expression and the DC normalisation only
    for nm in ('mtf_from_psf', 'ptf_from_psf', 'otf_from_psf'):
        fi = db.func(OT + nm)
        ctor = [c for c in walk_no_nested(fi.node) if isinstance(c, ast.Call) and ast.unparse(c.func) == 'RichData']
        if len(ctor) != 1:
            raise AnalysisError('%s: RichData(...) result not found' % nm)
        dv = [k.value for k in ctor[0].keywords if k.arg == 'data']
        if len(dv) != 1 or not isinstance(dv[0], ast.Name):
            raise AnalysisError('%s: result array is not a plain name' % nm)
        res = dv[0].id
        writes = []
        for n in walk_no_nested(fi.node):
            if isinstance(n, ast.Assign):
                for t in n.targets:
                    if isinstance(t, ast.Subscript) and isinstance(t.value, ast.Name) and t.value.id == res:
                        writes.append(n)
            if isinstance(n, ast.AugAssign):
                base = n.target.value if isinstance(n.target, ast.Subscript) else n.target
                if isinstance(base, ast.Name) and base.id == res and not (isinstance(n.op, ast.Div) and isinstance(n.target, ast.Name)):
                    writes.append(n)
        run.check(not writes, 'C15.dc', fi.qual, 'no post-processing', 'the returned array is its defining expression divided by its DC sample, nothing else',
                  '%s edits its result with `%s`: the product no longer equals the modulus / angle / value of the transform at those samples (OTF != MTF exp(i PTF) there)'
                  % (nm, norm_stmt(writes[0]) if writes else ''), fi.loc(writes[0]) if writes else fi.loc())


def otf_rules(run, db):
    f = db.func(OT + 'transform_psf')
    for parity in (0, 1):
        par = 'odd' if parity else 'even'
        dom = _dom(parity)

        def hasattr_hook(dotted, args, kwargs, node, orig=dom.call_ext):
            if dotted == 'builtins.hasattr' and args and isinstance(args[0], Og):
                return Const(True)
            return orig(dotted, args, kwargs, node)
        dom.call_ext = hasattr_hook
        it = Interp(db, dom)
        res = [p for p in it.run(f, kwargs=lambda: {'psf': dom.centred(), 'dx': Real()}) if p.outcome == 'return']
        if len(res) != 1:
            raise AnalysisError('transform_psf: expected one path, got %d' % len(res))
        v = res[0].value
        _direction(run, f, res[0], ['fft2'], '[%s]' % par)
        d = v.items[0] if isinstance(v, Tup) else None
        run.check(isinstance(d, Og) and d.o == ohalf(parity) and d.r.is_zero(), 'C15.origin', f.qual, 'otf transform', 'centred PSF -> spectrum with DC at n//2 and no phase ramp [%s]' % par,
                  'transform_psf returns %r for %s sizes: the DC sample is not at n//2 (the index the MTF is normalised by) or a linear phase is left in the OTF' % (d, par), f.loc())
    # the three products share the transform and the DC index (index value decided in C04.centre)
    for nm in ('mtf_from_psf', 'ptf_from_psf', 'otf_from_psf'):
        fi = db.func(OT + nm)
        calls = [n for n in walk_no_nested(fi.node) if isinstance(n, ast.Call) and ast.unparse(n.func) == 'transform_psf']
        norm = [n for n in walk_no_nested(fi.node) if isinstance(n, ast.AugAssign) and isinstance(n.op, ast.Div)]
        # the index is a pair of locals computed from the shape of the transform (their values and axes are C04.centre's business)
        idx = norm[0].value.slice if len(norm) == 1 and isinstance(norm[0].value, ast.Subscript) else None
        idn = [e.id for e in idx.elts] if isinstance(idx, ast.Tuple) and len(idx.elts) == 2 and all(isinstance(e, ast.Name) for e in idx.elts) else []
        from_shape = [n for n in walk_no_nested(fi.node) if isinstance(n, ast.Assign) and any(isinstance(x_, ast.Attribute) and x_.attr == 'shape' for x_ in ast.walk(n.value))
                      and set(idn) <= {x_.id for t_ in n.targets for x_ in ast.walk(t_) if isinstance(x_, ast.Name)}]
        ok = len(calls) == 1 and len(norm) == 1 and len(set(idn)) == 2 and bool(from_shape) and ast.unparse(norm[0].value.value) == ast.unparse(norm[0].target)
        run.check(ok, 'C15.dc', fi.qual, 'DC normalisation', '%s divides by its own sample at [cy, cx]' % nm, '%s is not normalised by its own DC sample' % nm, fi.loc())
    from ..core.pattern import match_all
    fm = db.func(OT + 'mtf_from_psf')
    okm = match_all(fm.node, ['V_d, V_df = transform_psf(psf, dx)', 'V_a = abs(V_d)', 'V_a /= V_a[V_i, V_j]', 'return RichData(data=V_a, dx=V_df, wavelength=None)'], ordered=True) is not None \
        or match_all(fm.node, ['V_d, V_df = transform_psf(psf, dx)', 'V_a = np.abs(V_d)', 'V_a /= V_a[V_i, V_j]', 'return RichData(data=V_a, dx=V_df, wavelength=None)'], ordered=True) is not None
    run.check(okm, 'C15.dc', fm.qual, 'modulus', 'MTF is the modulus of the transform', 'MTF is not abs(transform)', fm.loc())
    fp = db.func(OT + 'ptf_from_psf')
    okp = match_all(fp.node, ['V_d, V_df = transform_psf(psf, dx)', 'V_d /= V_d[V_i, V_j]', 'V_a = np.angle(V_d)', 'return RichData(data=V_a, dx=V_df, wavelength=None)'], ordered=True) is not None
    run.check(okp, 'C15.dc', fp.qual, 'phase', 'PTF is the angle of the DC-normalised transform', 'PTF is not angle(transform)', fp.loc())
    # DC index value for both parities (the C04 centre rule applied to the three products)
    c04.centre_sites(run, db, rule='C15.dc', only=[OT + 'mtf_from_psf', OT + 'ptf_from_psf', OT + 'otf_from_psf'])


def cache_rules(run, db):
    """History independence: any memo in the image-formation modules is keyed by everything its fill reads."""
    res = memo_completeness(db, ['prysm.convolution', 'prysm.otf', 'prysm.fttools', 'prysm.coordinates'])
    for fi, st, memo, missing in res:
        run.check(not missing, 'C15.cache', fi.qual, 'memo %s' % memo, 'memo %s is keyed by every input its fill block reads' % memo,
                  'the memo %s is filled from %s, which the key does not contain: a later call that differs only in %s gets the cached value of the earlier call (results depend on call history)'
                  % (memo, missing, missing), fi.loc(st))
    from .purity import memo_inplace
    for fi, st, callee in memo_inplace(db, ['prysm.convolution', 'prysm.otf', 'prysm.fttools', 'prysm.coordinates']):
        run.finding('C15.cache', fi.qual, norm_stmt(st), 'in-place write into the result of the memoising function %s: later callers receive the edited array (results depend on call history)' % callee.qual, fi.loc(st))
    for q in (CV + 'conv', CV + 'apply_transfer_functions', OT + 'transform_psf', OT + 'mtf_from_psf', OT + 'ptf_from_psf', OT + 'otf_from_psf'):
        fi = db.func(q)
        muts = [m for m in input_mutations(fi) if m[1] in fi.params]
        for st, name in muts:
            run.finding('C15.cache', fi.qual, norm_stmt(st), 'in-place write through the argument `%s`: the caller\'s array is modified' % name, fi.loc(st))
        if not muts:
            run.ok('C15.cache', fi.qual, 'arguments are not written through')


def check(run, db, tier):
    run.trust('ORIGIN typestate (origin index and phase ramp per parity class); convolution theorem: a product of spectra with equal DC index is a circular convolution about that origin')
    run.assume('not decided: MTF <= 1, point symmetry, energy product (mathematical facts about values of non-negative PSFs)')
    run.rule('C15.origin', 'conv / apply_transfer_functions (both conventions) / transform_psf map centred input to centred output with no phase ramp, odd and even sizes; impulse offsets translate')
    run.rule('C15.grid', 'frequency grids given to callable transfer functions use the convention of the spectrum they multiply')
    run.rule('C15.fold', 'the transfer-function list is folded multiplicatively over every element exactly once')
    run.rule('C15.dc', 'MTF/PTF/OTF share one transform and are normalised by their own sample at n//2')
    run.rule('C15.cache', 'no memo keyed by less than its fill reads; arguments are not modified in place (results do not depend on call history)')
    for fn in (conv_rules, atf_rules, inventory_rules, grid_shape_rules, otf_rules, cache_rules):
        run.group(fn, run, db)
    run.require_instances('C15.origin', 12)
    run.require_instances('C15.dc', 20)
