"""C15 -- image formation obeys the convolution theorem; the MTF is a valid MTF."""
import ast

from ..core.db import AnalysisError, norm_stmt, walk_no_nested
from ..core.interp import Interp, Const, Tup, Unknown, Obj, Value
from ..domains.origin import OriginDomain, Og, Real, Ix, half as ohalf
from . import c04
from .purity import memo_completeness, input_mutations

CV = 'prysm.convolution.'
OT = 'prysm.otf.'


def _dom(parity):
    dom = OriginDomain(parity)

    def call_prysm(fi, args, kwargs, node, dom=dom):
        if fi.qual == 'prysm.coordinates.optimize_xy_separable':
            return Tup(list(args[:2]))
        if fi.qual == 'prysm.coordinates.cart_to_polar':
            a, b = args[0], args[1]
            if isinstance(a, Og) and isinstance(b, Og) and a.o == b.o:
                return Tup([a, a])
            return Tup([Unknown('polar'), Unknown('polar')])
        return None
    dom.call_prysm = call_prysm
    return dom


def _direction(run, f, path, want, label):
    """Transform directions on a path: data enter the frequency domain by the FORWARD transform (the convention in which
    transfer functions / OTFs are defined) and come back by the inverse."""
    seq = [e['which'] for e in path.events if e['kind'] == 'fft']
    run.check(seq == want, 'C15.origin', f.qual, 'transform directions ' + label, 'transforms applied in the order %s' % want,
              '%s applies the transforms %s, expected %s: with forward and inverse exchanged every real, even transfer function still works, but a complex or asymmetric one is '
              'applied conjugated (a displaced impulse moves the image the wrong way; conv and apply_transfer_functions disagree)' % (f.name, seq, want), f.loc())


def conv_rules(run, db):
    f = db.func(CV + 'conv')
    for parity in (0, 1):
        dom = _dom(parity)
        it = Interp(db, dom)
        par = 'odd' if parity else 'even'
        res = [p for p in it.run(f, kwargs=lambda: {'obj': dom.centred(), 'psf': dom.centred()}) if p.outcome == 'return']
        if len(res) != 1:
            raise AnalysisError('conv: expected one path')
        v = res[0].value
        _direction(run, f, res[0], ['fft2', 'fft2', 'ifft2'], '[%s]' % par)
        ok = isinstance(v, Og) and v.o == ohalf(parity) and v.r.is_zero()
        run.check(ok, 'C15.origin', f.qual, 'conv origin', 'centred object (*) centred PSF -> centred image, no phase ramp [%s]' % par,
                  'conv returns %r for %s sizes (expected the origin at n//2 and no ramp): the image is displaced / the real part is taken of a ramped array' % (v, par), f.loc())
        bad = [e for e in res[0].events if e['kind'] in ('real-of-ramped', 'origin-mismatch')]
        run.check(not bad, 'C15.origin', f.qual, 'conv spectra', 'both spectra share one origin; .real is taken of an unramped array [%s]' % par,
                  'conv: %s for %s sizes' % (bad[0]['kind'] if bad else '', par), f.loc())
        # a PSF whose impulse sits at index 0 (not centred) must displace the image by -n//2: translation covariance
        res2 = [p for p in it.run(f, kwargs=lambda: {'obj': dom.centred(), 'psf': dom.at_zero()}) if p.outcome == 'return']
        v2 = res2[0].value
        want = ohalf(parity) - ohalf(parity)       # origin a, impulse displaced by -a  ->  0
        ok2 = isinstance(v2, Og) and v2.o == Ix(0, 0, parity) and v2.r.is_zero()
        run.check(ok2, 'C15.origin', f.qual, 'conv translation', 'an impulse displaced by -n//2 displaces the image by -n//2 [%s]' % par,
                  'conv does not translate the object by the impulse offset for %s sizes: %r' % (par, v2), f.loc())


def atf_rules(run, db):
    f = db.func(CV + 'apply_transfer_functions')
    for parity in (0, 1):
        par = 'odd' if parity else 'even'
        for shift in (True, False):
            dom = _dom(parity)
            it = Interp(db, dom)
            tf_og = Og(ohalf(parity), Ix(0, 0, parity), 'freq') if shift else Og(Ix(0, 0, parity), Ix(0, 0, parity), 'freq')
            from ..core.interp import LambdaRef, Frame
            lam = ast.parse('lambda: T', mode='eval').body

            def kw(with_callable):
                tfs = [tf_og, tf_og]
                if with_callable:
                    tfs = [tf_og, LambdaRef(lam, Frame(f, f.module, {'T': tf_og}))]
                return {'obj': dom.centred(), 'dx': Real(), 'tfs': Tup(tfs, 'list'), 'fx': Const(None), 'fy': Const(None),
                        'ft': Const(None), 'fr': Const(None), 'shift': Const(shift)}
            res = [p for wc in (False, True) for p in it.run(f, kwargs=lambda wc=wc: kw(wc)) if p.outcome == 'return']
            if not res:
                raise AnalysisError('apply_transfer_functions: no returning path')
            seen = set()
            for p in res:
                v = p.value
                if not isinstance(v, Og):
                    raise AnalysisError('apply_transfer_functions(shift=%s): result has no origin typestate on path %s: %r' % (shift, p.conds, v))
                key = repr(v)
                if ('dir', shift) not in seen:
                    seen.add(('dir', shift))
                    _direction(run, f, p, ['fft2', 'ifft2'], 'shift=%s [%s]' % (shift, par))
                ok = isinstance(v, Og) and v.o == ohalf(parity) and v.r.is_zero()
                mism = [e for e in p.events if e['kind'] in ('origin-mismatch', 'real-of-ramped')]
                fxv = p.frame.env.get('fx')          # a parameter
                if isinstance(fxv, Og) and ('grid', repr(fxv)) not in seen:
                    seen.add(('grid', repr(fxv)))
                    want = ohalf(parity) if shift else Ix(0, 0, parity)
                    run.check(fxv.o == want, 'C15.grid', f.qual, 'frequency grids shift=%s' % shift,
                              'callables are evaluated on grids whose zero is at %s [%s]' % ('the centre' if shift else '[0,0]', par),
                              'with shift=%s the frequency grids given to callable transfer functions have their zero at index %r but the spectrum they multiply has DC at index %r' % (shift, fxv.o, want), f.loc())
                if key + str(bool(mism)) in seen:
                    continue
                seen.add(key + str(bool(mism)))
                run.check(ok and not mism, 'C15.origin', f.qual, 'filter origin shift=%s' % shift,
                          'centred object, transfer functions with DC at %s -> centred image [%s]' % ('the centre' if shift else '[0,0]', par),
                          'apply_transfer_functions(shift=%s) returns %r for %s sizes (expected origin n//2, no ramp)%s: an all-ones transfer function is not the identity'
                          % (shift, v, par, '; spectra with different origins are multiplied' if mism else ''), f.loc())
    # fold: the image is the inverse transform of (spectrum of the object) x (every transfer function, each exactly once) -- decided in
    # NORM with the transforms as uninterpreted functions, shifts and the real part as identities (origins are decided above)
    from .common import norm_interp
    from ..core.norm import Rat
    from ..core.interp import LambdaRef, Frame
    for shift in (True, False):
        for ntf, with_callable in ((1, False), (2, False), (3, False), (3, True)):
            itn, domn = norm_interp(db)
            oe = domn.call_ext

            def call_ext(dotted, args, kwargs, node, domn=domn, oe=oe):
                last = dotted.rsplit('.', 1)[-1]
                if last in ('fftshift', 'ifftshift', 'real', 'asarray') and args and domn.rat(args[0]) is not None:
                    return args[0]
                if last in ('fft2', 'ifft2') and args and domn.rat(args[0]) is not None and len(args) == 1 and not kwargs:
                    return domn.func_atom(last, [args[0]])
                if dotted == 'builtins.callable' and args and domn.rat(args[0]) is not None:
                    return Const(False)
                return oe(dotted, args, kwargs, node)
            domn.call_ext = call_ext
            og = domn.getattr

            def getattr_(v, name, node, domn=domn, og=og):
                if name == 'real' and domn.rat(v) is not None:
                    return v
                return og(v, name, node)
            domn.getattr = getattr_
            lam = ast.parse('lambda: TLAST', mode='eval').body

            def kw(domn=domn, ntf=ntf, with_callable=with_callable, lam=lam, shift=shift):
                tfs = [domn.sym('T%d' % k) for k in range(ntf)]
                if with_callable:
                    tfs[-1] = LambdaRef(lam, Frame(f, f.module, {'TLAST': domn.sym('T%d' % (ntf - 1))}))
                return {'obj': domn.sym('OBJ'), 'dx': domn.sym('dx'), 'tfs': Tup(tfs, 'list'), 'fx': Const(None), 'fy': Const(None), 'ft': Const(None), 'fr': Const(None), 'shift': Const(shift)}
            res = [p for p in itn.run(f, kwargs=kw) if p.outcome == 'return']
            if not res:
                raise AnalysisError('apply_transfer_functions (fold, %d transfer functions): no returning path' % ntf)
            Rn = domn.R
            prod = Rat(Rn.func('fft2', [Rat(Rn.atom('OBJ'))]))
            for k in range(ntf):
                prod = prod * Rat(Rn.atom('T%d' % k))
            want = Rat(Rn.func('ifft2', [prod]))
            for p in res:
                got = domn.rat(p.value)
                run.check(got is not None and got == want, 'C15.fold', f.qual, 'running product (%d transfer functions%s, shift=%s)' % (ntf, ', last one callable' if with_callable else '', shift),
                          'image == ifft2(fft2(object) * T_1 * ... * T_n): each transfer function multiplies the spectrum exactly once',
                          'with %d transfer functions the image is %s, expected %s: a transfer function is skipped or applied more than once' % (ntf, got.key() if got is not None else repr(p.value), want.key()), f.loc())


def grid_role_rules(run, db):
    """Which grid reaches a callable transfer function under which name: fx is the frequency axis of the columns (axis 1), fy of the
    rows (axis 0), fr the radius and ft the azimuth of cart_to_polar(fx, fy) -- whether the grids are built here or supplied.  Decided
    with tokens; forward_ft_unit / optimize_xy_separable / cart_to_polar are summarised by their contracts."""
    from .common import bind_call
    from ..core.interp import Domain
    f = db.func(CV + 'apply_transfer_functions')

    class Tok(Value):
        def __init__(self, kind, *args):
            self.kind, self.args = kind, args

        def __repr__(self):
            return '%s(%s)' % (self.kind, ', '.join(map(repr, self.args)))

        def __eq__(self, o):
            return isinstance(o, Tok) and self.kind == o.kind and len(self.args) == len(o.args) and all(a == b for a, b in zip(self.args, o.args))

        def __hash__(self):
            return hash(self.kind)

    class TF(Value):
        pass

    class Sig(Value):
        pass

    class GDomain(Domain):
        def __init__(self):
            self.seen = []

        def getattr(self, v, name, node):
            if isinstance(v, Tok) and v.kind == 'obj' and name == 'shape':
                return Tup([Tok('len', 0), Tok('len', 1)])
            if isinstance(v, Sig) and name == 'parameters':
                return Tup([Const('fx'), Const('fy'), Const('fr'), Const('ft')])
            if isinstance(v, Tok) and name in ('real', 'T'):
                return v
            return None

        def call_prysm(self, fi_, args, kw, node):
            b = bind_call(fi_, args, kw)
            if fi_.name == 'forward_ft_unit':
                n = b.get('samples')
                return Tok('axis', n.args[0]) if isinstance(n, Tok) and n.kind == 'len' else Unknown('frequency axis of an unknown length')
            if fi_.name == 'optimize_xy_separable':
                return Tup([b.get('x'), b.get('y')])
            if fi_.name == 'cart_to_polar':
                return Tup([Tok('rho', b.get('x'), b.get('y')), Tok('phi', b.get('x'), b.get('y'))])
            if fi_.module is not f.module:
                return Unknown(fi_.name)
            return None

        def call_ext(self, dotted, args, kwargs, node):
            last = dotted.rsplit('.', 1)[-1]
            if dotted == 'builtins.callable' and args:
                return Const(isinstance(args[0], TF))
            if dotted == 'inspect.signature' and args and isinstance(args[0], TF):
                return Sig()
            if last in ('fft2', 'ifft2', 'fftshift', 'ifftshift', 'real', 'asarray') and args and isinstance(args[0], Tok):
                return args[0]
            return None

        def binop(self, op, a, b, node):
            if isinstance(a, Tok) and a.kind in ('obj', 'spec'):
                return Tok('spec')
            return None

        def call_object(self, fobj, args, kwargs, node):
            if isinstance(fobj, TF):
                self.seen.append((list(args), dict(kwargs), node))
                return Tok('tfarray')
            return None
    for label, gx, gy in (('grids built here', Const(None), Const(None)), ('grids supplied', Tok('user', 'fx'), Tok('user', 'fy'))):
        for shift in (False, True):
            dom = GDomain()
            it = Interp(db, dom)
            kw = {'obj': Tok('obj'), 'dx': Unknown('dx'), 'tfs': Tup([TF()], 'list'), 'fx': gx, 'fy': gy, 'fr': Const(None), 'ft': Const(None), 'shift': Const(shift)}
            res = [p for p in it.run(f, kwargs=lambda: dict(kw)) if p.outcome == 'return']
            if not res or not dom.seen:
                raise AnalysisError('apply_transfer_functions grid roles (%s): the callable transfer function is not reached' % label)
            wx, wy = (Tok('axis', 1), Tok('axis', 0)) if isinstance(gx, Const) else (gx, gy)
            want = {'fx': wx, 'fy': wy, 'fr': Tok('rho', wx, wy), 'ft': Tok('phi', wx, wy)}
            for args, kwargs, node in dom.seen:
                if args:
                    raise AnalysisError('apply_transfer_functions: a callable transfer function is called with positional grids')
                bad = {k: v for k, v in kwargs.items() if k in want and not (v == want[k])}
                unk = [k for k, v in bad.items() if not isinstance(v, Tok)]
                if unk:
                    raise AnalysisError('apply_transfer_functions: the grid handed over as %s is not followed (%r)' % (unk[0], bad[unk[0]]))
                run.check(not bad, 'C15.grid', f.qual, 'grid roles: %s, shift=%s' % (label, shift),
                          'a callable transfer function receives the column frequencies as fx, the row frequencies as fy, and the radius / azimuth of (fx, fy) as fr / ft [%s]' % label,
                          'a callable transfer function is handed %s [%s]: a transfer function written in terms of that grid is evaluated on another one'
                          % (', '.join('%s=%r (expected %r)' % (k, v, want[k]) for k, v in sorted(bad.items())), label), f.loc(node))


def grid_shape_rules(run, db):
    """Frequency grids handed to callable transfer functions broadcast to the shape of the spectrum they multiply,
    whether the caller gives none, vectors, or the documented 2-D (M, N) grids -- decided by interpreting the whole routine in
    the SHAPE domain with a callable transfer function that records the shapes it is called with."""
    from ..domains.shape import ShapeDomain, Sh, Scalar, Dim, broadcast
    from ..core.interp import Value
    f = db.func(CV + 'apply_transfer_functions')

    class TF(Value):
        def __repr__(self):
            return 'TF'

    class Sig(Value):
        pass

    def ft_unit(dom, fi, args, kwargs, node):
        n = args[1] if len(args) > 1 else kwargs.get('samples')
        return Sh((n.n,)) if isinstance(n, Dim) else Sh(('?',))
    for label, gx, gy in (('no grids given', Const(None), Const(None)), ('vectors (N,), (M,)', Sh(('N',)), Sh(('M',))), ('2-D grids (M, N)', Sh(('M', 'N')), Sh(('M', 'N')))):
        dom = ShapeDomain({'prysm.fttools.forward_ft_unit': ft_unit})
        seen = []
        oe, oga = dom.call_ext, dom.getattr

        def call_ext(dotted, args, kwargs, node, dom=dom, oe=oe):
            last = dotted.rsplit('.', 1)[-1]
            if dotted == 'builtins.callable' and args:
                return Const(isinstance(args[0], TF))
            if dotted == 'inspect.signature' and args and isinstance(args[0], TF):
                return Sig()
            if last in ('fft2', 'ifft2', 'fftshift', 'ifftshift', 'real') and args and isinstance(args[0], Sh):
                return args[0]
            return oe(dotted, args, kwargs, node)

        def getattr_(v, name, node, oga=oga):
            if isinstance(v, Sig) and name == 'parameters':
                return Tup([Const('fx'), Const('fy'), Const('fr'), Const('ft')])
            return oga(v, name, node)

        def call_object(fobj, args, kwargs, node, seen=seen):
            if isinstance(fobj, TF):
                seen.append((list(args), dict(kwargs), node))
                return Sh(('M', 'N'))
            return None
        dom.call_ext, dom.getattr, dom.call_object = call_ext, getattr_, call_object
        it = Interp(db, dom)
        kw = {'obj': Sh(('M', 'N')), 'dx': Scalar(), 'tfs': Tup([TF()], 'list'), 'fx': gx, 'fy': gy, 'fr': Const(None), 'ft': Const(None), 'shift': Const(False)}
        res = [p for p in it.run(f, kwargs=lambda: dict(kw)) if p.outcome == 'return']
        if not res or not seen:
            raise AnalysisError('apply_transfer_functions grids (%s): the callable transfer function is not reached' % label)
        errs = [e for p in res for e in p.events if e['kind'] in ('broadcast-error', 'index-error')]
        for args, kwargs, node in seen:
            got = {k: (v.dims if isinstance(v, Sh) else None) for k, v in kwargs.items()}
            shapes = [got.get(k) for k in ('fx', 'fy', 'fr', 'ft')]
            ok = not errs and not args and all(sh is not None for sh in shapes) and all(broadcast(sh, ('M', 'N')) == ('M', 'N') for sh in shapes) \
                and shapes[2] == ('M', 'N') and shapes[3] == ('M', 'N') and broadcast(shapes[0], shapes[1]) == ('M', 'N')
            run.check(ok, 'C15.grid', f.qual, 'grid shapes: ' + label, 'fx, fy broadcast to (M, N) and fr, ft have shape (M, N) [%s]' % label,
                      'with %s the grids handed to callable transfer functions have shapes fx=%s fy=%s fr=%s ft=%s; they must broadcast to the (M, N) spectrum (a wrong rank silently yields a 3-D "image")'
                      % tuple([label] + shapes), f.loc(node))
        for p in res:
            run.check(isinstance(p.value, Sh) and p.value.dims == ('M', 'N'), 'C15.grid', f.qual, 'image shape: ' + label, 'the image has the shape of the object',
                      'the image has shape %r for an (M, N) object' % (getattr(p.value, 'dims', p.value),), f.loc())


def inventory_rules(run, db):
    """Who may touch the data between the object and the image: the convolution routines transform, multiply and transform
    back on the array's OWN grid; the OTF products are the transform's modulus / angle / value divided by their DC sample."""
    # decided on the operations the interpretation actually performs on data-path arrays (helpers are followed): every library call
    # that receives an array of the object/image chain must be a transform or a shift, and the real part is taken after the last inverse transform
    DATA_OPS = {'fft2', 'ifft2', 'fftshift', 'ifftshift', 'real'}
    from ..core.interp import LambdaRef, Frame

    def contexts(q):
        f_ = db.func(q)
        out = []
        for parity in (0, 1):
            if q.endswith('conv'):
                dom = _dom(parity)
                out.append((dom, lambda dom=dom: {'obj': dom.centred(), 'psf': dom.centred()}, 'sizes %s' % ('odd' if parity else 'even')))
            else:
                for shift in (True, False):
                    for with_callable in (False, True):
                        dom = _dom(parity)
                        tf_og = Og(ohalf(parity), Ix(0, 0, parity), 'freq') if shift else Og(Ix(0, 0, parity), Ix(0, 0, parity), 'freq')
                        lam = ast.parse('lambda: T', mode='eval').body

                        def kw(dom=dom, tf_og=tf_og, lam=lam, shift=shift, with_callable=with_callable):
                            tfs = [tf_og, LambdaRef(lam, Frame(f_, f_.module, {'T': tf_og}))] if with_callable else [tf_og, tf_og]
                            return {'obj': dom.centred(), 'dx': Real(), 'tfs': Tup(tfs, 'list'), 'fx': Const(None), 'fy': Const(None), 'ft': Const(None), 'fr': Const(None), 'shift': Const(shift)}
                        out.append((dom, kw, 'shift=%s%s, %s' % (shift, ', callable' if with_callable else '', 'odd' if parity else 'even')))
        return f_, out
    for q in (CV + 'conv', CV + 'apply_transfer_functions'):
        f, ctxs = contexts(q)
        extra, noreal = {}, []
        npaths = 0
        for dom, kw, label in ctxs:
            it = Interp(db, dom)
            for p in it.run(f, kwargs=kw):
                if p.outcome != 'return':
                    continue
                npaths += 1
                last_inv = None
                real_after = False
                for k_, e in enumerate(p.events):
                    if e['kind'] == 'extcall' and any(isinstance(a, Og) and a.kind != 'freqaxis' for a in e.get('args', [])):
                        nm = e['name'].rsplit('.', 1)[-1]
                        if nm not in DATA_OPS:
                            extra.setdefault(e['name'], e.get('node'))
                    if e['kind'] == 'fft' and e['which'].startswith('i'):
                        last_inv, real_after = k_, False
                    if e['kind'] == 'real' and last_inv is not None:
                        real_after = True
                if last_inv is None or not real_after:
                    noreal.append(label)
        if npaths == 0:
            raise AnalysisError('%s: no returning path analysed' % q)
        run.check(not extra, 'C15.origin', f.qual, 'operations on the data', '%s only transforms, shifts and multiplies the arrays of the object/image chain' % f.name,
                  '%s also applies `%s` to the data: the result is no longer the circular convolution on the array\'s own grid / no longer linear in the object (resizing to another FFT length changes what wraps around; '
                  'a modulus or clip breaks linearity)' % (f.name, sorted(extra)[0] if extra else ''), f.loc(extra[sorted(extra)[0]]) if extra and extra[sorted(extra)[0]] is not None else f.loc())
        run.check(not noreal, 'C15.origin', f.qual, 'real part', 'the image is the REAL PART of the inverse transform (linear in the object, negative samples kept)',
                  '%s does not take the real part of the inverse transform on the paths %s' % (f.name, noreal[:3]), f.loc())


def otf_products_origin(run, db):
    """mtf / ptf / otf_from_psf decided in ORIGIN for both parities: a centred PSF gives a product whose DC sample sits at n//2 with no
    phase ramp, that was normalised by its own DC sample (division, or subtraction for a phase), through exactly one forward transform,
    and that is the modulus / angle / value of the spectrum as its name says.  Index arithmetic on the shape is followed exactly
    (n//2, floor(n/2), ceil(n/2) differ for odd n)."""
    from ..domains.origin import Ix, half, IxV
    decided = 0

    class Samp(Value):
        """one sample of an array: `dc` says whether it is that array's zero-frequency sample"""
        def __init__(self, of, dc):
            self.of, self.dc = of, dc

    def mk(parity):
        base = _dom(parity)
        B = type(base)

        class OtfDomain(B):
            def _carry(self, res, src, **upd):
                if isinstance(res, Og):
                    note = dict(src.note) if isinstance(getattr(src, 'note', None), dict) else {}
                    note.update(upd)
                    res = Og(res.o, res.r, res.kind, note)
                return res

            def call_ext(self, dotted, args, kwargs, node):
                last = dotted.rsplit('.', 1)[-1]
                a0 = args[0] if args else None
                if last == 'angle' and isinstance(a0, Og):
                    return self._carry(Og(a0.o, a0.r, a0.kind), a0, tag='angle')
                r = B.call_ext(self, dotted, args, kwargs, node)
                if isinstance(r, Og) and isinstance(a0, Og):
                    r = self._carry(r, a0, **({'tag': 'abs'} if last in ('abs', 'absolute') else {}))
                return r

            def getattr(self, v, name, node):
                r = B.getattr(self, v, name, node)
                return self._carry(r, v) if isinstance(v, Og) else r

            def method(self, v, name, args, kwargs, node):
                r = B.method(self, v, name, args, kwargs, node)
                return self._carry(r, v) if isinstance(v, Og) else r

            def unary(self, op, a, node):
                return a if isinstance(a, (Og, Real)) else None

            def subscript(self, v, idx, node):
                if isinstance(v, Og):
                    items = idx.items if isinstance(idx, Tup) else [idx]
                    ixs = []
                    for x in items:
                        if isinstance(x, IxV):
                            ixs.append(x.ix)
                        elif isinstance(x, Const) and isinstance(x.v, int) and not isinstance(x.v, bool):
                            ixs.append(Ix(0, x.v, self.p))
                        else:
                            return Unknown('sample at an index that is not followed')
                    if len(ixs) != 2:
                        return Unknown('sample of a 2-D array with %d indices' % len(ixs))
                    return Samp(v, all(i == v.o for i in ixs))
                return B.subscript(self, v, idx, node)

            def binop(self, op, a, b, node):
                if isinstance(a, Og) and isinstance(b, Samp) and isinstance(op, (ast.Div, ast.Sub)):
                    note = a.note if isinstance(a.note, dict) else {}
                    tag = note.get('tag')
                    same = isinstance(b.of.note, dict) and b.of.note.get('tag') == tag or (not isinstance(b.of.note, dict) and tag is None)
                    if not b.dc:
                        how = 'not-dc'
                    elif not same:
                        how = 'foreign'
                    elif isinstance(op, ast.Div):
                        how = 'div' if tag in (None, 'abs') else 'bad'
                    else:
                        how = 'sub' if tag == 'angle' else 'bad'
                    return self._carry(Og(a.o, a.r, a.kind), a, dcn=how)
                if isinstance(a, Samp) or isinstance(b, Samp):
                    return Unknown('arithmetic on a sample that is not followed')
                r = B.binop(self, op, a, b, node)
                src = a if isinstance(a, Og) else b
                return self._carry(r, src) if isinstance(src, Og) else r

            def iterate(self, v, node):
                return B.iterate(self, v, node)
        dom = OtfDomain(parity)
        dom.call_prysm = base.call_prysm

        def hasattr_hook(dotted, args, kwargs, node, orig=dom.call_ext):
            if dotted == 'builtins.hasattr' and args and isinstance(args[0], Og):
                return Const(True)
            if dotted == 'builtins.isinstance' and args and isinstance(args[0], Og):
                return None
            return orig(dotted, args, kwargs, node)
        dom.call_ext = hasattr_hook
        return dom
    for nm, kind in (('mtf_from_psf', 'abs'), ('ptf_from_psf', 'angle'), ('otf_from_psf', None)):
        fi = db.func(OT + nm)
        for parity in (0, 1):
            par = 'odd' if parity else 'even'
            dom = mk(parity)
            it = Interp(db, dom)
            res = [p for p in it.run(fi, kwargs=lambda: {'psf': dom.centred(), 'dx': Real()}) if p.outcome == 'return']
            if not res:
                raise AnalysisError('%s: no returning path [%s]' % (nm, par))
            for p in res:
                v = p.value
                d = v.attrs.get('data') if isinstance(v, Obj) else None
                if not isinstance(d, Og):
                    raise AnalysisError('%s: the data of the returned object is not followed [%s]: %r' % (nm, par, d))
                note = d.note if isinstance(d.note, dict) else {}
                nfft = [e['which'] for e in p.events if e['kind'] == 'fft']
                decided += 1
                run.check(d.o == ohalf(parity) and (d.r.is_zero() or kind == 'abs'), 'C15.dc', fi.qual, 'DC position [%s]' % par, 'the zero-frequency sample of %s sits at n//2 for %s sizes' % (nm, par),
                          ('%s returns an array whose zero-frequency sample sits at index %r for %s sizes, expected n//2 = %r (MTF != 1 there, and the product is not point-symmetric about n//2)' % (nm, d.o, par, ohalf(parity)))
                          if d.o != ohalf(parity) else
                          ('%s has its zero-frequency sample at n//2 but carries a linear phase ramp for %s sizes: the transform was taken of an array whose origin had not been moved to index 0 '
                           '(the value at every sample but DC is multiplied by a phase; OTF != MTF exp(i PTF))' % (nm, par)), fi.loc())
                how = note.get('dcn')
                run.check(how in ('div', 'sub'), 'C15.dc', fi.qual, 'DC normalisation [%s]' % par, '%s is normalised by its own zero-frequency sample [%s]' % (nm, par),
                          '%s is %s for %s sizes' % (nm, {None: 'not normalised by any sample', 'not-dc': 'normalised by a sample that is not its zero-frequency sample', 'foreign': "normalised by another array's sample",
                                                           'bad': 'normalised the wrong way round for its kind (a phase is referenced by subtraction, a modulus / value by division)'}.get(how, how), par), fi.loc())
                run.check(note.get('tag') == kind, 'C15.dc', fi.qual, 'which part of the spectrum [%s]' % par, '%s is the %s of the spectrum' % (nm, {'abs': 'modulus', 'angle': 'phase angle', None: 'complex value'}[kind]),
                          '%s returns the %s of the spectrum' % (nm, {'abs': 'modulus', 'angle': 'phase angle', None: 'complex value'}[note.get('tag')]), fi.loc())
                run.check(nfft == ['fft2'], 'C15.dc', fi.qual, 'one forward transform [%s]' % par, 'one forward transform', '%s applies the transforms %s' % (nm, nfft), fi.loc())
    return decided


def otf_rules(run, db):
    f = db.func(OT + 'transform_psf')
    for parity in (0, 1):
        par = 'odd' if parity else 'even'
        dom = _dom(parity)

        def hasattr_hook(dotted, args, kwargs, node, orig=dom.call_ext):
            if dotted == 'builtins.hasattr' and args and isinstance(args[0], Og):
                return Const(True)
            return orig(dotted, args, kwargs, node)
        dom.call_ext = hasattr_hook
        it = Interp(db, dom)
        # optional flags the routine may have grown keep the value their default gives them (the documented behaviour is the default one)
        flags = {}
        a_ = f.node.args
        for p_, d_ in zip([x.arg for x in a_.args][len(a_.args) - len(a_.defaults):], a_.defaults):
            if p_ not in ('psf', 'dx') and isinstance(d_, ast.Constant) and isinstance(d_.value, (bool, type(None), str)):
                flags[p_] = Const(d_.value)
        res = [p for p in it.run(f, kwargs=lambda: dict({'psf': dom.centred(), 'dx': Real()}, **flags)) if p.outcome == 'return']
        if len(res) != 1:
            raise AnalysisError('transform_psf: expected one path, got %d' % len(res))
        v = res[0].value
        _direction(run, f, res[0], ['fft2'], '[%s]' % par)
        d = v.items[0] if isinstance(v, Tup) else None
        run.check(isinstance(d, Og) and d.o == ohalf(parity) and d.r.is_zero(), 'C15.origin', f.qual, 'otf transform', 'centred PSF -> spectrum with DC at n//2 and no phase ramp [%s]' % par,
                  'transform_psf returns %r for %s sizes: the DC sample is not at n//2 (the index the MTF is normalised by) or a linear phase is left in the OTF' % (d, par), f.loc())
    decided = otf_products_origin(run, db)
    try:
        _otf_products_norm(run, db)
    except AnalysisError:
        if not decided:
            raise
        # the products are not built on transform_psf + an index computed from the shape: the ORIGIN rule above has decided them


def _otf_products_norm(run, db):
    # the three products: modulus / angle / value of the transform, each divided by ITS OWN sample at one index computed from the
    # shape (the value of that index is C04.centre's business) -- decided in NORM with transform_psf summarised
    from .common import norm_interp, capture_calls
    from ..core.norm import Rat
    for nm, kind in (('mtf_from_psf', 'abs'), ('ptf_from_psf', 'angle'), ('otf_from_psf', 'value')):
        fi = db.func(OT + nm)
        itn, domn = norm_interp(db)
        oe, osub, oga = domn.call_ext, domn.subscript, domn.getattr

        def call_ext(dotted, args, kwargs, node, domn=domn, oe=oe):
            last = dotted.rsplit('.', 1)[-1]
            if last in ('abs', 'absolute', 'angle') and len(args) == 1 and domn.rat(args[0]) is not None:
                return domn.func_atom('abs' if last != 'angle' else 'angle', [args[0]])
            if last in ('floor', 'ceil', 'int', 'round') and len(args) == 1 and domn.rat(args[0]) is not None:
                return domn.func_atom(last, [args[0]])
            return oe(dotted, args, kwargs, node)

        def subscript(v, idx, node, domn=domn, osub=osub):
            items = idx.items if isinstance(idx, Tup) else [idx]
            if domn.rat(v) is not None and len(items) == 2 and all(domn.rat(x) is not None for x in items):
                return domn.func_atom('sample', [v] + list(items))
            return osub(v, idx, node)

        def getattr_(v, name, node, domn=domn, oga=oga):
            if name == 'shape' and domn.rat(v) is not None:
                return Tup([domn.sym('ROWS'), domn.sym('COLS')])
            return oga(v, name, node)
        edits = []

        def store_subscript(target, idx, val, node, domn=domn, edits=edits):
            if domn.rat(target) is not None:
                edits.append(node)
                return True
            return None
        domn.call_ext, domn.subscript, domn.getattr, domn.store_subscript = call_ext, subscript, getattr_, store_subscript
        paths, tcalls = capture_calls(itn, domn, fi, lambda: {'psf': domn.sym('PSF'), 'dx': domn.sym('dx')}, {OT + 'transform_psf'}, lambda f_, b_: Tup([domn.sym('DATA'), domn.sym('DF')]))
        rets = [p_ for p_ in paths if p_.outcome == 'return' and isinstance(p_.value, Obj)]
        if len(rets) != 1 or len(tcalls) != 1:
            raise AnalysisError('%s: expected one path with one transform, got %d / %d' % (nm, len(rets), len(tcalls)))
        got = domn.rat(rets[0].value.attrs.get('data'))
        Rn = domn.R
        D = Rat(Rn.atom('DATA'))
        X = Rat(Rn.func('abs', [D])) if kind == 'abs' else D
        def all_atoms(r_, acc):
            for a_ in r_.atoms():
                if a_ not in acc:
                    acc.add(a_)
                    inf = Rn.info.get(a_)
                    if inf:
                        for x_ in inf[1]:
                            if isinstance(x_, Rat):
                                all_atoms(x_, acc)
            return acc
        samples = [a for a in (all_atoms(got, set()) if got is not None else []) if a.startswith('sample(')]
        ok = False
        detail = got.key() if got is not None else repr(rets[0].value.attrs.get('data'))
        if got is not None:
            for a in samples:
                info = Rn.info.get(a)
                if not info or info[0] != 'sample':
                    continue
                arr = info[1][0]
                idx_atoms = set().union(*[x.atoms() for x in info[1][1:]]) if len(info[1]) == 3 else {'?'}
                own = isinstance(arr, Rat) and arr == X
                from_shape = idx_atoms and all(('ROWS' in t_ or 'COLS' in t_) for t_ in idx_atoms)
                quot = X / Rat(Rn.atom(a))
                want = Rat(Rn.func('angle', [quot])) if kind == 'angle' else quot
                if own and from_shape and got == want:
                    ok = True
                # |D / D[c]| is |D| / |D[c]|: the modulus may be taken after the normalisation as well as before
                if kind == 'abs' and isinstance(arr, Rat) and arr == D and from_shape and got == Rat(Rn.func('abs', [D / Rat(Rn.atom(a))])):
                    ok = True
        run.check(ok, 'C15.dc', fi.qual, 'DC normalisation', '%s == %s of the transform divided by its own sample at an index computed from the shape'
                  % (nm, {'abs': 'modulus', 'angle': 'angle', 'value': 'value'}[kind]),
                  '%s returns %s: not the %s of the transform normalised by its own DC sample' % (nm, detail, {'abs': 'modulus', 'angle': 'angle (of the DC-normalised transform)', 'value': 'value'}[kind]), fi.loc())
        run.check(not edits, 'C15.dc', fi.qual, 'no post-processing', 'the returned array is its defining expression divided by its DC sample, nothing else',
                  '%s overwrites samples of its result (`%s`): the product no longer equals the modulus / angle / value of the transform at those samples (OTF != MTF exp(i PTF) there)'
                  % (nm, norm_stmt(edits[0]) if edits else ''), fi.loc(edits[0]) if edits else fi.loc())
        dfv = domn.rat(rets[0].value.attrs.get('dx'))
        run.check(dfv is not None and dfv.key() == 'DF', 'C15.dc', fi.qual, 'frequency spacing', 'the product carries the frequency spacing of the transform', '%s does not carry the frequency spacing of the transform' % nm, fi.loc())
    # DC index value for both parities (the C04 centre rule applied to the three products)
    c04.centre_sites(run, db, rule='C15.dc', only=[OT + 'mtf_from_psf', OT + 'ptf_from_psf', OT + 'otf_from_psf'])


def cache_rules(run, db):
    """History independence: any memo in the image-formation modules is keyed by everything its fill reads."""
    res = memo_completeness(db, ['prysm.convolution', 'prysm.otf', 'prysm.fttools', 'prysm.coordinates'])
    for fi, st, memo, missing in res:
        run.check(not missing, 'C15.cache', fi.qual, 'memo %s' % memo, 'memo %s is keyed by every input its fill block reads' % memo,
                  'the memo %s is filled from %s, which the key does not contain: a later call that differs only in %s gets the cached value of the earlier call (results depend on call history)'
                  % (memo, missing, missing), fi.loc(st))
    from .purity import memo_inplace
    for fi, st, callee in memo_inplace(db, ['prysm.convolution', 'prysm.otf', 'prysm.fttools', 'prysm.coordinates']):
        run.finding('C15.cache', fi.qual, norm_stmt(st), 'in-place write into the result of the memoising function %s: later callers receive the edited array (results depend on call history)' % callee.qual, fi.loc(st))
    for q in (CV + 'conv', CV + 'apply_transfer_functions', OT + 'transform_psf', OT + 'mtf_from_psf', OT + 'ptf_from_psf', OT + 'otf_from_psf'):
        fi = db.func(q)
        muts = input_mutations(fi)
        for st, name in muts:
            run.finding('C15.cache', fi.qual, norm_stmt(st), 'in-place write through `%s`, which may be (an entry of) an argument: the caller\'s array is modified' % name, fi.loc(st))
        if not muts:
            run.ok('C15.cache', fi.qual, 'arguments are not written through')


def check(run, db, tier):
    run.trust('ORIGIN typestate (origin index and phase ramp per parity class); convolution theorem: a product of spectra with equal DC index is a circular convolution about that origin')
    run.assume('not decided: MTF <= 1, point symmetry, energy product (mathematical facts about values of non-negative PSFs)')
    run.rule('C15.origin', 'conv / apply_transfer_functions (both conventions) / transform_psf map centred input to centred output with no phase ramp, odd and even sizes; impulse offsets translate')
    run.rule('C15.grid', 'frequency grids given to callable transfer functions use the convention of the spectrum they multiply')
    run.rule('C15.fold', 'the transfer-function list is folded multiplicatively over every element exactly once')
    run.rule('C15.dc', 'MTF/PTF/OTF share one transform and are normalised by their own sample at n//2')
    run.rule('C15.cache', 'no memo keyed by less than its fill reads; arguments are not modified in place (results do not depend on call history)')
    # the PSF -> OTF transforms on values first (flat and single-sample PSFs on 3x4, 4x6, 6x3, 2x2 grids, exact DFTs)
    from .c15values import otf_value_rules
    run.group(otf_value_rules, run, db, 'C15.dc')
    for fn in (conv_rules, atf_rules, inventory_rules, grid_shape_rules, grid_role_rules, otf_rules, cache_rules):
        run.group(fn, run, db)
    run.forgive('otf_value_rules', ['otf_rules', 'inventory_rules'])
    run.require_instances('C15.origin', 12)
    run.require_instances('C15.dc', 20)
