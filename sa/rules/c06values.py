"""C06 on values: companions are adjoints.  For small concrete arrays of symbolic complex samples x (input) and y (output),
sum_k (A x)_k conj(y_k) == sum_j x_j conj((A^H y)_j) is a polynomial identity in the samples and the exp atoms of NORM; A and A^H are the
library's own routine and its `_backprop` companion, run as they stand (FILE's arrays)."""
import ast

from ..core.db import AnalysisError
from ..core.interp import Const, Tup, Obj
from ..core.norm import Rat
from ..domains.filedom import file_interp, FArr, DType

FT, P = 'prysm.fttools.', 'prysm.propagation.'


def _field(dom, tag, shape):
    return FArr.of(shape, [dom.lift(dom.rat(dom.sym('%sr%d%d' % (tag, i, j))) + dom.R.I * dom.rat(dom.sym('%si%d%d' % (tag, i, j)))) for i in range(shape[0]) for j in range(shape[1])], DType('c', 16))


def _run1(it, f, label, self_obj=None, **kw):
    res = it.run(f, kwargs=lambda: dict(kw), self_obj=self_obj)
    rets = [p for p in res if p.outcome == 'return']
    if len(rets) != len(res) or len(rets) != 1 or not isinstance(rets[0].value, FArr):
        raise AnalysisError('%s: expected one returning path with an array that is followed (%s)' % (label, [repr(p.value)[:50] for p in res][:2]))
    return rets[0].value


def _inner(dom, u, v):
    acc = Rat(dom.R.const(0))
    for a, b in zip(u.values(), v.values()):
        ra, rb = dom.rat(a), dom.rat(b)
        if ra is None or rb is None:
            raise AnalysisError('a sample of a transform is not followed')
        acc = acc + ra * rb.conj()
    return acc


def adjoint_value_rules(run, db):
    n_ok = 0
    ci = db.cls(FT + 'MatrixDFTExecutor')
    cases = []
    # the executor pairs
    for fwd, back in (('dft2', 'dft2_backprop'), ('idft2', 'idft2_backprop')):
        for nin, nout, shift in (((2, 2), (3, 2), (0, 0)), ((2, 3), (2, 2), (1, 0))):
            cases.append(('exec', fwd, back, nin, nout, shift))
    for fwd, back in (('focus_fixed_sampling', 'focus_fixed_sampling_backprop'), ('unfocus_fixed_sampling', 'unfocus_fixed_sampling_backprop')):
        for nin, nout, shift in (((2, 2), (3, 2), (0, 0)), ((2, 3), (2, 2), (0, 1))):
            cases.append(('prop', fwd, back, nin, nout, shift))
    for kind, fwd, back, nin, nout, shift in cases:
        it, dom = file_interp(db)
        dom.positive = {'Q', 'input_dx', 'prop_dist', 'wavelength', 'output_dx'}
        dom.nonzero = set(dom.positive)
        sh = lambda: Tup([Const(shift[0]), Const(shift[1])])
        label = '%s / %s, %dx%d -> %dx%d, shift %s' % (fwd, back, nin[0], nin[1], nout[0], nout[1], shift)
        if kind == 'exec':
            def mk():
                o = Obj(ci)
                it.call_funcinfo(db.method(ci, '__init__'), [], {}, o, None)
                return o
            f, g = db.func(FT + 'MatrixDFTExecutor.' + fwd), db.func(FT + 'MatrixDFTExecutor.' + back)
            Ax = _run1(it, f, label, self_obj=mk, ary=_field(dom, 'x', nin), Q=dom.sym('Q'), samples_out=Tup([Const(nout[0]), Const(nout[1])]), shift=sh())
            bk = {'fbar': _field(dom, 'y', nout), 'Q': dom.sym('Q'), 'shift': sh()}
            bk['samples_in' if 'samples_in' in g.params else 'samples_out'] = Tup([Const(nin[0]), Const(nin[1])])
            Ahy = _run1(it, g, label, self_obj=mk, **bk)
        else:
            f, g = db.func(P + fwd), db.func(P + back)
            common = {'input_dx': dom.sym('input_dx'), 'prop_dist': dom.sym('prop_dist'), 'wavelength': dom.sym('wavelength'), 'output_dx': dom.sym('output_dx'), 'method': Const('mdft')}
            Ax = _run1(it, f, label, wavefunction=_field(dom, 'x', nin), output_samples=Tup([Const(nout[0]), Const(nout[1])]), shift=sh(), **common)
            Ahy = _run1(it, g, label, wavefunction=_field(dom, 'y', nout), output_samples=Tup([Const(nin[0]), Const(nin[1])]), shift=sh(), **common)
        if tuple(Ax.shape) != tuple(nout) or tuple(Ahy.shape) != tuple(nin):
            run.finding('C06.matrix', g.qual, 'adjoint on values', '%s: the forward result has shape %s and the companion returns shape %s; an adjoint pair maps %s -> %s and back'
                        % (label, tuple(Ax.shape), tuple(Ahy.shape), nin, nout), g.loc())
            continue
        lhs = _inner(dom, Ax, _field(dom, 'y', nout))
        rhs = _inner(dom, _field(dom, 'x', nin), Ahy)
        ok = lhs == rhs
        run.check(ok, 'C06.matrix', g.qual, 'adjoint on values', '%s: <A x, y> == <x, A^H y> as an identity in the samples' % label,
                  '%s: <A x, y> - <x, companion(y)> = %s, not 0: the companion is not the adjoint' % (label, (lhs - rhs).key()[:200]), g.loc())
        n_ok += ok
    return n_ok
