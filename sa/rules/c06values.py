"""C06 on values: companions are adjoints.  For small concrete arrays of symbolic complex samples x (input) and y (output),
sum_k (A x)_k conj(y_k) == sum_j x_j conj((A^H y)_j) is a polynomial identity in the samples and the exp atoms of NORM; A and A^H are the
library's own routine and its `_backprop` companion, run as they stand (FILE's arrays)."""
import ast

from ..core.db import AnalysisError
from ..core.interp import Const, Tup, Obj
from ..core.norm import Rat
from ..domains.filedom import file_interp, FArr, DType

FT, P = 'prysm.fttools.', 'prysm.propagation.'


def _field(dom, tag, shape):
    return FArr.of(shape, [dom.lift(dom.rat(dom.sym('%sr%d%d' % (tag, i, j))) + dom.R.I * dom.rat(dom.sym('%si%d%d' % (tag, i, j)))) for i in range(shape[0]) for j in range(shape[1])], DType('c', 16))


def _run1(it, f, label, self_obj=None, **kw):
    res = it.run(f, kwargs=lambda: dict(kw), self_obj=self_obj)
    rets = [p for p in res if p.outcome == 'return']
    if len(rets) != len(res) or len(rets) != 1 or not isinstance(rets[0].value, FArr):
        raise AnalysisError('%s: expected one returning path with an array that is followed (%s)' % (label, [repr(p.value)[:50] for p in res][:2]))
    return rets[0].value


def _inner(dom, u, v):
    acc = Rat(dom.R.const(0))
    for a, b in zip(u.values(), v.values()):
        ra, rb = dom.rat(a), dom.rat(b)
        if ra is None or rb is None:
            raise AnalysisError('a sample of a transform is not followed')
        acc = acc + ra * rb.conj()
    return acc


def adjoint_value_rules(run, db):
    n_ok = 0
    ci = db.cls(FT + 'MatrixDFTExecutor')
    cases = []
    # the executor pairs
    for fwd, back in (('dft2', 'dft2_backprop'), ('idft2', 'idft2_backprop')):
        for nin, nout, shift in (((2, 2), (3, 2), (0, 0)), ((2, 3), (2, 2), (1, 0))):
            cases.append(('exec', fwd, back, nin, nout, shift))
    for fwd, back in (('focus_fixed_sampling', 'focus_fixed_sampling_backprop'), ('unfocus_fixed_sampling', 'unfocus_fixed_sampling_backprop')):
        for nin, nout, shift in (((2, 2), (3, 2), (0, 0)), ((2, 3), (2, 2), (0, 1))):
            cases.append(('prop', fwd, back, nin, nout, shift))
    for kind, fwd, back, nin, nout, shift in cases:
        it, dom = file_interp(db)
        dom.positive = {'Q', 'input_dx', 'prop_dist', 'wavelength', 'output_dx'}
        dom.nonzero = set(dom.positive)
        sh = lambda: Tup([Const(shift[0]), Const(shift[1])])
        label = '%s / %s, %dx%d -> %dx%d, shift %s' % (fwd, back, nin[0], nin[1], nout[0], nout[1], shift)
        if kind == 'exec':
            def mk():
                o = Obj(ci)
                it.call_funcinfo(db.method(ci, '__init__'), [], {}, o, None)
                return o
            f, g = db.func(FT + 'MatrixDFTExecutor.' + fwd), db.func(FT + 'MatrixDFTExecutor.' + back)
            Ax = _run1(it, f, label, self_obj=mk, ary=_field(dom, 'x', nin), Q=dom.sym('Q'), samples_out=Tup([Const(nout[0]), Const(nout[1])]), shift=sh())
            bk = {'fbar': _field(dom, 'y', nout), 'Q': dom.sym('Q'), 'shift': sh()}
            bk['samples_in' if 'samples_in' in g.params else 'samples_out'] = Tup([Const(nin[0]), Const(nin[1])])
            Ahy = _run1(it, g, label, self_obj=mk, **bk)
        else:
            f, g = db.func(P + fwd), db.func(P + back)
            common = {'input_dx': dom.sym('input_dx'), 'prop_dist': dom.sym('prop_dist'), 'wavelength': dom.sym('wavelength'), 'output_dx': dom.sym('output_dx'), 'method': Const('mdft')}
            Ax = _run1(it, f, label, wavefunction=_field(dom, 'x', nin), output_samples=Tup([Const(nout[0]), Const(nout[1])]), shift=sh(), **common)
            Ahy = _run1(it, g, label, wavefunction=_field(dom, 'y', nout), output_samples=Tup([Const(nin[0]), Const(nin[1])]), shift=sh(), **common)
        if tuple(Ax.shape) != tuple(nout) or tuple(Ahy.shape) != tuple(nin):
            run.finding('C06.matrix', g.qual, 'adjoint on values', '%s: the forward result has shape %s and the companion returns shape %s; an adjoint pair maps %s -> %s and back'
                        % (label, tuple(Ax.shape), tuple(Ahy.shape), nin, nout), g.loc())
            continue
        lhs = _inner(dom, Ax, _field(dom, 'y', nout))
        rhs = _inner(dom, _field(dom, 'x', nin), Ahy)
        ok = lhs == rhs
        run.check(ok, 'C06.matrix', g.qual, 'adjoint on values', '%s: <A x, y> == <x, A^H y> as an identity in the samples' % label,
                  '%s: <A x, y> - <x, companion(y)> = %s, not 0: the companion is not the adjoint' % (label, (lhs - rhs).key()[:200]), g.loc())
        n_ok += ok
    return n_ok


def babinet_adjoint_value_rules(run, db):
    """Wavefront.babinet / babinet_backprop as an adjoint pair on values: <B x, y> == <x, B^H y> for symbolic complex 2x2 fields, a symbolic
    complex Lyot stop and a symbolic complex 2x2 focal-plane mask (also without a Lyot stop)"""
    from ..core.interp import ClassRef
    ci = db.cls(P + 'Wavefront')
    fb, fbp = db.func(P + 'Wavefront.babinet'), db.func(P + 'Wavefront.babinet_backprop')
    n_ok = 0
    for with_lyot in (True, False):
        it, dom = file_interp(db)
        dom.positive = {'dx', 'efl', 'wavelength', 'fpm_dx'}
        dom.nonzero = set(dom.positive)
        label = 'Wavefront.babinet / babinet_backprop, 2x2 field, 2x2 mask, %s' % ('complex Lyot stop' if with_lyot else 'no Lyot stop')

        def wf(tag):
            it._reset_run([])
            o = it.call_value(ClassRef(ci), [_field(dom, tag, (2, 2)), dom.sym('wavelength'), dom.sym('dx'), Const('pupil')], {}, None, None)
            if not isinstance(o, Obj):
                raise AnalysisError('%s: a Wavefront could not be built' % label)
            return o
        kw = lambda: {'efl': dom.sym('efl'), 'lyot': _field(dom, 'l', (2, 2)) if with_lyot else Const(None), 'fpm': _field(dom, 'm', (2, 2)), 'fpm_dx': dom.sym('fpm_dx'), 'method': Const('mdft')}
        outs = []
        for f, tag in ((fb, 'x'), (fbp, 'y')):
            o = wf(tag)
            res = it.run(f, kwargs=kw, self_obj=lambda o=o: o)
            rets = [p for p in res if p.outcome == 'return']
            if len(rets) != len(res) or len(rets) != 1 or not isinstance(rets[0].value, Obj) or not isinstance(rets[0].value.attrs.get('data'), FArr):
                raise AnalysisError('%s: %s does not return a Wavefront whose data is followed' % (label, f.name))
            outs.append(rets[0].value.attrs['data'])
        Bx, Bhy = outs
        lhs = _inner(dom, Bx, _field(dom, 'y', (2, 2)))
        rhs = _inner(dom, _field(dom, 'x', (2, 2)), Bhy)
        ok = lhs == rhs
        run.check(ok, 'C06.chain', fbp.qual, 'babinet adjoint on values', '%s: <B x, y> == <x, B^H y> as an identity in the samples' % label,
                  '%s: <B x, y> - <x, babinet_backprop(y)> = %s, not 0: the companion is not the adjoint of babinet' % (label, (lhs - rhs).key()[:200]), fbp.loc())
        n_ok += ok
    return n_ok


def fd_adjoint_value_rules(run, db):
    """SpatialGradient2D forward_x / backprop_x and forward_y / backprop_y as adjoint pairs on values: <D x, y> == <x, D^T y> as an identity
    in symbolic real samples, for 3x4, 4x3, 2x5 and 5x2 arrays (the unequal sides tell the axes apart, the side of 2 has no interior)"""
    O = 'prysm.x.optym.operators.SpatialGradient2D.'
    ci = db.cls('prysm.x.optym.operators.SpatialGradient2D')
    n_ok = 0
    for suffix in ('x', 'y'):
        ff, fb = db.func(O + 'forward_' + suffix), db.func(O + 'backprop_' + suffix)
        for shape in ((3, 4), (4, 3), (2, 5), (5, 2), (4, 4)):
            it, dom = file_interp(db)
            label = 'SpatialGradient2D.forward_%s / backprop_%s, %dx%d real samples' % (suffix, suffix, shape[0], shape[1])

            def arr(tag):
                return FArr.of(shape, [dom.sym('%s%d%d' % (tag, i, j)) for i in range(shape[0]) for j in range(shape[1])], DType('f', 8))
            Dx = _run1(it, ff, label, self_obj=lambda: Obj(ci), **{ff.params[1]: arr('x')})
            Dty = _run1(it, fb, label, self_obj=lambda: Obj(ci), **{fb.params[1]: arr('y')})
            if tuple(Dx.shape) != shape or tuple(Dty.shape) != shape:
                run.check(False, 'C06.fd', fb.qual, 'adjoint on values', '', '%s: the results have shapes %s and %s' % (label, tuple(Dx.shape), tuple(Dty.shape)), fb.loc())
                continue
            lhs, rhs = _inner(dom, Dx, arr('y')), _inner(dom, arr('x'), Dty)
            ok = lhs == rhs
            run.check(ok, 'C06.fd', fb.qual, 'adjoint on values', '%s: <D x, y> == <x, D^T y> as an identity in the samples' % label,
                      '%s: <D x, y> - <x, backprop(y)> = %s, not 0: the companion is not the transpose of the forward difference' % (label, (lhs - rhs).key()[:200]), fb.loc())
            n_ok += ok
    return n_ok


def dm_resize_value_rules(run, db):
    """DM.render / DM.render_backprop as an adjoint pair on values, with the filtering stage replaced by the identity (self-adjoint), no
    rotation, no resampling: what is left is the scale and the resize to Nout / back to Nintermediate.  <render(a), y> == <a, backprop(y)>
    in symbolic real samples for intermediate -> Nout of 3x3 -> 4x4, 4x4 -> 3x3, 2x3 -> 4x5, 4x5 -> 2x3, 3x3 -> 3x3, 2x2 -> 5x5"""
    D = 'prysm.x.dm.DM.'
    ci = db.cls('prysm.x.dm.DM')
    ff, fb = db.func(D + 'render'), db.func(D + 'render_backprop')
    n_ok = 0
    for nin, nout in (((3, 3), (4, 4)), ((4, 4), (3, 3)), ((2, 3), (4, 5)), ((4, 5), (2, 3)), ((3, 3), (3, 3)), ((2, 2), (5, 5))):
        it, dom = file_interp(db)
        dom.positive = {'obliquity'}
        dom.nonzero = {'obliquity'}
        label = 'DM.render / render_backprop (identity filter, no rotation, no resampling), %dx%d actuators -> Nout %dx%d' % (nin + nout)
        stubbed = []

        def call_prysm(fi, args, kwargs, node, stubbed=stubbed):
            if fi.name == 'apply_transfer_functions':
                a = args[0]
                if not isinstance(a, FArr):
                    raise AnalysisError('%s: the array handed to the filtering stage is not followed' % label)
                stubbed.append(fi.name)
                return FArr.of(a.shape, a.values(), a.dtype)
            return None
        dom.call_prysm = call_prysm

        def arr(tag, shape):
            return FArr.of(shape, [dom.sym('%s%d%d' % (tag, i, j)) for i in range(shape[0]) for j in range(shape[1])], DType('f', 8))

        def idx(shape, axis):
            return FArr.of(shape, [Const((i, j)[axis]) for i in range(shape[0]) for j in range(shape[1])], DType('i', 8))
        o = Obj(ci)
        o.attrs.update({'poke_arr': FArr.of(nin, [Const(0.0)] * (nin[0] * nin[1]), DType('f', 8)), 'iyy': idx(nin, 0), 'ixx': idx(nin, 1), 'actuators': arr('a', nin),
                        'tf': Tup([], 'list'), 'needs_rot': Const(False), 'obliquity': dom.sym('obliquity'), 'upsample': Const(1), 'Nout': Tup([Const(nout[0]), Const(nout[1])]),
                        'Nact': Tup([Const(nin[0]), Const(nin[1])])})
        Ra = _run1(it, ff, label, self_obj=lambda: o, wfe=Const(True))
        Rty = _run1(it, fb, label, self_obj=lambda: o, protograd=arr('y', nout), wfe=Const(True))
        if len(stubbed) != 2:
            raise AnalysisError('%s: the filtering stage was reached %d times, not once in each direction' % (label, len(stubbed)))
        if tuple(Ra.shape) != nout or tuple(Rty.shape) != nin:
            run.check(False, 'C06.dm', fb.qual, 'resize adjoint on values', '', '%s: render gives shape %s (Nout is %s), render_backprop gives %s (the actuators are %s)' % (label, tuple(Ra.shape), nout, tuple(Rty.shape), nin), fb.loc())
            continue
        lhs, rhs = _inner(dom, Ra, arr('y', nout)), _inner(dom, arr('a', nin), Rty)
        ok = lhs == rhs
        run.check(ok, 'C06.dm', fb.qual, 'resize adjoint on values', '%s: <render(a), y> == <a, render_backprop(y)> as an identity in the samples' % label,
                  '%s: <render(a), y> - <a, render_backprop(y)> = %s, not 0: the resize (pad / crop) of the companion is not the transpose of the forward one' % (label, (lhs - rhs).key()[:200]), fb.loc())
        n_ok += ok
    return n_ok


def modal_sum_decided(db):
    """(instances decided on values, findings) of the modal sums for this tree, computed once per DB"""
    cached = getattr(db, '_c06_modal_sum', None)
    if cached is None:
        from ..core.report import Run
        quiet = Run('C06', 'quick', '')
        try:
            n = modal_sum_value_rules(quiet, db)
            cached = (n, len(quiet.findings))
        except AnalysisError:
            cached = (0, 0)
        db._c06_modal_sum = cached
    return cached


def modal_sum_value_rules(run, db, rule='C06.sum'):
    """sum_of_2d_modes and its companion on values: for K = 2 modes of shape 2x3 (and 3 modes of 1x2), result[i, j] == sum_k w_k modes[k, i, j]
    and backprop[k] == sum_ij modes[k, i, j] databar[i, j] -- the pair is then adjoint by construction, whatever call spells the contraction"""
    PP = 'prysm.polynomials.'
    ff, fb = db.func(PP + 'sum_of_2d_modes'), db.func(PP + 'sum_of_2d_modes_backprop')
    n_ok = 0
    for K_, (H, W) in ((2, (2, 3)), (3, (1, 2)), (2, (3, 2))):
        it, dom = file_interp(db)
        label = '%d modes of shape %dx%d' % (K_, H, W)
        modes = lambda: FArr.of((K_, H, W), [dom.sym('m%d_%d%d' % (k, i, j)) for k in range(K_) for i in range(H) for j in range(W)], DType('f', 8))
        w = lambda: FArr.of((K_,), [dom.sym('w%d' % k) for k in range(K_)], DType('f', 8))
        g = lambda: FArr.of((H, W), [dom.sym('g%d%d' % (i, j)) for i in range(H) for j in range(W)], DType('f', 8))
        S = _run1(it, ff, 'sum_of_2d_modes, ' + label, modes=modes(), weights=w())
        B = _run1(it, fb, 'sum_of_2d_modes_backprop, ' + label, modes=modes(), databar=g())
        R_ = dom.rat
        okf = tuple(S.shape) == (H, W)
        if okf:
            for i in range(H):
                for j in range(W):
                    want = Rat(dom.R.const(0))
                    for k in range(K_):
                        want = want + R_(dom.sym('w%d' % k)) * R_(dom.sym('m%d_%d%d' % (k, i, j)))
                    got = R_(S.values()[i * W + j])
                    if got is None:
                        raise AnalysisError('sum_of_2d_modes, %s: a sample of the sum is not followed' % label)
                    okf = okf and got == want
        run.check(okf, rule, ff.qual, 'modal sum on values', 'sum_of_2d_modes, %s: sample (i, j) is sum_k w_k modes[k, i, j]' % label,
                  'sum_of_2d_modes, %s: the result (shape %s) is not sum_k w_k modes[k] sample by sample' % (label, tuple(S.shape)), ff.loc())
        okb = tuple(B.shape) == (K_,)
        if okb:
            for k in range(K_):
                want = Rat(dom.R.const(0))
                for i in range(H):
                    for j in range(W):
                        want = want + R_(dom.sym('g%d%d' % (i, j))) * R_(dom.sym('m%d_%d%d' % (k, i, j)))
                got = R_(B.values()[k])
                if got is None:
                    raise AnalysisError('sum_of_2d_modes_backprop, %s: an entry of the gradient is not followed' % label)
                okb = okb and got == want
        run.check(okb, rule, fb.qual, 'modal sum companion on values', 'sum_of_2d_modes_backprop, %s: entry k is sum_ij modes[k, i, j] databar[i, j]' % label,
                  'sum_of_2d_modes_backprop, %s: the result (shape %s) is not the contraction of each mode with databar' % (label, tuple(B.shape)), fb.loc())
        n_ok += okf + okb
    return n_ok
