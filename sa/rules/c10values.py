"""C10 on values: polynomials.lstsq run on small maps of symbolic samples with invalid (NaN) samples, the solve done exactly over the
rationals.  What must hold is the defining property of the least-squares fit over the valid samples: the residual is orthogonal to every
mode (normal equations), whatever way the routine restricts data and modes."""
from ..core.db import AnalysisError
from ..core.interp import Const, Tup
from ..core.norm import Rat
from ..domains.filedom import file_interp, FArr, DType

P = 'prysm.polynomials.'


def lstsq_value_rules(run, db):
    """lstsq(modes, data) on 3x4 / 4x3 / 1x5 / 4x4 maps of symbolic samples, modes 1, x, y (and x y) on integer grids, with invalid samples
    in a corner, on the last row / column, in the interior, and leaving an island: sum over the valid samples of mode_k * (data - fit) == 0
    for every mode"""
    f = db.func(P + 'lstsq')
    n_ok = 0
    cases = [((3, 4), [(0, 0)], 3), ((3, 4), [(2, 3)], 3), ((4, 3), [(1, 1), (3, 0)], 3), ((3, 4), [], 3), ((4, 4), [(0, 0), (0, 1), (0, 2), (0, 3), (1, 0), (2, 0), (3, 0)], 4),
             ((1, 5), [(0, 0)], 2), ((4, 4), [(3, 0), (3, 1), (3, 2), (3, 3), (0, 3), (1, 3), (2, 3)], 4)]
    refused = []
    for shape, invalid, nmodes in cases:
        try:
            n_ok += _lstsq_case(run, db, f, shape, invalid, nmodes)
        except AnalysisError as e:
            refused.append(str(e))
    if refused:
        raise AnalysisError(refused[0] + (' (and %d more cases)' % (len(refused) - 1) if len(refused) > 1 else ''))
    return n_ok


def _lstsq_case(run, db, f, shape, invalid, nmodes):
    if True:
        H, W = shape
        it, dom = file_interp(db)
        label = 'lstsq on a %dx%d map, %d modes, invalid samples at %s' % (H, W, nmodes, invalid)
        nan = Const(float('nan'))

        def data():
            return FArr.of(shape, [nan if (i, j) in invalid else dom.sym('d%d_%d' % (i, j)) for i in range(H) for j in range(W)], DType('f', 8))
        grids = [[1 for i in range(H) for j in range(W)], [j - 1 for i in range(H) for j in range(W)], [i - 1 for i in range(H) for j in range(W)],
                 [(j - 1) * (i - 1) for i in range(H) for j in range(W)]]
        if H == 1:
            grids = [grids[0], grids[1]]
        grids = grids[:nmodes]

        def modes():
            return Tup([FArr.of(shape, [Const(float(v)) for v in g], DType('f', 8)) for g in grids], 'list')
        res = it.run(f, kwargs=lambda: {'modes': modes(), 'data': data()})
        rets = [p for p in res if p.outcome == 'return']
        if len(rets) != len(res) or len(rets) != 1:
            raise AnalysisError('%s: expected one returning path (%s)' % (label, [repr(p.value)[:60] for p in res][:2]))
        c = rets[0].value
        cs = c.values() if isinstance(c, FArr) else (c.items if isinstance(c, Tup) else None)
        if cs is None or len(cs) != len(grids) or any(dom.rat(x) is None for x in cs):
            raise AnalysisError('%s: the coefficients are not followed (%r)' % (label, c))
        cs = [dom.rat(x) for x in cs]
        valid = [(i, j) for i in range(H) for j in range(W) if (i, j) not in invalid]
        bad = None
        for k, g in enumerate(grids):
            tot = Rat(dom.R.const(0))
            for (i, j) in valid:
                fit = Rat(dom.R.const(0))
                for ck, gk in zip(cs, grids):
                    fit = fit + ck * gk[i * W + j]
                tot = tot + (dom.rat(dom.sym('d%d_%d' % (i, j))) - fit) * g[i * W + j]
            if not tot.is_zero():
                bad = (k, tot)
                break
        run.check(bad is None, 'C10.lstsq', f.qual, 'normal equations on values', '%s: the residual over the valid samples is orthogonal to every mode' % label,
                  '%s: the residual is not orthogonal to mode %d over the valid samples (sum = %s): the fit is not the least-squares fit of the valid samples (samples are left out, or paired with the wrong rows of the modes)'
                  % ((label, bad[0], bad[1].key()[:160]) if bad else (label, 0, '')), f.loc())
        return bad is None
