"""C16 -- sensor model: DN stay in range; binning and mosaicking conserve signal."""
import ast
import re
from fractions import Fraction

from ..core.db import AnalysisError, norm_stmt, walk_no_nested
from ..core.interp import Const, Tup, Unknown, Obj, Frame
from ..core.norm import Rat
from .common import norm_interp, returns

D = 'prysm.detector.'
B = 'prysm.bayer.'
SITES = {'top_left': (0, 0), 'top_right': (0, 1), 'bottom_left': (1, 0), 'bottom_right': (1, 1)}
REF = {'rggb': {'r': 'top_left', 'g1': 'top_right', 'g2': 'bottom_left', 'b': 'bottom_right'},
       'bggr': {'b': 'top_left', 'g1': 'top_right', 'g2': 'bottom_left', 'r': 'bottom_right'}}
DTYPE_BITS = {'np.uint8': 8, 'np.uint16': 16, 'np.uint32': 32, 'np.uint64': 64}


def clamp_rules(run, db):
    f = db.func(D + 'Detector.expose')
    it, dom = norm_interp(db)
    R = dom.R
    stmts = sorted([n for n in walk_no_nested(f.node) if isinstance(n, (ast.Assign, ast.AugAssign))], key=lambda s: s.lineno)
    order = {}
    mask_stores = []
    casts = []
    for st in stmts:
        if isinstance(st, ast.Assign) and isinstance(st.targets[0], ast.Subscript) and isinstance(st.targets[0].slice, ast.Compare):
            mask_stores.append(st)
        if isinstance(st, ast.Assign) and isinstance(st.value, ast.Call) and isinstance(st.value.func, ast.Attribute) and st.value.func.attr == 'astype':
            casts.append(st)
    if not casts:
        raise AnalysisError('expose: integer cast not found')
    first_cast = min(c.lineno for c in casts)
    # evaluate the clamp value symbolically
    env = {'self': None}
    fr = Frame(f, f.module, {})
    o = Obj(db.cls(D + 'Detector'))
    o.attrs.update({'bits': dom.sym('bits'), 'fwc': dom.sym('fwc'), 'conversion_gain': dom.sym('gain'), 'bias': dom.sym('bias')})
    fr.env['self'] = o
    it._reset_run([])
    upper = lower = fwc = None
    scale_line = None
    # roles, not spellings: the ADC output is the array that is cast; it is defined as (input to the ADC) * (gain scaling)
    outs = {ast.unparse(c.value.func.value) for c in casts if isinstance(c.value.func.value, ast.Name)}
    if len(outs) != 1:
        raise AnalysisError('expose: the array handed to the integer cast is not one local (%s)' % sorted(outs))
    OUT = sorted(outs)[0]
    outdef = [st for st in stmts if isinstance(st, ast.Assign) and isinstance(st.targets[0], ast.Name) and st.targets[0].id == OUT and isinstance(st.value, ast.BinOp)
              and isinstance(st.value.op, (ast.Mult, ast.Div)) and st.lineno < first_cast]
    masked = {ast.unparse(st.targets[0].value) for st in mask_stores}
    INP = SCALEX = None
    if len(outdef) == 1:
        ops = [outdef[0].value.left, outdef[0].value.right]
        inp = [o_ for o_ in ops if isinstance(o_, ast.Name) and o_.id in masked]
        if len(inp) == 1:
            INP = inp[0].id
            SCALEX = [o_ for o_ in ops if o_ is not inp[0]][0]
            scale_line = outdef[0].lineno
    for st in stmts:
        if isinstance(st, ast.Assign) and isinstance(st.targets[0], ast.Name) and st.lineno < first_cast:
            try:
                fr.env[st.targets[0].id] = it.ev(st.value, fr)
            except Exception:
                fr.env[st.targets[0].id] = Unknown('not evaluated')
    for st in mask_stores:
        tgt = st.targets[0]
        arr = ast.unparse(tgt.value)
        cmp_ = tgt.slice
        same_arr = ast.unparse(cmp_.left) == arr
        op = type(cmp_.ops[0]).__name__
        bound = it.ev(cmp_.comparators[0], fr)
        val = it.ev(st.value, fr)
        rb, rv = dom.rat(bound), dom.rat(val)
        if arr == OUT and op in ('Gt', 'GtE'):
            upper = (st, same_arr, rb, rv)
        elif arr == OUT and op in ('Lt', 'LtE'):
            lower = (st, same_arr, rb, rv)
        elif arr == INP and op in ('Gt', 'GtE'):
            fwc = (st, same_arr, rb, rv)
    if upper is None and lower is None:
        raise AnalysisError('expose: ADC clamp statements not found')
    if upper is None:
        run.finding('C16.clamp', f.qual, 'upper clamp', 'values above the ADC range are not clamped before the unsigned cast (they wrap)', f.loc())
        upper = (stmts[0], False, None, None)
    if lower is None:
        run.finding('C16.clamp', f.qual, 'lower clamp', 'negative values (read noise, bias) are not clamped to 0 before the unsigned cast (they wrap to large codes)', f.loc())
    want = Rat(R.func('pow', [Rat(R.const(2)), Rat(R.atom('bits'))])) - 1
    st, same, rb, rv = upper
    ok = same and rb is not None and rv is not None and rv == want and (rb == want or rb == want + 1 and False or rb == rv)
    run.check(ok and st.lineno < first_cast, 'C16.clamp', f.qual, 'upper clamp', 'samples above the ADC ceiling are set to 2**bits - 1 before the integer cast',
              'the ADC ceiling is %s (expected 2**bits - 1 = %s): a saturated pixel is stored as 2**bits, which wraps to 0 in the unsigned container of that width'
              % (rv.key() if rv is not None else '?', want.key()), f.loc(st))
    st, same, rb, rv = lower if lower is not None else (stmts[0], True, Rat(R.const(0)), Rat(R.const(0)))
    ok = same and rb is not None and rb.is_zero() and rv is not None and rv.is_zero() and st.lineno < first_cast
    if lower is not None:
      run.check(ok, 'C16.clamp', f.qual, 'lower clamp', 'negative samples are set to 0 before the unsigned cast', 'negative samples are not clamped to 0 before the unsigned cast', f.loc(st))
    if fwc is None:
        run.finding('C16.clamp', f.qual, 'full well', 'full-well clipping statement not found', f.loc())
    else:
        st, same, rb, rv = fwc
        ok = same and rb is not None and rv is not None and rb == rv and rb == Rat(R.atom('fwc')) and (scale_line is None or st.lineno < scale_line)
        run.check(ok, 'C16.clamp', f.qual, 'full well', 'charge above the full-well capacity is clipped to it before the gain is applied', 'full-well clip is not input[input > fwc] = fwc before scaling', f.loc(st))
    sc = None
    if SCALEX is not None:
        it._reset_run([])
        sc = dom.rat(it.ev(SCALEX, fr))
        if sc is not None and isinstance(outdef[0].value.op, ast.Div):
            sc = 1 / sc
    run.check(sc is not None and sc == 1 / Rat(R.atom('gain')), 'C16.clamp', f.qual, 'gain', 'DN = electrons / conversion_gain', 'gain scaling is %s' % (sc.key() if sc is not None else None), f.loc())
    # container ladder: bits <= K selects uintK
    ladder = []
    for n in walk_no_nested(f.node):
        if isinstance(n, ast.If) and isinstance(n.test, ast.Compare) and ast.unparse(n.test.left) == 'self.bits' and isinstance(n.test.ops[0], ast.LtE):
            k = n.test.comparators[0]
            dt = [ast.unparse(c.args[0]) for st in n.body for c in ast.walk(st) if isinstance(c, ast.Call) and isinstance(c.func, ast.Attribute) and c.func.attr == 'astype']
            if isinstance(k, ast.Constant) and dt:
                ladder.append((k.value, dt[0], n))
    if len(ladder) < 3:
        raise AnalysisError('expose: dtype ladder not found')
    for k, dt, n in ladder:
        run.check(DTYPE_BITS.get(dt) is not None and DTYPE_BITS[dt] >= k, 'C16.clamp', f.qual, 'container for bits <= %d' % k, 'bits <= %d is stored in %s' % (k, dt),
                  'bit depths up to %d are stored in %s which cannot hold 2**bits - 1' % (k, dt), f.loc(n))
    ks = sorted(k for k, _, _ in ladder)
    run.check(ks == sorted(set(ks)) and [k for k, _, _ in ladder] == ks, 'C16.clamp', f.qual, 'ladder order', 'ladder tested in increasing order', 'dtype ladder is not tested in increasing order: %s' % [k for k, _, _ in ladder], f.loc())


def _branch_tables(fi, kind):
    """{cfa: {colour: site}} extracted from the if-chain on cfa."""
    out = {}
    for n in walk_no_nested(fi.node):
        if isinstance(n, ast.If) and isinstance(n.test, ast.Compare) and ast.unparse(n.test.left) == 'cfa' and isinstance(n.test.comparators[0], ast.Constant):
            cfa = n.test.comparators[0].value
            tab = {}
            for st in n.body:
                rec = kind(st)
                if rec:
                    for col, site in rec:
                        tab.setdefault(col, []).append(site)
            out[cfa] = tab
    return out


def bayer_rules(run, db):
    mod = db.module('prysm.bayer')
    # the four slices partition the 2x2 cell
    got = {}
    for name, (r, c) in SITES.items():
        e = mod.assigns.get(name)
        if e is None:
            raise AnalysisError('bayer: site slice %s not found' % name)
        t = ast.unparse(e).replace(' ', '')
        want = '(slice(%d,None,2),slice(%d,None,2))' % (r, c)
        got[name] = t
        run.check(t == want, 'C16.bayer', 'prysm.bayer', name, '%s == (rows %d::2, cols %d::2)' % (name, r, c), 'site slice %s is %s, expected %s' % (name, t, want), mod.relpath)
    run.check(len(set(got.values())) == 4, 'C16.bayer', 'prysm.bayer', 'partition', 'the four site slices are distinct (partition of the 2x2 cell)', 'site slices do not partition the 2x2 cell: %s' % got, mod.relpath)

    def k_decomp(st):
        if isinstance(st, ast.Assign) and isinstance(st.value, ast.Subscript) and isinstance(st.targets[0], ast.Name) and ast.unparse(st.value.slice) in SITES:
            return [(st.targets[0].id, ast.unparse(st.value.slice))]

    def k_recomp(st):
        if isinstance(st, ast.Assign) and isinstance(st.targets[0], ast.Subscript) and ast.unparse(st.targets[0].slice) in SITES and isinstance(st.value, ast.Name):
            return [(st.value.id, ast.unparse(st.targets[0].slice))]

    def k_comp(st):
        if isinstance(st, ast.Assign) and isinstance(st.targets[0], ast.Subscript) and isinstance(st.value, ast.Subscript) and ast.unparse(st.targets[0].slice) in SITES:
            src_site = ast.unparse(st.value.slice)
            dst_site = ast.unparse(st.targets[0].slice)
            return [(ast.unparse(st.value.value), dst_site if src_site == dst_site else '%s<-%s' % (dst_site, src_site))]

    def k_wb(st):
        if isinstance(st, ast.AugAssign) and isinstance(st.op, ast.Mult) and isinstance(st.target, ast.Subscript) and ast.unparse(st.target.slice) in SITES and isinstance(st.value, ast.Name):
            return [(st.value.id[1:] if st.value.id.startswith('w') else st.value.id, ast.unparse(st.target.slice))]
    # the four colour<->site routines are decided by interpreting them for each layout (the layout is a concrete string, so
    # if-chains, dict dispatch and loops over site tables all evaluate): reading a plane is `mosaic[site]`, writing one is a store
    # into `[site]`; a site is identified by the (row, column) offsets of its stride-2 slices
    from ..core.interp import Slice as _Slice
    for cfa in ('rggb', 'bggr'):
        it_, dom_ = norm_interp(db)
        osub, ost, oe = dom_.subscript, dom_.store_subscript, dom_.call_ext
        stores = []

        def site_of(idx):
            items = idx.items if isinstance(idx, Tup) else None
            if items is None or len(items) != 2 or not all(isinstance(x, _Slice) for x in items):
                return None
            offs = []
            for sl in items:
                lo, st_ = sl.lo, sl.step
                if not (isinstance(st_, Const) and st_.v == 2 and isinstance(lo, Const) and lo.v in (0, 1, None) and isinstance(sl.hi, Const) and sl.hi.v is None):
                    return None
                offs.append(lo.v or 0)
            return next((nm_ for nm_, rc in SITES.items() if rc == tuple(offs)), None)

        def subscript(v, idx, node, dom_=dom_, osub=osub):
            st_ = site_of(idx)
            if st_ is not None and dom_.rat(v) is not None:
                return dom_.func_atom('at_' + st_, [v])
            return osub(v, idx, node)

        def store_subscript(target, idx, val, node, dom_=dom_, ost=ost, stores=stores):
            st_ = site_of(idx)
            if st_ is not None and dom_.rat(target) is not None:
                stores.append((dom_.rat(target).key(), st_, dom_.rat(val), node))
                return True
            return ost(target, idx, val, node)

        def call_ext(dotted, args, kwargs, node, dom_=dom_, oe=oe):
            if dotted.rsplit('.', 1)[-1] in ('empty', 'zeros', 'empty_like', 'zeros_like'):
                return dom_.sym('OUT')
            return oe(dotted, args, kwargs, node)
        dom_.subscript, dom_.store_subscript, dom_.call_ext = subscript, store_subscript, call_ext
        R_ = dom_.R
        A_ = lambda nme: Rat(R_.atom(nme))
        at = lambda site, arr: Rat(R_.func('at_' + site, [A_(arr)]))
        ref = REF[cfa]
        # decomposite_bayer: the returned planes, in the order (r, g1, g2, b)
        fi = db.func(B + 'decomposite_bayer')
        res = returns(it_.run(fi, kwargs=lambda: {'img': dom_.sym('IMG'), 'cfa': Const(cfa)}), fi)
        got = [dom_.rat(x) for x in res[0].value.items] if len(res) == 1 and isinstance(res[0].value, Tup) and len(res[0].value.items) == 4 else []
        want = [at(ref[c_], 'IMG') for c_ in ('r', 'g1', 'g2', 'b')]
        run.check(len(got) == 4 and all(g is not None and g == w for g, w in zip(got, want)), 'C16.bayer', fi.qual, '%s table' % cfa, 'decomposite_bayer[%s] returns (r, g1, g2, b) read from the sites %s' % (cfa, ref),
                  'decomposite_bayer with cfa=%s returns %s, expected %s: samples change colour plane' % (cfa, [g.key() if g is not None else '?' for g in got], [w.key() for w in want]), fi.loc())
        # recomposite_bayer / composite_bayer: what is stored at which site
        for fname, src in (('recomposite_bayer', lambda c_, site: A_(c_.upper())), ('composite_bayer', lambda c_, site: at(site, c_.upper()))):
            fi = db.func(B + fname)
            del stores[:]
            it_.run(fi, kwargs=lambda: {'r': dom_.sym('R'), 'g1': dom_.sym('G1'), 'g2': dom_.sym('G2'), 'b': dom_.sym('B'), 'cfa': Const(cfa), 'output': Const(None)})
            tab = {site: val for tgt, site, val, nd in stores}
            wantt = {ref[c_]: src(c_, ref[c_]) for c_ in ('r', 'g1', 'g2', 'b')}
            ok = len(stores) == 4 and set(tab) == set(wantt) and all(tab[k] is not None and tab[k] == wantt[k] for k in wantt)
            run.check(ok, 'C16.bayer', fi.qual, '%s table' % cfa, '%s[%s] writes each colour plane to its site %s' % (fname, cfa, ref),
                      '%s with cfa=%s writes %s, expected %s: samples change colour plane / position' % (fname, cfa, {k: (v.key() if v is not None else '?') for k, v in tab.items()}, {k: v.key() for k, v in wantt.items()}), fi.loc())
        # wb_prescale: each site of the mosaic is multiplied by the gain of the colour that sits there
        fi = db.func(B + 'wb_prescale')
        del stores[:]
        it_.run(fi, kwargs=lambda: {'mosaic': dom_.sym('MOSAIC'), 'wr': dom_.sym('WR'), 'wg1': dom_.sym('WG1'), 'wg2': dom_.sym('WG2'), 'wb': dom_.sym('WB'), 'cfa': Const(cfa), 'safe': Const(False), 'saturation': Const(None)})
        tab = {site: val for tgt, site, val, nd in stores if tgt == 'MOSAIC'}
        wantt = {ref[c_]: at(ref[c_], 'MOSAIC') * A_('W' + c_.upper()) for c_ in ('r', 'g1', 'g2', 'b')}
        ok = len(stores) == 4 and set(tab) == set(wantt) and all(tab[k] is not None and tab[k] == wantt[k] for k in wantt)
        run.check(ok, 'C16.bayer', fi.qual, '%s table' % cfa, 'wb_prescale[%s] scales each site by the gain of its colour %s' % (cfa, ref),
                  'wb_prescale with cfa=%s leaves %s, expected %s: a gain is applied to the wrong colour' % (cfa, {k: (v.key() if v is not None else '?') for k, v in tab.items()}, {k: v.key() for k, v in wantt.items()}), fi.loc())
    # demosaic_malvar, by interpretation for each layout: the estimates are the mosaic convolved with the named kernels divided by
    # a number that makes them sum to one; red/blue keep the raw samples at their native sites and take the matching estimate
    # elsewhere; green is the green estimate with the raw samples at both green sites; the result is the stack (red, green, blue)
    from ..core.interp import Value, Frame as _Frame
    fi = db.func(B + 'demosaic_malvar')
    KNAMES = ('kernel_G_at_R_or_B', 'kernel_R_at_G_in_RB', 'kernel_R_at_G_in_BR', 'kernel_R_at_B_in_BB')
    itk, domk = norm_interp(db)
    ksum, kval = {}, {}
    for kn in KNAMES:
        e = mod.assigns.get(kn)
        if e is None:
            raise AnalysisError('kernel %s not found' % kn)
        itk._reset_run([])
        v = itk.ev(e, _Frame(None, mod, {}))
        tot = Rat(domk.R.const(0))
        cnt = 0
        for row in v.items:
            for x in row.items:
                tot = tot + domk.rat(x)
                cnt += 1
        if cnt != 25 or not (tot.num.is_const() and tot.den.is_const()):
            raise AnalysisError('kernel %s is not a 5x5 table of numbers' % kn)
        ksum[kn] = tot.num.const_value() / tot.den.const_value()
        kval[kn] = repr(v)

    class Kern(Value):
        def __init__(self, name, scale):
            self.name, self.scale = name, scale

        def __repr__(self):
            return 'Kern(%s x %s)' % (self.name, self.scale)
    est_role = {'kernel_G_at_R_or_B': 'Gest', 'kernel_R_at_G_in_RB': 'c1', 'kernel_R_at_G_in_BR': 'c2', 'kernel_R_at_B_in_BB': 'c3'}
    from ..core.interp import Slice as _Slice2
    kernel_checked = set()
    for cfa in ('rggb', 'bggr'):
        it_, dom_ = norm_interp(db)
        osub, ost, oe, ob = dom_.subscript, dom_.store_subscript, dom_.call_ext, dom_.binop
        stores = []
        outs = []

        def site_of2(idx):
            items = idx.items if isinstance(idx, Tup) else None
            if items is None or len(items) != 2 or not all(isinstance(x, _Slice2) for x in items):
                return None
            offs = []
            for sl in items:
                if not (isinstance(sl.step, Const) and sl.step.v == 2 and isinstance(sl.lo, Const) and sl.lo.v in (0, 1, None) and isinstance(sl.hi, Const) and sl.hi.v is None):
                    return None
                offs.append(sl.lo.v or 0)
            return next((nm_ for nm_, rc in SITES.items() if rc == tuple(offs)), None)

        def subscript(v, idx, node, dom_=dom_, osub=osub):
            st_ = site_of2(idx)
            if st_ is not None and dom_.rat(v) is not None:
                return dom_.func_atom('at_' + st_, [v])
            return osub(v, idx, node)

        def store_subscript(target, idx, val, node, dom_=dom_, ost=ost, stores=stores):
            st_ = site_of2(idx)
            if st_ is not None and dom_.rat(target) is not None:
                stores.append((dom_.rat(target).key(), st_, dom_.rat(val), node))
                return True
            return ost(target, idx, val, node)

        def call_ext(dotted, args, kwargs, node, dom_=dom_, oe=oe, outs=outs):
            last = dotted.rsplit('.', 1)[-1]
            if last in ('empty_like', 'zeros_like', 'empty', 'zeros'):
                outs.append('OUT%d' % len(outs))
                return dom_.sym(outs[-1])
            if last in ('array', 'asarray') and args and isinstance(args[0], Tup):
                hit = [kn for kn in KNAMES if repr(args[0]) == kval[kn]]
                if len(hit) >= 1:
                    return Kern(hit[0], Rat(dom_.R.const(1)))
            if last == 'convolve' and len(args) >= 2 and isinstance(args[1], Kern) and dom_.rat(args[0]) is not None:
                k = args[1]
                tot = k.scale * Rat(dom_.R.const(ksum[k.name]))
                if k.name not in kernel_checked:
                    kernel_checked.add(k.name)
                    run.check(tot == 1, 'C16.kernel', fi.qual, k.name, '%s times its scale sums to 1 (flat fields are preserved)' % k.name,
                              'kernel %s sums to %s after scaling by %s (must be 1)' % (k.name, tot.key(), k.scale.key()), fi.loc(node))
                return dom_.func_atom(est_role[k.name], [args[0]])
            if last == 'stack' and args and isinstance(args[0], Tup):
                return Tup(list(args[0].items), 'stack')
            return oe(dotted, args, kwargs, node)

        def binop(op, a, b, node, dom_=dom_, ob=ob):
            if isinstance(a, Kern) and dom_.rat(b) is not None and isinstance(op, (ast.Div, ast.Mult)):
                return Kern(a.name, a.scale / dom_.rat(b) if isinstance(op, ast.Div) else a.scale * dom_.rat(b))
            if isinstance(b, Kern) and dom_.rat(a) is not None and isinstance(op, ast.Mult):
                return Kern(b.name, b.scale * dom_.rat(a))
            return ob(op, a, b, node)
        dom_.subscript, dom_.store_subscript, dom_.call_ext, dom_.binop = subscript, store_subscript, call_ext, binop
        res = returns(it_.run(fi, kwargs=lambda: {'img': dom_.sym('IMG'), 'cfa': Const(cfa)}), fi)
        if len(res) != 1 or not (isinstance(res[0].value, Tup) and len(res[0].value.items) == 3):
            raise AnalysisError('demosaic_malvar[%s]: does not return a stack of three planes on one path' % cfa)
        planes = [dom_.rat(x) for x in res[0].value.items]
        if any(p_ is None for p_ in planes):
            raise AnalysisError('demosaic_malvar[%s]: planes outside NORM' % cfa)
        R_ = dom_.R
        IMG = Rat(R_.atom('IMG'))
        est = lambda nm_: Rat(R_.func(nm_, [IMG]))
        at = lambda site, arr: Rat(R_.func('at_' + site, [arr]))
        native_r = REF[cfa]['r']
        # per plane: what is stored at each site
        def table(plane):
            return {site: val for tgt, site, val, nd in stores if tgt == plane.key()}
        redt, greent, bluet = table(planes[0]), table(planes[1]), table(planes[2])
        # rggb: red native at top_left; the estimate for a red value at a green site in a red row (c1) belongs to the other site of that row, etc.
        want_first = {'top_left': at('top_left', IMG), 'top_right': at('top_right', est('c1')), 'bottom_left': at('bottom_left', est('c2')), 'bottom_right': at('bottom_right', est('c3'))}
        want_second = {'top_left': at('top_left', est('c3')), 'top_right': at('top_right', est('c2')), 'bottom_left': at('bottom_left', est('c1')), 'bottom_right': at('bottom_right', IMG)}
        want_red, want_blue = (want_first, want_second) if cfa == 'rggb' else (want_second, want_first)
        okrb = redt == want_red and bluet == want_blue and planes[0] != planes[2]
        show = lambda t_: {k: (v.key() if v is not None else '?') for k, v in sorted(t_.items())}
        run.check(okrb, 'C16.bayer', fi.qual, 'malvar %s' % cfa, 'red/blue planes: native sites copied from the mosaic, other sites from the matching estimate (%s)' % cfa,
                  'demosaic_malvar[%s] fills red with %s and blue with %s, expected %s and %s' % (cfa, show(redt), show(bluet), show(want_red), show(want_blue)), fi.loc())
        okg = planes[1] == est('Gest') and greent == {'top_right': at('top_right', IMG), 'bottom_left': at('bottom_left', IMG)}
        run.check(okg, 'C16.bayer', fi.qual, 'malvar green %s' % cfa, 'green plane is the green estimate with the raw samples at both green sites',
                  'the green plane is %s with the sites %s overwritten' % (planes[1].key(), show(greent)), fi.loc())
    # deinterlace
    fd = db.func(B + 'demosaic_deinterlace')
    from ..core.pattern import match_all
    okd = any(match_all(fd.node, ['V_r, V_g1, V_g2, V_b = decomposite_bayer(img, cfa)', avg, 'return np.stack([V_r, V_g, V_b], axis=2)'], ordered=True) is not None
              for avg in ('V_g = (V_g1 + V_g2) / 2', 'V_g = (V_g2 + V_g1) / 2', 'V_g = 0.5 * (V_g1 + V_g2)', 'V_g = (V_g1 + V_g2) * 0.5'))
    run.check(okd, 'C16.bayer', fd.qual, 'deinterlace', 'r, mean of the two greens, b stacked on the last axis',
              'demosaic_deinterlace no longer stacks [r, (g1+g2)/2, b]', fd.loc())


def cfa_passthrough_rules(run, db):
    """Every Bayer routine hands the caller's colour-filter layout to every Bayer routine it calls."""
    mod = db.module('prysm.bayer')
    n = 0
    for fi in mod.functions.values():
        if 'cfa' not in fi.params:
            continue
        for c in walk_no_nested(fi.node):
            if not (isinstance(c, ast.Call) and isinstance(c.func, ast.Name) and c.func.id in mod.functions):
                continue
            callee = mod.functions[c.func.id]
            if 'cfa' not in callee.params:
                continue
            n += 1
            pos = callee.params.index('cfa')
            arg = c.args[pos] if pos < len(c.args) and not any(isinstance(a, ast.Starred) for a in c.args[:pos + 1]) else None
            for k in c.keywords:
                if k.arg == 'cfa':
                    arg = k.value
            # the caller's layout itself, or a case-normalised spelling of it (cfa.lower()), possibly through a local bound to that
            def is_cfa(e, depth=0):
                if isinstance(e, ast.Name) and e.id == 'cfa':
                    return True
                if isinstance(e, ast.Call) and isinstance(e.func, ast.Attribute) and e.func.attr in ('lower', 'strip', 'casefold') and not e.args:
                    return is_cfa(e.func.value, depth)
                if isinstance(e, ast.Name) and depth < 3:
                    defs_ = [n_.value for n_ in walk_no_nested(fi.node) if isinstance(n_, ast.Assign) and any(isinstance(t_, ast.Name) and t_.id == e.id for t_ in n_.targets)]
                    return bool(defs_) and all(is_cfa(d_, depth + 1) for d_ in defs_)
                return False
            ok = arg is not None and is_cfa(arg)
            run.check(ok, 'C16.bayer', fi.qual, 'layout passed to %s' % callee.name, '%s passes its cfa on to %s' % (fi.name, callee.name),
                      '%s calls `%s` without its own cfa: the callee falls back to its default layout (rggb), so for bggr data the red and blue sites are exchanged' % (fi.name, ast.unparse(c)), fi.loc(c))
    if n < 2:
        raise AnalysisError('bayer: fewer than two layout pass-through call sites found (%d)' % n)


def accumulate_rules(run, db):
    """Binning by summation accumulates in NumPy's default (widened) accumulator, not in the input's dtype."""
    f = db.func(D + 'bindown')
    reds = [c for c in walk_no_nested(f.node) if isinstance(c, ast.Call) and isinstance(c.func, ast.Attribute) and c.func.attr in ('sum', 'mean')]
    if len(reds) < 2:
        raise AnalysisError('bindown: mean/sum reductions not found')
    for c in reds:
        dt = [k for k in c.keywords if k.arg == 'dtype']
        narrow = [k for k in dt if any(isinstance(x, ast.Attribute) and x.attr == 'dtype' for x in ast.walk(k.value)) or
                  any(isinstance(x, ast.Attribute) and x.attr in ('uint8', 'uint16', 'int8', 'int16', 'uint32', 'int32', 'float16', 'float32') for x in ast.walk(k.value))]
        run.check(not narrow, 'C16.bin', f.qual, '%s accumulator' % c.func.attr, 'the %s over a bin is accumulated in the default (widened) type' % c.func.attr,
                  '`%s` pins the accumulator to %s: summing narrow integer frames (the uint8/uint16 output of expose) wraps around, so the binned total is not the total of the bin '
                  'and tile is no longer its adjoint' % (ast.unparse(c), ast.unparse(narrow[0].value) if narrow else ''), f.loc(c))


def live_state_rules(run, db):
    """The detector's container width and ADC ceiling are decided from the same, live bit depth."""
    from .purity import derived_attr_staleness
    ci = db.cls(D + 'Detector')
    res = derived_attr_staleness(ci)
    for fi, a, sattr, node in res:
        run.finding('C16.clamp', fi.qual, 'self.%s vs self.%s' % (a, sattr), '%s combines the live attribute self.%s with self.%s, which __init__ derived from it once: after `det.%s = ...` the two disagree '
                    '(e.g. the ADC ceiling of the new bit depth is cast into the container chosen for the old one)' % (fi.name, sattr, a, sattr), fi.loc(node))
    if not res:
        run.ok('C16.clamp', ci.qual, 'no method mixes a live attribute with a value derived from it at construction')
    # per-channel quantities are paired with planes obtained through the layout-aware helper
    f = db.func('prysm.bayer.wb_prescale')
    zips = [c for c in walk_no_nested(f.node) if isinstance(c, ast.Call) and isinstance(c.func, ast.Name) and c.func.id == 'zip' and any('saturation' in ast.unparse(a) for a in c.args)]
    if not zips:
        raise AnalysisError('wb_prescale: pairing of planes with saturation levels not found')
    defs = {}
    for n in walk_no_nested(f.node):
        if isinstance(n, ast.Assign) and isinstance(n.targets[0], ast.Name):
            defs.setdefault(n.targets[0].id, []).append(n.value)
    for z in zips:
        other = [a for a in z.args if 'saturation' not in ast.unparse(a)]
        ok = bool(other)
        for a in other:
            vals = defs.get(a.id, []) if isinstance(a, ast.Name) else [a]
            ok = ok and bool(vals) and all(isinstance(v, ast.Call) and ast.unparse(v.func) == 'decomposite_bayer' and any(isinstance(x, ast.Name) and x.id == 'cfa' for x in list(v.args) + [k.value for k in v.keywords]) for v in vals)
        run.check(ok, 'C16.bayer', f.qual, 'saturation pairing', 'the (r, g1, g2, b) saturation levels are paired with the planes decomposite_bayer(mosaic, cfa) returns in that colour order',
                  '`%s` pairs the per-colour saturation levels with %s, which is not the colour-ordered output of decomposite_bayer(mosaic, cfa): for bggr data red and blue levels are applied to each other\'s sites'
                  % (ast.unparse(z), [ast.unparse(a) for a in other]), f.loc(z))


def _unit_scale_path(p):
    """a path on which the code found its scale factor to be exactly 1 and skipped the multiplication (`if sf != 1:` not taken, or
    `if weight == 1: return` taken): the same thing as multiplying."""
    for c, t in p.conds:
        c = c.strip()
        if (t is False and re.match(r'^\w+\s*!=\s*1(\.0*)?$', c)) or (t is True and re.match(r'^\w+\s*==\s*1(\.0*)?$', c)):
            return True
    return False


def bin_rules(run, db):
    from . import ftkernels as K
    from ..domains.index import Shaped
    it, dom = K.mk(db, {})
    R = dom.R
    f = db.func(D + 'bindown')
    s0, s1, f0, f1 = [dom.integer(x) for x in ('s0', 's1', 'f0', 'f1')]
    for mode, red in (('avg', 'mean'), ('average', 'mean'), ('mean', 'mean'), ('sum', 'sum')):
        res = [p for p in it.run(f, kwargs=lambda: {'array': Shaped(Tup([s0, s1]), 'array'), 'factor': Tup([f0, f1]), 'mode': Const(mode)}) if p.outcome == 'return']
        if len(res) != 1:
            raise AnalysisError('bindown(%s): expected one path' % mode)
        ev = [e for e in res[0].events if e['kind'] == 'reduce']
        ok = len(ev) == 1 and ev[0]['which'] == red
        detail = 'reductions: %s' % [(e['which'], e['axes']) for e in ev]
        if ok:
            lens = [dom.rat(x) for x in ev[0]['lengths']]
            ok = len(lens) == 2 and lens[0] == dom.rat(f0) and lens[1] == dom.rat(f1)
            detail = 'reduced axis lengths %s' % [l.key() if l is not None else None for l in lens]
            v = res[0].value
            if ok:
                want = [dom.floordiv(dom.rat(s0), dom.rat(f0), None), dom.floordiv(dom.rat(s1), dom.rat(f1), None)]
                ok = isinstance(v, Shaped) and len(v.shape.items) == 2 and all(dom.rat(a) == dom.rat(b) for a, b in zip(v.shape.items, want))
                detail = 'result shape %r' % (v,)
        run.check(ok, 'C16.bin', f.qual, "bindown mode '%s'" % mode, "mode '%s' takes the %s over exactly the factor-sized axes of the (s//f, f) view" % (mode, red),
                  "bindown(mode='%s') does not take the %s over the factor axes: %s" % (mode, red, detail), f.loc())
    # scalar factor is broadcast to every axis
    res = [p for p in it.run(f, kwargs=lambda: {'array': Shaped(Tup([s0, s1]), 'array'), 'factor': dom.integer('f'), 'mode': Const('sum')}) if p.outcome == 'return']
    ev = [e for p in res for e in p.events if e['kind'] == 'reduce']
    ok = bool(ev) and all(dom.rat(x) == dom.rat(dom.integer('f')) for x in ev[0]['lengths']) and len(ev[0]['lengths']) == 2
    run.check(ok, 'C16.bin', f.qual, 'scalar factor', 'a scalar factor bins every axis', 'a scalar bin factor is not applied to every axis', f.loc())
    # rank 3: every axis' factor takes part
    s2, f2 = dom.integer('s2'), dom.integer('f2')
    ft = db.func(D + 'tile')
    res3 = [p for p in it.run(ft, kwargs=lambda: {'array': Shaped(Tup([s0, s1, s2]), 'array'), 'factor': Tup([f0, f1, f2]), 'scaling': Const('sum')}) if p.outcome == 'return']
    ok3 = False
    got3 = None
    for p in res3:
        if _unit_scale_path(p):
            continue
        v = p.value
        if isinstance(v, Shaped) and v.origin is not None and v.origin[0] == 'scale' and v.origin[1] == 'Mult':
            got3 = dom.rat(v.origin[3])
            ok3 = got3 is not None and got3 == 1 / (dom.rat(f0) * dom.rat(f1) * dom.rat(f2))
    run.check(ok3, 'C16.bin', ft.qual, "tile scaling 'sum' rank 3", "for a rank-3 array the 'sum' scale is 1/(f0 f1 f2): the total is conserved on every axis",
              "tile(scaling='sum') scales a rank-3 array by %s instead of 1/(f0 f1 f2): totals are not conserved when a leading axis is tiled" % (got3.key() if got3 is not None else 'nothing'), ft.loc())
    fb = db.func(D + 'bindown')
    r3 = [p for p in it.run(fb, kwargs=lambda: {'array': Shaped(Tup([s0, s1, s2]), 'array'), 'factor': Tup([f0, f1, f2]), 'mode': Const('sum')}) if p.outcome == 'return']
    ev3 = [e for p in r3 for e in p.events if e['kind'] == 'reduce']
    okb = len(ev3) == 1 and [dom.rat(x) for x in ev3[0]['lengths']] == [dom.rat(f0), dom.rat(f1), dom.rat(f2)]
    run.check(okb, 'C16.bin', fb.qual, 'bindown rank 3', 'for a rank-3 array all three factor axes are reduced', 'bindown does not reduce all factor axes of a rank-3 array', fb.loc())
    f = db.func(D + 'tile')
    for scaling, want_sf in (('sum', 1 / (dom.rat(f0) * dom.rat(f1))), ('avg', None), ('average', None), ('mean', None)):
        res = [p for p in it.run(f, kwargs=lambda: {'array': Shaped(Tup([s0, s1]), 'array'), 'factor': Tup([f0, f1]), 'scaling': Const(scaling)}) if p.outcome == 'return']
        if not res:
            raise AnalysisError('tile(%s): no returning path' % scaling)
        for p in res:
            if _unit_scale_path(p) and want_sf is not None:
                continue        # sf == 1 (unit factors): skipping the multiplication is the same thing
            v = p.value
            sf = None
            inner = v
            if isinstance(v, Shaped) and v.origin is not None and v.origin[0] == 'scale':
                _, op, inner, scalar, left = v.origin
                sf = dom.rat(scalar) if op == 'Mult' else None
            bc = [e for e in p.events if e['kind'] == 'broadcast']
            rs = [e for e in p.events if e['kind'] == 'reshape']
            ok = len(bc) == 1 and len(rs) == 1
            detail = 'broadcast/reshape structure not found'
            if ok:
                src = bc[0]['target'].shape.items
                dst = bc[0]['shape'].items
                okb = len(src) == 4 and len(dst) == 4 and [dom.rat(x) for x in dst] == [dom.rat(z) for z in (s0, f0, s1, f1)] \
                    and dom.rat(src[0]) == dom.rat(s0) and dom.rat(src[2]) == dom.rat(s1) and dom.rat(src[1]) == 1 and dom.rat(src[3]) == 1
                out = rs[0]['shape'].items
                oko = len(out) == 2 and dom.rat(out[0]) == dom.rat(s0) * dom.rat(f0) and dom.rat(out[1]) == dom.rat(s1) * dom.rat(f1)
                ok = okb and oko
                detail = 'view %s -> %s -> %s' % ([dom.key(x) for x in src], [dom.key(x) for x in dst], [dom.key(x) for x in out])
            if ok:
                if want_sf is None:
                    ok = sf is None or sf == 1
                else:
                    ok = sf is not None and sf == want_sf
                detail = 'scale factor %s' % (sf.key() if sf is not None else 'none')
            run.check(ok, 'C16.bin', f.qual, "tile scaling '%s'" % scaling,
                      "scaling '%s': each sample is repeated over an (f0, f1) block%s (the transpose of bindown's view)" % (scaling, ' and scaled by 1/(f0 f1): totals are conserved' if want_sf is not None else ': levels are conserved'),
                      "tile(scaling='%s') is not the transpose of the bindown view with the documented scale: %s" % (scaling, detail), f.loc())


def check(run, db, tier):
    run.trust('NORM for the clamp expressions; literal-table extraction from the if-chains on the CFA name; constant folding of the Malvar kernels',
              'reference layouts rggb = (R, G1 / G2, B), bggr = (B, G1 / G2, R); Malvar-He-Cutler estimate placement')
    run.assume('not decided: monotonicity in the presence of noise, conservation to round-off (values)')
    run.rule('C16.clamp', 'ADC ceiling is 2**bits - 1 and the floor 0, both applied before the unsigned cast; container width >= bits; full-well clip before the gain; DN = e/gain')
    run.rule('C16.bayer', 'site slices partition the 2x2 cell; every function maps colours to the same sites for both layouts; demosaicking copies raw samples at native sites')
    run.rule('C16.kernel', 'each Malvar kernel sums to one after its normalisation')
    run.rule('C16.bin', "bindown reduces the factor axes with mean/sum; tile scales by 1/prod(factor) ('sum') or 1 ('avg'); the two views are transposes")
    for fn in (clamp_rules, live_state_rules, bayer_rules, cfa_passthrough_rules, bin_rules, accumulate_rules):
        run.group(fn, run, db)
    run.require_instances('C16.bayer', 15)
    run.require_instances('C16.kernel', 4)
    run.require_instances('C16.clamp', 7)
