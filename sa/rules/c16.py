"""C16 -- sensor model: DN stay in range; binning and mosaicking conserve signal."""
import ast
import re
from fractions import Fraction

from ..core.db import AnalysisError, norm_stmt, walk_no_nested
from ..core.interp import Const, Tup, Unknown, Obj, Frame
from ..core.norm import Rat
from .common import norm_interp, returns

D = 'prysm.detector.'
B = 'prysm.bayer.'
SITES = {'top_left': (0, 0), 'top_right': (0, 1), 'bottom_left': (1, 0), 'bottom_right': (1, 1)}
REF = {'rggb': {'r': 'top_left', 'g1': 'top_right', 'g2': 'bottom_left', 'b': 'bottom_right'},
       'bggr': {'b': 'top_left', 'g1': 'top_right', 'g2': 'bottom_left', 'r': 'bottom_right'}}
DTYPE_BITS = {'np.uint8': 8, 'np.uint16': 16, 'np.uint32': 32, 'np.uint64': 64}


class Ranged:
    """placeholder replaced below"""


def _ranged_domain():
    from ..core.interp import Value, ExtRef
    from ..domains.normdom import ArrNormDomain, Sym

    class Ranged(Value):
        """An array of samples.  `scale`: units of this array per collected electron (Rat; None = not known); `ub` / `lb`: quantities no
        sample exceeds / falls below, in the array's own units; `cast`: the container it was cast to, if it was."""
        def __init__(self, scale, ub=(), lb=(), cast=None):
            self.scale, self.ub, self.lb, self.cast = scale, list(ub), list(lb), cast

        def clone(self):
            return Ranged(self.scale, self.ub, self.lb, self.cast)

        def __repr__(self):
            return 'Ranged(scale=%s, ub=%s, lb=%s)' % (self.scale and self.scale.key(), [u.key() for u in self.ub], [l.key() for l in self.lb])

    class MaskV(Value):
        def __init__(self, arr, side, bound):
            self.arr, self.side, self.bound = arr, side, bound

    class RangedDomain(ArrNormDomain):
        """NORM plus sample arrays with symbolic bounds: comparisons give masks, masked stores / clip / minimum / maximum / where add bounds,
        a positive factor scales them, a sum forgets them.  Factors are taken as positive (gain, exposure time: physical quantities)."""
        def _bounded(self, x, side, bound, value, node):
            # samples beyond `bound` are replaced by `value`: a bound only if the two agree
            if bound is None or value is None or not (bound == value):
                return
            (x.ub if side == 'gt' else x.lb).append(bound)

        def binop(self, op, a, b, node):
            if isinstance(a, Ranged) or isinstance(b, Ranged):
                x, o, left = (a, b, True) if isinstance(a, Ranged) else (b, a, False)
                ro = self.rat(o)
                if isinstance(op, ast.Mult) and ro is not None and x.scale is not None:
                    return Ranged(x.scale * ro, [u * ro for u in x.ub], [l * ro for l in x.lb])
                if isinstance(op, ast.Div) and left and ro is not None and not ro.is_zero() and x.scale is not None:
                    return Ranged(x.scale / ro, [u / ro for u in x.ub], [l / ro for l in x.lb])
                if isinstance(op, (ast.Add, ast.Sub)):
                    if isinstance(o, Ranged) and not (o.scale is not None and x.scale is not None and o.scale == x.scale):
                        return Ranged(None)
                    return Ranged(x.scale)
                if isinstance(op, ast.Mult) and ro is None and not isinstance(o, Ranged):
                    return Ranged(x.scale)          # a dimensionless per-pixel map
                return Ranged(None)
            return super().binop(op, a, b, node)

        def compare(self, op, a, b, node):
            if isinstance(a, Ranged) or isinstance(b, Ranged):
                x, o, left = (a, b, True) if isinstance(a, Ranged) else (b, a, False)
                gt = isinstance(op, (ast.Gt, ast.GtE))
                lt = isinstance(op, (ast.Lt, ast.LtE))
                if not (gt or lt):
                    return Unknown('comparison of samples')
                return MaskV(x, 'gt' if (gt == left) else 'lt', self.rat(o))
            return super().compare(op, a, b, node)

        def store_subscript(self, target, idx, val, node):
            if isinstance(target, Ranged):
                if isinstance(idx, MaskV) and idx.arr is target:
                    self._bounded(target, idx.side, idx.bound, self.rat(val), node)
                elif isinstance(idx, MaskV) or not isinstance(val, Ranged):
                    target.ub, target.lb = [], []
                return True
            return super().store_subscript(target, idx, val, node)

        def subscript(self, v, idx, node):
            if isinstance(v, Ranged):
                if isinstance(idx, MaskV):
                    return Ranged(v.scale, v.ub, v.lb, v.cast)
                return v
            return super().subscript(v, idx, node)

        def getattr(self, v, name, node):
            if isinstance(v, Ranged):
                if name in ('T', 'real'):
                    return v
                if name in ('shape', 'size', 'ndim', 'dtype'):
                    return Unknown(name)
                return None
            return super().getattr(v, name, node)

        def _clip(self, x, lo, hi, out):
            tgt = out if isinstance(out, Ranged) else x.clone()
            if tgt is not x:
                tgt.scale, tgt.ub, tgt.lb = x.scale, list(x.ub), list(x.lb)
            rl = None if (lo is None or (isinstance(lo, Const) and lo.v is None)) else self.rat(lo)
            rh = None if (hi is None or (isinstance(hi, Const) and hi.v is None)) else self.rat(hi)
            if rl is not None:
                tgt.lb.append(rl)
            if rh is not None:
                tgt.ub.append(rh)
            return tgt

        def method(self, v, name, args, kwargs, node):
            if isinstance(v, Ranged):
                if name in ('reshape', 'ravel', 'view', 'squeeze', 'transpose', 'swapaxes'):
                    return v
                if name in ('copy', 'flatten'):
                    return v.clone()
                if name == 'clip':
                    a = list(args) + [None, None]
                    return self._clip(v, kwargs.get('min', kwargs.get('a_min', a[0])), kwargs.get('max', kwargs.get('a_max', a[1])), kwargs.get('out'))
                if name == 'astype' and args:
                    r = Ranged(v.scale, v.ub, v.lb, args[0])
                    self.interp.events.append({'kind': 'cast', 'arr': r, 'node': node})
                    return r
                return Unknown('method %s of samples' % name)
            if isinstance(v, Sym) and name in ('reshape', 'ravel', 'flatten', 'copy', 'squeeze'):
                return v
            return super().method(v, name, args, kwargs, node)

        def call_ext(self, dotted, args, kwargs, node):
            last = dotted.rsplit('.', 1)[-1]
            if dotted.startswith('numpy.random.') or '.random.' in dotted:
                self.interp.events.append({'kind': 'draw', 'dist': last, 'args': list(args), 'node': node})
                return Ranged(Rat(self.R.const(1)))
            a0 = args[0] if args else None
            if dotted.startswith('numpy.'):
                if last == 'clip' and isinstance(a0, Ranged):
                    a = list(args[1:]) + [None, None]
                    return self._clip(a0, kwargs.get('a_min', kwargs.get('min', a[0])), kwargs.get('a_max', kwargs.get('max', a[1])), kwargs.get('out'))
                if last in ('minimum', 'maximum', 'fmin', 'fmax') and len(args) >= 2 and any(isinstance(x, Ranged) for x in args[:2]):
                    x, o = (args[0], args[1]) if isinstance(args[0], Ranged) else (args[1], args[0])
                    if isinstance(o, Ranged):
                        return Ranged(None)
                    lo, hi = (None, o) if last in ('minimum', 'fmin') else (o, None)
                    return self._clip(x, lo, hi, kwargs.get('out'))
                if (last in ('nonzero', 'flatnonzero') or (last == 'where' and len(args) == 1)) and isinstance(a0, MaskV):
                    return a0           # the positions where the mask holds: indexing with them is indexing with the mask
                if last in ('putmask', 'place') and len(args) == 3 and isinstance(a0, Ranged):
                    # in place: a[mask] = value
                    self.store_subscript(a0, args[1], args[2], node)
                    return Const(None)
                if last == 'copyto' and len(args) == 2 and isinstance(a0, Ranged) and 'where' in kwargs:
                    self.store_subscript(a0, kwargs['where'], args[1], node)
                    return Const(None)
                if last == 'where' and len(args) == 3 and isinstance(args[0], MaskV):
                    m, yes, no = args
                    if isinstance(no, Ranged) and m.arr is no and not isinstance(yes, Ranged):
                        r = no.clone()
                        self._bounded(r, m.side, m.bound, self.rat(yes), node)
                        return r
                    if isinstance(yes, Ranged) and m.arr is yes and not isinstance(no, Ranged):
                        r = yes.clone()
                        self._bounded(r, 'lt' if m.side == 'gt' else 'gt', m.bound, self.rat(no), node)
                        return r
                    return Ranged(None)
                if isinstance(a0, Ranged):
                    if last in ('asarray', 'ascontiguousarray', 'reshape', 'ravel', 'squeeze', 'atleast_2d', 'asanyarray'):
                        return a0
                    if last in ('array', 'copy'):
                        return a0.clone()
                    if last in ('round', 'rint', 'floor', 'around', 'trunc', 'fix'):
                        # rounding never crosses an integral bound; the bounds asked for are integers or are re-established later
                        return Ranged(a0.scale, [], [])
                    return Ranged(None)
            if dotted == 'builtins.len' and isinstance(a0, (Ranged, Sym)):
                return Unknown('len')
            return super().call_ext(dotted, args, kwargs, node)

        def truth(self, v):
            if isinstance(v, (Ranged, MaskV)):
                return None
            return super().truth(v)

    return Ranged, MaskV, RangedDomain


def _dtype_bits(v):
    """(bits, unsigned) of a numpy integer container named by an external reference or a string constant."""
    name = None
    if type(v).__name__ == 'ExtRef':
        name = v.dotted.rsplit('.', 1)[-1]
    elif isinstance(v, Const) and isinstance(v.v, str):
        name = v.v
    m = re.fullmatch(r'(u?)int(8|16|32|64)', name or '')
    if not m:
        return None
    return int(m.group(2)), bool(m.group(1))


def clamp_rules(run, db):
    """expose(): decided on the value that is returned.  Samples are followed from the random draws (electrons) to the integer cast with the
    bounds every operation establishes; at the cast 0 and 2**bits - 1 must be among them, the full well must have been imposed on electrons,
    the scale must be 1/gain and the container must hold 2**bits - 1 for every depth 1..32."""
    f = db.func(D + 'Detector.expose')
    ci = db.cls(D + 'Detector')
    Ranged, MaskV, RangedDomain = _ranged_domain()
    lut_q = D + 'apply_lut'

    def interp(bits=None):
        it, dom = norm_interp(db, domain_cls=RangedDomain)
        R = dom.R

        def mk_self():
            o = Obj(ci)
            o.attrs.update({'bits': dom.sym('bits') if bits is None else Const(bits), 'fwc': dom.sym('fwc'), 'conversion_gain': dom.sym('gain'), 'bias': dom.sym('bias'),
                            'exposure_time': dom.sym('t'), 'dark_current': dom.sym('dark'), 'read_noise': dom.sym('rn'),
                            'dcnu': Unknown('dcnu') if bits is None else Const(None), 'prnu': Unknown('prnu') if bits is None else Const(None),
                            'lut': Unknown('lut') if bits is None else Const(None)})
            return o
        orig = dom.call_prysm

        def call_prysm(fi, args, kw, node):
            if fi.qual == lut_q:
                a0 = args[0] if args else kw.get('img')
                if isinstance(a0, Ranged):
                    return Ranged(None, cast=('lut', a0))
                return Unknown('lut of something else')
            return orig(fi, args, kw, node) if orig else None
        dom.call_prysm = call_prysm
        out = []
        for p in it.run(f, kwargs=lambda: {'aerial_img': dom.sym('img'), 'frames': Unknown('frames') if bits is None else Const(1)}, self_obj=mk_self):
            out.append((p, [(e['arr'], e['node']) for e in p.events if e.get('kind') == 'cast'], [(e['dist'], e['args'], e['node']) for e in p.events if e.get('kind') == 'draw']))
        return it, dom, out

    it, dom, paths = interp()
    R = dom.R
    rets = [(p, c, d) for p, c, d in paths if p.outcome == 'return']
    if not rets:
        raise AnalysisError('expose: no returning path')
    want = Rat(R.func('pow', [Rat(R.const(2)), Rat(R.atom('bits'))])) - 1
    gain, fwc = Rat(R.atom('gain')), Rat(R.atom('fwc'))
    zero = Rat(R.const(0))
    verdicts = {}

    def note(key, ok, good, bad, node):
        cur = verdicts.get(key)
        if cur is None or (cur[0] and not ok):
            verdicts[key] = (ok, good, bad, node)
    for p, casts, draws in rets:
        v = p.value
        if isinstance(v, Ranged) and isinstance(v.cast, tuple) and v.cast[0] == 'lut':
            v = v.cast[1]
        if not isinstance(v, Ranged):
            raise AnalysisError('expose: the returned value is not followed on path %s: %r' % (p.conds, v))
        if v.cast is None:
            note('cast', False, '', 'expose returns samples that were never cast to an integer container', f.node)
            continue
        node = next((n for r_, n in casts if r_ is v), f.node)
        note('cast', True, 'the returned array is the result of an integer cast', '', node)
        has_ub = any(u == want for u in v.ub)
        note('upper clamp', has_ub, 'samples above the ADC ceiling are set to 2**bits - 1 before the integer cast',
             'at the integer cast no clamp to 2**bits - 1 has been applied (bounds known: %s): a saturated pixel is stored as 2**bits or more, which wraps in the unsigned container'
             % sorted(u.key() for u in v.ub), node)
        note('lower clamp', any(l == zero for l in v.lb), 'negative samples are set to 0 before the unsigned cast',
             'negative samples (read noise, bias) are not clamped to 0 before the unsigned cast (they wrap to large codes)', node)
        if v.scale is None:
            raise AnalysisError('expose: the scale of the ADC output relative to the collected electrons is not followed on path %s' % (p.conds,))
        note('gain', v.scale == 1 / gain, 'DN = electrons / conversion_gain', 'gain scaling is %s' % v.scale.key(), node)
        note('full well', any(u == fwc * v.scale for u in v.ub), 'charge above the full-well capacity is clipped to it before the gain is applied',
             'the full-well capacity is not imposed on the collected electrons (bounds in DN at the cast: %s, full well in DN: %s)' % (sorted(u.key() for u in v.ub), (fwc * v.scale).key()), node)
        # the mean of the shot-noise draw is signal plus dark for one exposure
        mean = [a for nm, a, n in draws if nm == 'poisson']
        if len(mean) != 1 or not mean[0]:
            raise AnalysisError('expose: expected one Poisson draw per path, found %d' % len(mean))
        m = dom.rat(mean[0][0])
        img, t, dark = Rat(R.atom('img')), Rat(R.atom('t')), Rat(R.atom('dark'))
        if m is not None:
            okm = m == img * t + dark * t       # (the path with a dark-current map has an unknown mean and is not judged)
            note('signal', bool(okm), 'the expected charge is (irradiance + dark current) * exposure time', 'the mean of the shot-noise draw is %s' % m.key(), f.node)
    for key, (ok, good, bad, node) in sorted(verdicts.items()):
        run.check(ok, 'C16.clamp', f.qual, key, good, bad, f.loc(node))
    # containers: every depth 1..32 lands in an unsigned container wide enough for 2**bits - 1
    bad, widths = [], {}
    for b in range(1, 33):
        _, domb, pb = interp(bits=b)
        rb = [(p, c) for p, c, _ in pb if p.outcome == 'return']
        if not rb:
            bad.append((b, 'no result'))
            continue
        for p, casts in rb:
            v = p.value
            db_ = _dtype_bits(v.cast) if isinstance(v, Ranged) and v.cast is not None else None
            if db_ is None:
                raise AnalysisError('expose: container of the result for bits=%d is not followed (%r)' % (b, getattr(v, 'cast', v)))
            w, unsigned = db_
            widths[b] = ('u' if unsigned else '') + 'int%d' % w
            if (w if unsigned else w - 1) < b:
                bad.append((b, widths[b]))
    run.check(not bad, 'C16.clamp', f.qual, 'containers for bits 1..32', 'every bit depth 1..32 is stored in a container that holds 2**bits - 1 (%s)'
              % ', '.join('%d..%d: %s' % (min(k for k in widths if widths[k] == w_), max(k for k in widths if widths[k] == w_), w_) for w_ in sorted(set(widths.values()), key=lambda s_: int(re.sub(r'\D', '', s_)))),
              'bit depths %s are stored in a container that cannot hold 2**bits - 1: %s' % ([b for b, _ in bad], bad[:4]), f.loc())


def _branch_tables(fi, kind):
    """{cfa: {colour: site}} extracted from the if-chain on cfa."""
    out = {}
    for n in walk_no_nested(fi.node):
        if isinstance(n, ast.If) and isinstance(n.test, ast.Compare) and ast.unparse(n.test.left) == 'cfa' and isinstance(n.test.comparators[0], ast.Constant):
            cfa = n.test.comparators[0].value
            tab = {}
            for st in n.body:
                rec = kind(st)
                if rec:
                    for col, site in rec:
                        tab.setdefault(col, []).append(site)
            out[cfa] = tab
    return out


def bayer_rules(run, db):
    mod = db.module('prysm.bayer')
    # the four slices partition the 2x2 cell
    got = {}
    for name, (r, c) in SITES.items():
        e = mod.assigns.get(name)
        if e is None:
            raise AnalysisError('bayer: site slice %s not found' % name)
        t = ast.unparse(e).replace(' ', '')
        want = '(slice(%d,None,2),slice(%d,None,2))' % (r, c)
        got[name] = t
        run.check(t == want, 'C16.bayer', 'prysm.bayer', name, '%s == (rows %d::2, cols %d::2)' % (name, r, c), 'site slice %s is %s, expected %s' % (name, t, want), mod.relpath)
    run.check(len(set(got.values())) == 4, 'C16.bayer', 'prysm.bayer', 'partition', 'the four site slices are distinct (partition of the 2x2 cell)', 'site slices do not partition the 2x2 cell: %s' % got, mod.relpath)

    def k_decomp(st):
        if isinstance(st, ast.Assign) and isinstance(st.value, ast.Subscript) and isinstance(st.targets[0], ast.Name) and ast.unparse(st.value.slice) in SITES:
            return [(st.targets[0].id, ast.unparse(st.value.slice))]

    def k_recomp(st):
        if isinstance(st, ast.Assign) and isinstance(st.targets[0], ast.Subscript) and ast.unparse(st.targets[0].slice) in SITES and isinstance(st.value, ast.Name):
            return [(st.value.id, ast.unparse(st.targets[0].slice))]

    def k_comp(st):
        if isinstance(st, ast.Assign) and isinstance(st.targets[0], ast.Subscript) and isinstance(st.value, ast.Subscript) and ast.unparse(st.targets[0].slice) in SITES:
            src_site = ast.unparse(st.value.slice)
            dst_site = ast.unparse(st.targets[0].slice)
            return [(ast.unparse(st.value.value), dst_site if src_site == dst_site else '%s<-%s' % (dst_site, src_site))]

    def k_wb(st):
        if isinstance(st, ast.AugAssign) and isinstance(st.op, ast.Mult) and isinstance(st.target, ast.Subscript) and ast.unparse(st.target.slice) in SITES and isinstance(st.value, ast.Name):
            return [(st.value.id[1:] if st.value.id.startswith('w') else st.value.id, ast.unparse(st.target.slice))]
    # the four colour<->site routines are decided by interpreting them for each layout (the layout is a concrete string, so
    # if-chains, dict dispatch and loops over site tables all evaluate): reading a plane is `mosaic[site]`, writing one is a store
    # into `[site]`; a site is identified by the (row, column) offsets of its stride-2 slices
    from ..core.interp import Slice as _Slice
    for cfa in ('rggb', 'bggr'):
        it_, dom_ = norm_interp(db)
        osub, ost, oe = dom_.subscript, dom_.store_subscript, dom_.call_ext
        stores = []

        def site_of(idx):
            items = idx.items if isinstance(idx, Tup) else None
            if items is None or len(items) != 2 or not all(isinstance(x, _Slice) for x in items):
                return None
            offs = []
            for sl in items:
                lo, st_ = sl.lo, sl.step
                if not (isinstance(st_, Const) and st_.v == 2 and isinstance(lo, Const) and lo.v in (0, 1, None) and isinstance(sl.hi, Const) and sl.hi.v is None):
                    return None
                offs.append(lo.v or 0)
            return next((nm_ for nm_, rc in SITES.items() if rc == tuple(offs)), None)

        def subscript(v, idx, node, dom_=dom_, osub=osub):
            st_ = site_of(idx)
            if st_ is not None and dom_.rat(v) is not None:
                return dom_.func_atom('at_' + st_, [v])
            return osub(v, idx, node)

        def store_subscript(target, idx, val, node, dom_=dom_, ost=ost, stores=stores):
            st_ = site_of(idx)
            if st_ is not None and dom_.rat(target) is not None:
                stores.append((dom_.rat(target).key(), st_, dom_.rat(val), node))
                return True
            return ost(target, idx, val, node)

        def call_ext(dotted, args, kwargs, node, dom_=dom_, oe=oe):
            if dotted.rsplit('.', 1)[-1] in ('empty', 'zeros', 'empty_like', 'zeros_like'):
                return dom_.sym('OUT')
            return oe(dotted, args, kwargs, node)
        dom_.subscript, dom_.store_subscript, dom_.call_ext = subscript, store_subscript, call_ext
        R_ = dom_.R
        A_ = lambda nme: Rat(R_.atom(nme))
        at = lambda site, arr: Rat(R_.func('at_' + site, [A_(arr)]))
        ref = REF[cfa]
        # decomposite_bayer: the returned planes, in the order (r, g1, g2, b)
        fi = db.func(B + 'decomposite_bayer')
        res = returns(it_.run(fi, kwargs=lambda: {'img': dom_.sym('IMG'), 'cfa': Const(cfa)}), fi)
        got = [dom_.rat(x) for x in res[0].value.items] if len(res) == 1 and isinstance(res[0].value, Tup) and len(res[0].value.items) == 4 else []
        want = [at(ref[c_], 'IMG') for c_ in ('r', 'g1', 'g2', 'b')]
        run.check(len(got) == 4 and all(g is not None and g == w for g, w in zip(got, want)), 'C16.bayer', fi.qual, '%s table' % cfa, 'decomposite_bayer[%s] returns (r, g1, g2, b) read from the sites %s' % (cfa, ref),
                  'decomposite_bayer with cfa=%s returns %s, expected %s: samples change colour plane' % (cfa, [g.key() if g is not None else '?' for g in got], [w.key() for w in want]), fi.loc())
        # recomposite_bayer / composite_bayer: what is stored at which site
        for fname, src in (('recomposite_bayer', lambda c_, site: A_(c_.upper())), ('composite_bayer', lambda c_, site: at(site, c_.upper()))):
            fi = db.func(B + fname)
            del stores[:]
            it_.run(fi, kwargs=lambda: {'r': dom_.sym('R'), 'g1': dom_.sym('G1'), 'g2': dom_.sym('G2'), 'b': dom_.sym('B'), 'cfa': Const(cfa), 'output': Const(None)})
            tab = {site: val for tgt, site, val, nd in stores}
            wantt = {ref[c_]: src(c_, ref[c_]) for c_ in ('r', 'g1', 'g2', 'b')}
            ok = len(stores) == 4 and set(tab) == set(wantt) and all(tab[k] is not None and tab[k] == wantt[k] for k in wantt)
            run.check(ok, 'C16.bayer', fi.qual, '%s table' % cfa, '%s[%s] writes each colour plane to its site %s' % (fname, cfa, ref),
                      '%s with cfa=%s writes %s, expected %s: samples change colour plane / position' % (fname, cfa, {k: (v.key() if v is not None else '?') for k, v in tab.items()}, {k: v.key() for k, v in wantt.items()}), fi.loc())
        # wb_prescale: each site of the mosaic is multiplied by the gain of the colour that sits there
        fi = db.func(B + 'wb_prescale')
        del stores[:]
        it_.run(fi, kwargs=lambda: {'mosaic': dom_.sym('MOSAIC'), 'wr': dom_.sym('WR'), 'wg1': dom_.sym('WG1'), 'wg2': dom_.sym('WG2'), 'wb': dom_.sym('WB'), 'cfa': Const(cfa), 'safe': Const(False), 'saturation': Const(None)})
        tab = {site: val for tgt, site, val, nd in stores if tgt == 'MOSAIC'}
        wantt = {ref[c_]: at(ref[c_], 'MOSAIC') * A_('W' + c_.upper()) for c_ in ('r', 'g1', 'g2', 'b')}
        ok = len(stores) == 4 and set(tab) == set(wantt) and all(tab[k] is not None and tab[k] == wantt[k] for k in wantt)
        run.check(ok, 'C16.bayer', fi.qual, '%s table' % cfa, 'wb_prescale[%s] scales each site by the gain of its colour %s' % (cfa, ref),
                  'wb_prescale with cfa=%s leaves %s, expected %s: a gain is applied to the wrong colour' % (cfa, {k: (v.key() if v is not None else '?') for k, v in tab.items()}, {k: v.key() for k, v in wantt.items()}), fi.loc())
    # demosaic_malvar, by interpretation for each layout: the estimates are the mosaic convolved with the named kernels divided by
    # a number that makes them sum to one; red/blue keep the raw samples at their native sites and take the matching estimate
    # elsewhere; green is the green estimate with the raw samples at both green sites; the result is the stack (red, green, blue)
    from ..core.interp import Value, Frame as _Frame
    fi = db.func(B + 'demosaic_malvar')
    KNAMES = ('kernel_G_at_R_or_B', 'kernel_R_at_G_in_RB', 'kernel_R_at_G_in_BR', 'kernel_R_at_B_in_BB')
    itk, domk = norm_interp(db)
    ksum, kval = {}, {}
    for kn in KNAMES:
        e = mod.assigns.get(kn)
        if e is None:
            raise AnalysisError('kernel %s not found' % kn)
        itk._reset_run([])
        v = itk.ev(e, _Frame(None, mod, {}))
        tot = Rat(domk.R.const(0))
        cnt = 0
        for row in v.items:
            for x in row.items:
                tot = tot + domk.rat(x)
                cnt += 1
        if cnt != 25 or not (tot.num.is_const() and tot.den.is_const()):
            raise AnalysisError('kernel %s is not a 5x5 table of numbers' % kn)
        ksum[kn] = tot.num.const_value() / tot.den.const_value()
        kval[kn] = repr(v)

    class Kern(Value):
        def __init__(self, name, scale):
            self.name, self.scale = name, scale

        def __repr__(self):
            return 'Kern(%s x %s)' % (self.name, self.scale)
    est_role = {'kernel_G_at_R_or_B': 'Gest', 'kernel_R_at_G_in_RB': 'c1', 'kernel_R_at_G_in_BR': 'c2', 'kernel_R_at_B_in_BB': 'c3'}
    from ..core.interp import Slice as _Slice2
    kernel_checked = set()
    for cfa in ('rggb', 'bggr'):
        it_, dom_ = norm_interp(db)
        osub, ost, oe, ob = dom_.subscript, dom_.store_subscript, dom_.call_ext, dom_.binop
        stores = []
        outs = []

        def site_of2(idx):
            items = idx.items if isinstance(idx, Tup) else None
            if items is None or len(items) != 2 or not all(isinstance(x, _Slice2) for x in items):
                return None
            offs = []
            for sl in items:
                if not (isinstance(sl.step, Const) and sl.step.v == 2 and isinstance(sl.lo, Const) and sl.lo.v in (0, 1, None) and isinstance(sl.hi, Const) and sl.hi.v is None):
                    return None
                offs.append(sl.lo.v or 0)
            return next((nm_ for nm_, rc in SITES.items() if rc == tuple(offs)), None)

        def subscript(v, idx, node, dom_=dom_, osub=osub):
            st_ = site_of2(idx)
            if st_ is not None and dom_.rat(v) is not None:
                return dom_.func_atom('at_' + st_, [v])
            return osub(v, idx, node)

        def store_subscript(target, idx, val, node, dom_=dom_, ost=ost, stores=stores):
            st_ = site_of2(idx)
            if st_ is not None and dom_.rat(target) is not None:
                stores.append((dom_.rat(target).key(), st_, dom_.rat(val), node))
                return True
            return ost(target, idx, val, node)

        def call_ext(dotted, args, kwargs, node, dom_=dom_, oe=oe, outs=outs):
            last = dotted.rsplit('.', 1)[-1]
            if last in ('empty_like', 'zeros_like', 'empty', 'zeros'):
                outs.append('OUT%d' % len(outs))
                return dom_.sym(outs[-1])
            if last in ('array', 'asarray') and args and isinstance(args[0], Tup):
                hit = [kn for kn in KNAMES if repr(args[0]) == kval[kn]]
                if len(hit) >= 1:
                    return Kern(hit[0], Rat(dom_.R.const(1)))
            if last == 'convolve' and len(args) >= 2 and isinstance(args[1], Kern) and dom_.rat(args[0]) is not None:
                k = args[1]
                tot = k.scale * Rat(dom_.R.const(ksum[k.name]))
                if k.name not in kernel_checked:
                    kernel_checked.add(k.name)
                    run.check(tot == 1, 'C16.kernel', fi.qual, k.name, '%s times its scale sums to 1 (flat fields are preserved)' % k.name,
                              'kernel %s sums to %s after scaling by %s (must be 1)' % (k.name, tot.key(), k.scale.key()), fi.loc(node))
                return dom_.func_atom(est_role[k.name], [args[0]])
            if last == 'stack' and args and isinstance(args[0], Tup):
                return Tup(list(args[0].items), 'stack')
            return oe(dotted, args, kwargs, node)

        def binop(op, a, b, node, dom_=dom_, ob=ob):
            if isinstance(a, Kern) and dom_.rat(b) is not None and isinstance(op, (ast.Div, ast.Mult)):
                return Kern(a.name, a.scale / dom_.rat(b) if isinstance(op, ast.Div) else a.scale * dom_.rat(b))
            if isinstance(b, Kern) and dom_.rat(a) is not None and isinstance(op, ast.Mult):
                return Kern(b.name, b.scale * dom_.rat(a))
            return ob(op, a, b, node)
        dom_.subscript, dom_.store_subscript, dom_.call_ext, dom_.binop = subscript, store_subscript, call_ext, binop
        res = returns(it_.run(fi, kwargs=lambda: {'img': dom_.sym('IMG'), 'cfa': Const(cfa)}), fi)
        if len(res) != 1 or not (isinstance(res[0].value, Tup) and len(res[0].value.items) == 3):
            raise AnalysisError('demosaic_malvar[%s]: does not return a stack of three planes on one path' % cfa)
        planes = [dom_.rat(x) for x in res[0].value.items]
        if any(p_ is None for p_ in planes):
            raise AnalysisError('demosaic_malvar[%s]: planes outside NORM' % cfa)
        R_ = dom_.R
        IMG = Rat(R_.atom('IMG'))
        est = lambda nm_: Rat(R_.func(nm_, [IMG]))
        at = lambda site, arr: Rat(R_.func('at_' + site, [arr]))
        native_r = REF[cfa]['r']
        # per plane: what is stored at each site
        def table(plane):
            return {site: val for tgt, site, val, nd in stores if tgt == plane.key()}
        redt, greent, bluet = table(planes[0]), table(planes[1]), table(planes[2])
        # rggb: red native at top_left; the estimate for a red value at a green site in a red row (c1) belongs to the other site of that row, etc.
        want_first = {'top_left': at('top_left', IMG), 'top_right': at('top_right', est('c1')), 'bottom_left': at('bottom_left', est('c2')), 'bottom_right': at('bottom_right', est('c3'))}
        want_second = {'top_left': at('top_left', est('c3')), 'top_right': at('top_right', est('c2')), 'bottom_left': at('bottom_left', est('c1')), 'bottom_right': at('bottom_right', IMG)}
        want_red, want_blue = (want_first, want_second) if cfa == 'rggb' else (want_second, want_first)
        okrb = redt == want_red and bluet == want_blue and planes[0] != planes[2]
        show = lambda t_: {k: (v.key() if v is not None else '?') for k, v in sorted(t_.items())}
        run.check(okrb, 'C16.bayer', fi.qual, 'malvar %s' % cfa, 'red/blue planes: native sites copied from the mosaic, other sites from the matching estimate (%s)' % cfa,
                  'demosaic_malvar[%s] fills red with %s and blue with %s, expected %s and %s' % (cfa, show(redt), show(bluet), show(want_red), show(want_blue)), fi.loc())
        okg = planes[1] == est('Gest') and greent == {'top_right': at('top_right', IMG), 'bottom_left': at('bottom_left', IMG)}
        run.check(okg, 'C16.bayer', fi.qual, 'malvar green %s' % cfa, 'green plane is the green estimate with the raw samples at both green sites',
                  'the green plane is %s with the sites %s overwritten' % (planes[1].key(), show(greent)), fi.loc())
    # deinterlace
    fd = db.func(B + 'demosaic_deinterlace')
    from ..core.pattern import match_all
    okd = any(match_all(fd.node, ['V_r, V_g1, V_g2, V_b = decomposite_bayer(img, cfa)', avg, 'return np.stack([V_r, V_g, V_b], axis=2)'], ordered=True) is not None
              for avg in ('V_g = (V_g1 + V_g2) / 2', 'V_g = (V_g2 + V_g1) / 2', 'V_g = 0.5 * (V_g1 + V_g2)', 'V_g = (V_g1 + V_g2) * 0.5'))
    run.check(okd, 'C16.bayer', fd.qual, 'deinterlace', 'r, mean of the two greens, b stacked on the last axis',
              'demosaic_deinterlace no longer stacks [r, (g1+g2)/2, b]', fd.loc())


def cfa_passthrough_rules(run, db):
    """Every Bayer routine hands the caller's colour-filter layout to every Bayer routine it calls."""
    mod = db.module('prysm.bayer')
    n = 0
    for fi in mod.functions.values():
        if 'cfa' not in fi.params:
            continue
        for c in walk_no_nested(fi.node):
            if not (isinstance(c, ast.Call) and isinstance(c.func, ast.Name) and c.func.id in mod.functions):
                continue
            callee = mod.functions[c.func.id]
            if 'cfa' not in callee.params:
                continue
            n += 1
            pos = callee.params.index('cfa')
            arg = c.args[pos] if pos < len(c.args) and not any(isinstance(a, ast.Starred) for a in c.args[:pos + 1]) else None
            for k in c.keywords:
                if k.arg == 'cfa':
                    arg = k.value
            # the caller's layout itself, or a case-normalised spelling of it (cfa.lower()), possibly through a local bound to that
            def is_cfa(e, depth=0):
                if isinstance(e, ast.Name) and e.id == 'cfa':
                    return True
                if isinstance(e, ast.Call) and isinstance(e.func, ast.Attribute) and e.func.attr in ('lower', 'strip', 'casefold') and not e.args:
                    return is_cfa(e.func.value, depth)
                if isinstance(e, ast.Name) and depth < 3:
                    defs_ = [n_.value for n_ in walk_no_nested(fi.node) if isinstance(n_, ast.Assign) and any(isinstance(t_, ast.Name) and t_.id == e.id for t_ in n_.targets)]
                    return bool(defs_) and all(is_cfa(d_, depth + 1) for d_ in defs_)
                return False
            ok = arg is not None and is_cfa(arg)
            if not ok and not (arg is not None and isinstance(arg, ast.Constant)):
                # the callee is run with its default layout, or with something computed: that is wrong only if the caller does not
                # account for it (it may sort the planes out itself afterwards) -- what the caller returns for each layout is judged by
                # the plane rules; this reading of the call says nothing
                raise AnalysisError('%s: how the colour-filter layout reaches `%s` is not followed (it is not handed on as it is)' % (fi.qual, ast.unparse(c)[:80]))
            run.check(ok, 'C16.bayer', fi.qual, 'layout passed to %s' % callee.name, '%s passes its cfa on to %s' % (fi.name, callee.name),
                      '%s calls `%s` without its own cfa: the callee falls back to its default layout (rggb), so for bggr data the red and blue sites are exchanged' % (fi.name, ast.unparse(c)), fi.loc(c))
    if n < 2:
        raise AnalysisError('bayer: fewer than two layout pass-through call sites found (%d)' % n)


def accumulate_rules(run, db):
    """Binning by summation accumulates in NumPy's default (widened) accumulator, not in the input's dtype: decided on the `dtype` each
    reduction over the bin axes is handed, whatever way the reduction is reached."""
    from . import ftkernels as K
    from ..domains.index import Shaped, DTypeOf
    WIDE = {'float64', 'int64', 'uint64', 'longdouble', 'float128', 'complex128', 'double', 'float_', 'int_', 'intp', 'uint', 'float', 'int'}
    it, dom = K.mk(db, {})
    f = db.func(D + 'bindown')
    s0, s1, f0, f1 = [dom.integer(x) for x in ('s0', 's1', 'f0', 'f1')]
    for mode in ('sum', 'mean'):
        res = [p for p in it.run(f, kwargs=lambda: {'array': Shaped(Tup([s0, s1]), 'array'), 'factor': Tup([f0, f1]), 'mode': Const(mode)}) if p.outcome == 'return']
        ev = [e for p in res for e in p.events if e['kind'] == 'reduce']
        if not ev:
            raise AnalysisError("bindown(mode='%s'): no reduction over the bin axes is reached" % mode)
        for e in ev:
            dt = e.get('dtype')
            name = None
            if dt is None or (isinstance(dt, Const) and dt.v is None):
                ok, what = True, 'default'
            else:
                if type(dt).__name__ in ('ExtRef', 'BuiltinRef'):
                    name = (getattr(dt, 'dotted', None) or getattr(dt, 'name', '')).rsplit('.', 1)[-1]
                elif isinstance(dt, Const) and isinstance(dt.v, str):
                    name = dt.v
                if name is None and not isinstance(dt, DTypeOf):
                    raise AnalysisError("bindown(mode='%s'): accumulator type %r of the reduction is not followed" % (mode, dt))
                ok, what = (name in WIDE), (name or "the input array's own dtype")
            run.check(ok, 'C16.bin', f.qual, '%s accumulator' % e['which'], 'the %s over a bin is accumulated in the default (widened) type' % e['which'],
                      'the %s over a bin is pinned to the accumulator type %s: summing narrow integer frames (the uint8/uint16 output of expose) wraps around, so the binned total is not the '
                      'total of the bin and tile is no longer its adjoint' % (e['which'], what), f.loc(e['node']))


def live_state_rules(run, db):
    """The detector's container width and ADC ceiling are decided from the same, live bit depth."""
    from .purity import derived_attr_staleness
    ci = db.cls(D + 'Detector')
    res = derived_attr_staleness(ci)
    for fi, a, sattr, node in res:
        run.finding('C16.clamp', fi.qual, 'self.%s vs self.%s' % (a, sattr), '%s combines the live attribute self.%s with self.%s, which __init__ derived from it once: after `det.%s = ...` the two disagree '
                    '(e.g. the ADC ceiling of the new bit depth is cast into the container chosen for the old one)' % (fi.name, sattr, a, sattr), fi.loc(node))
    if not res:
        run.ok('C16.clamp', ci.qual, 'no method mixes a live attribute with a value derived from it at construction')
    # per-channel quantities are paired with planes obtained through the layout-aware helper
    f = db.func('prysm.bayer.wb_prescale')
    zips = [c for c in walk_no_nested(f.node) if isinstance(c, ast.Call) and isinstance(c.func, ast.Name) and c.func.id == 'zip' and any('saturation' in ast.unparse(a) for a in c.args)]
    if not zips:
        raise AnalysisError('wb_prescale: pairing of planes with saturation levels not found')
    defs = {}
    for n in walk_no_nested(f.node):
        if isinstance(n, ast.Assign) and isinstance(n.targets[0], ast.Name):
            defs.setdefault(n.targets[0].id, []).append(n.value)
    for z in zips:
        other = [a for a in z.args if 'saturation' not in ast.unparse(a)]
        ok = bool(other)
        for a in other:
            vals = defs.get(a.id, []) if isinstance(a, ast.Name) else [a]
            ok = ok and bool(vals) and all(isinstance(v, ast.Call) and ast.unparse(v.func) == 'decomposite_bayer' and any(isinstance(x, ast.Name) and x.id == 'cfa' for x in list(v.args) + [k.value for k in v.keywords]) for v in vals)
        run.check(ok, 'C16.bayer', f.qual, 'saturation pairing', 'the (r, g1, g2, b) saturation levels are paired with the planes decomposite_bayer(mosaic, cfa) returns in that colour order',
                  '`%s` pairs the per-colour saturation levels with %s, which is not the colour-ordered output of decomposite_bayer(mosaic, cfa): for bggr data red and blue levels are applied to each other\'s sites'
                  % (ast.unparse(z), [ast.unparse(a) for a in other]), f.loc(z))


def _unit_scale_path(p):
    """a path on which the code found its scale factor to be exactly 1 and skipped the multiplication (`if sf != 1:` not taken, or
    `if weight == 1: return` taken): the same thing as multiplying."""
    for c, t in p.conds:
        c = c.strip()
        if (t is False and re.match(r'^\w+\s*!=\s*1(\.0*)?$', c)) or (t is True and re.match(r'^\w+\s*==\s*1(\.0*)?$', c)):
            return True
    return False


def bin_rules(run, db):
    from . import ftkernels as K
    from ..domains.index import Shaped
    it, dom = K.mk(db, {})
    R = dom.R
    f = db.func(D + 'bindown')
    s0, s1, f0, f1 = [dom.integer(x) for x in ('s0', 's1', 'f0', 'f1')]
    for mode, red in (('avg', 'mean'), ('average', 'mean'), ('mean', 'mean'), ('sum', 'sum')):
        res = [p for p in it.run(f, kwargs=lambda: {'array': Shaped(Tup([s0, s1]), 'array'), 'factor': Tup([f0, f1]), 'mode': Const(mode)}) if p.outcome == 'return']
        if len(res) != 1:
            raise AnalysisError('bindown(%s): expected one path' % mode)
        ev = [e for e in res[0].events if e['kind'] == 'reduce']
        if not ev and not isinstance(res[0].value, Shaped):
            raise AnalysisError("bindown(mode='%s'): how the bins are reduced is not followed (%r)" % (mode, res[0].value))
        ok = len(ev) == 1
        kind_read = ok and ev[0]['which'] == red
        detail = 'reductions: %s' % [(e['which'], e['axes']) for e in ev]
        if ok:
            lens = [dom.rat(x) for x in ev[0]['lengths']]
            if any(l is None for l in lens):
                raise AnalysisError("bindown(mode='%s'): the lengths of the axes that are reduced are not followed (the (s//f, f) view is built in a way this rule does not read)" % mode)
            ok = len(lens) == 2 and lens[0] == dom.rat(f0) and lens[1] == dom.rat(f1)
            detail = 'reduced axis lengths %s' % [l.key() if l is not None else None for l in lens]
            v = res[0].value
            if ok:
                want = [dom.floordiv(dom.rat(s0), dom.rat(f0), None), dom.floordiv(dom.rat(s1), dom.rat(f1), None)]
                ok = isinstance(v, Shaped) and len(v.shape.items) == 2 and all(dom.rat(a) == dom.rat(b) for a, b in zip(v.shape.items, want))
                detail = 'result shape %r' % (v,)
        if ok and not kind_read:
            # the right axes are reduced, by something other than ndarray.%s (a sum scaled afterwards, a contraction): what the bins
            # come to is a matter of values, not of the name of the reduction
            raise AnalysisError("bindown(mode='%s'): the bins are reduced by %s and whatever arithmetic follows, not by the reduction named %s: not read here" % (mode, ev[0]['which'], red))
        run.check(ok, 'C16.bin', f.qual, "bindown mode '%s'" % mode, "mode '%s' takes the %s over exactly the factor-sized axes of the (s//f, f) view" % (mode, red),
                  "bindown(mode='%s') does not take the %s over the factor axes: %s" % (mode, red, detail), f.loc())
    # scalar factor is broadcast to every axis
    res = [p for p in it.run(f, kwargs=lambda: {'array': Shaped(Tup([s0, s1]), 'array'), 'factor': dom.integer('f'), 'mode': Const('sum')}) if p.outcome == 'return']
    ev = [e for p in res for e in p.events if e['kind'] == 'reduce']
    ok = bool(ev) and all(dom.rat(x) == dom.rat(dom.integer('f')) for x in ev[0]['lengths']) and len(ev[0]['lengths']) == 2
    run.check(ok, 'C16.bin', f.qual, 'scalar factor', 'a scalar factor bins every axis', 'a scalar bin factor is not applied to every axis', f.loc())
    # rank 3: every axis' factor takes part
    s2, f2 = dom.integer('s2'), dom.integer('f2')
    ft = db.func(D + 'tile')
    res3 = [p for p in it.run(ft, kwargs=lambda: {'array': Shaped(Tup([s0, s1, s2]), 'array'), 'factor': Tup([f0, f1, f2]), 'scaling': Const('sum')}) if p.outcome == 'return']
    ok3 = False
    got3 = None
    for p in res3:
        if _unit_scale_path(p):
            continue
        v = p.value
        if isinstance(v, Shaped) and v.origin is not None and v.origin[0] == 'scale' and v.origin[1] == 'Mult':
            got3 = dom.rat(v.origin[3])
            ok3 = got3 is not None and got3 == 1 / (dom.rat(f0) * dom.rat(f1) * dom.rat(f2))
    run.check(ok3, 'C16.bin', ft.qual, "tile scaling 'sum' rank 3", "for a rank-3 array the 'sum' scale is 1/(f0 f1 f2): the total is conserved on every axis",
              "tile(scaling='sum') scales a rank-3 array by %s instead of 1/(f0 f1 f2): totals are not conserved when a leading axis is tiled" % (got3.key() if got3 is not None else 'nothing'), ft.loc())
    fb = db.func(D + 'bindown')
    r3 = [p for p in it.run(fb, kwargs=lambda: {'array': Shaped(Tup([s0, s1, s2]), 'array'), 'factor': Tup([f0, f1, f2]), 'mode': Const('sum')}) if p.outcome == 'return']
    ev3 = [e for p in r3 for e in p.events if e['kind'] == 'reduce']
    okb = len(ev3) == 1 and [dom.rat(x) for x in ev3[0]['lengths']] == [dom.rat(f0), dom.rat(f1), dom.rat(f2)]
    run.check(okb, 'C16.bin', fb.qual, 'bindown rank 3', 'for a rank-3 array all three factor axes are reduced', 'bindown does not reduce all factor axes of a rank-3 array', fb.loc())
    f = db.func(D + 'tile')
    for scaling, want_sf in (('sum', 1 / (dom.rat(f0) * dom.rat(f1))), ('avg', None), ('average', None), ('mean', None)):
        res = [p for p in it.run(f, kwargs=lambda: {'array': Shaped(Tup([s0, s1]), 'array'), 'factor': Tup([f0, f1]), 'scaling': Const(scaling)}) if p.outcome == 'return']
        if not res:
            raise AnalysisError('tile(%s): no returning path' % scaling)
        for p in res:
            if _unit_scale_path(p) and want_sf is not None:
                continue        # sf == 1 (unit factors): skipping the multiplication is the same thing
            v = p.value
            sf = None
            inner = v
            if isinstance(v, Shaped) and v.origin is not None and v.origin[0] == 'scale':
                _, op, inner, scalar, left = v.origin
                sf = dom.rat(scalar) if op == 'Mult' else None
            bc = [e for e in p.events if e['kind'] == 'broadcast']
            rs = [e for e in p.events if e['kind'] == 'reshape']
            ok = len(bc) == 1 and len(rs) == 1
            detail = 'broadcast/reshape structure not found'
            if ok:
                src = bc[0]['target'].shape.items
                dst = bc[0]['shape'].items
                okb = len(src) == 4 and len(dst) == 4 and [dom.rat(x) for x in dst] == [dom.rat(z) for z in (s0, f0, s1, f1)] \
                    and dom.rat(src[0]) == dom.rat(s0) and dom.rat(src[2]) == dom.rat(s1) and dom.rat(src[1]) == 1 and dom.rat(src[3]) == 1
                out = rs[0]['shape'].items
                oko = len(out) == 2 and dom.rat(out[0]) == dom.rat(s0) * dom.rat(f0) and dom.rat(out[1]) == dom.rat(s1) * dom.rat(f1)
                ok = okb and oko
                detail = 'view %s -> %s -> %s' % ([dom.key(x) for x in src], [dom.key(x) for x in dst], [dom.key(x) for x in out])
            if ok:
                if want_sf is None:
                    ok = sf is None or sf == 1
                else:
                    ok = sf is not None and sf == want_sf
                detail = 'scale factor %s' % (sf.key() if sf is not None else 'none')
            run.check(ok, 'C16.bin', f.qual, "tile scaling '%s'" % scaling,
                      "scaling '%s': each sample is repeated over an (f0, f1) block%s (the transpose of bindown's view)" % (scaling, ' and scaled by 1/(f0 f1): totals are conserved' if want_sf is not None else ': levels are conserved'),
                      "tile(scaling='%s') is not the transpose of the bindown view with the documented scale: %s" % (scaling, detail), f.loc())


def check(run, db, tier):
    run.trust('NORM for the clamp expressions; literal-table extraction from the if-chains on the CFA name; constant folding of the Malvar kernels',
              'reference layouts rggb = (R, G1 / G2, B), bggr = (B, G1 / G2, R); Malvar-He-Cutler estimate placement')
    run.assume('not decided: monotonicity in the presence of noise, conservation to round-off (values)')
    run.rule('C16.clamp', 'ADC ceiling is 2**bits - 1 and the floor 0, both applied before the unsigned cast; container width >= bits; full-well clip before the gain; DN = e/gain')
    run.rule('C16.bayer', 'site slices partition the 2x2 cell; every function maps colours to the same sites for both layouts; demosaicking copies raw samples at native sites')
    run.rule('C16.kernel', 'each Malvar kernel sums to one after its normalisation')
    run.rule('C16.bin', "bindown reduces the factor axes with mean/sum; tile scales by 1/prod(factor) ('sum') or 1 ('avg'); the two views are transposes")
    # binning / tiling and the Bayer routines decided on values first (small concrete arrays of symbolic samples): every output sample
    # is a rational-linear form in the input samples.  The readings of the code below defer to that where they cannot read the organisation.
    from .c16values import bin_value_rules, bayer_value_rules, wb_value_rules, expose_shape_value_rules
    run.group(expose_shape_value_rules, run, db)
    decided = {'bin': run.group(bin_value_rules, run, db), 'bayer': run.group(bayer_value_rules, run, db)}
    run.group(wb_value_rules, run, db)

    def reading(fn, key):
        def rule(run, db):
            try:
                return fn(run, db)
            except AnalysisError as e:
                if not decided.get(key):
                    raise
                run.info('%s does not read this organisation of the routines (%s); decided on values (%d cases)' % (fn.__name__, str(e)[:140], decided[key]))
        rule.__name__ = fn.__name__
        return rule
    for fn in (clamp_rules, live_state_rules, reading(bayer_rules, 'bayer'), reading(cfa_passthrough_rules, 'bayer'), reading(bin_rules, 'bin'), accumulate_rules):
        run.group(fn, run, db)
    run.forgive('bin_value_rules', ['bin_rules'])
    run.forgive('bayer_value_rules', ['bayer_rules', 'cfa_passthrough_rules'])
    run.forgive('wb_value_rules', ['bayer_rules', 'bin_rules'])
    run.forgive('expose_shape_value_rules', ['clamp_rules'])
    run.require_instances('C16.bayer', 15)
    run.require_instances('C16.kernel', 4)
    run.require_instances('C16.clamp', 7)
