"""Table laws for the two-index sequence functions (C08.table2 / C08.qseq).

The sequence functions build per-key tables in one loop and look them up in another.  The building loops are interpreted
for a symbolic key, which gives every table a *law* (entry as a NORM expression of the key, or an index law for lists);
the consuming loop is then interpreted for a symbolic request with the tables replaced by their laws, and the value it
stores is compared with what the single-term function returns for the same request.
"""
import ast

from ..core.db import AnalysisError, norm_stmt, walk_no_nested
from ..core.interp import Interp, Value, Const, Tup, Unknown, DictV, Frame
from ..core.norm import Rat, _rat
from ..domains.normdom import ArrNormDomain, NormDomain, Sym, install_pi
from .common import loop_as_function, snapshot_loops, loop_carried, as_rat

P = 'prysm.polynomials.'


class Law(Value):
    """A table given by its law: subscript(key) -> value."""

    def __init__(self, fn, label=''):
        self.fn, self.label = fn, label

    def __repr__(self):
        return 'Law<%s>' % self.label


class TableDomain(NormDomain):
    """NORM + table laws + declared-positive atoms + capture of stores into the output array."""
    name = 'TABLE'

    def __init__(self, positive=()):
        NormDomain.__init__(self)
        self.positive = set(positive)
        self.stores = []

    # sign knowledge ------------------------------------------------------
    def _sign(self, r):
        """+1 / -1 if r is a positive multiple / negative multiple of a product of positive atoms, 0 if zero, else None."""
        if r.is_zero():
            return 0
        if not r.den.is_const() or len(r.num.t) != 1:
            return None
        (m, c), = r.num.t.items()
        if all(a in self.positive for a, _ in m):
            c = c / r.den.const_value()
            return 1 if c > 0 else -1
        return None

    def compare(self, op, a, b, node):
        ra, rb = self.rat(a), self.rat(b)
        if ra is not None and rb is not None:
            s = self._sign(ra - rb)
            if s is not None:
                import operator
                return {ast.Eq: operator.eq, ast.NotEq: operator.ne, ast.Lt: operator.lt, ast.LtE: operator.le,
                        ast.Gt: operator.gt, ast.GtE: operator.ge}[type(op)](s, 0)
        return NormDomain.compare(self, op, a, b, node)

    def call_ext(self, dotted, args, kwargs, node):
        a0 = args[0] if args else None
        if dotted in ('builtins.abs', 'numpy.abs', 'numpy.absolute') and a0 is not None:
            r = self.rat(a0)
            if r is not None:
                s = self._sign(r)
                if s is not None:
                    return self.lift(r if s >= 0 else -r)
        if dotted in ('builtins.list', 'builtins.tuple') and isinstance(a0, Law):
            return a0
        if dotted == 'numpy.arange' and len(args) == 1 and self.rat(a0) is not None:
            return Law(lambda j: j, 'arange(0, %s)' % self.rat(a0).key())
        if dotted == 'numpy.arange' and len(args) == 2 and self.rat(a0) is not None and self.rat(args[1]) is not None and self.rat(a0).is_zero():
            return Law(lambda j: j, 'arange(0, %s)' % self.rat(args[1]).key())
        if dotted == 'builtins.range' and len(args) == 1 and self.rat(a0) is not None and isinstance(a0, Sym):
            return Law(lambda j: j, 'range(0, %s)' % self.rat(a0).key())
        if dotted == 'numpy.empty':
            return self.sym('out')
        return NormDomain.call_ext(self, dotted, args, kwargs, node)

    def subscript(self, v, idx, node):
        if isinstance(v, Law):
            return v.fn(idx)
        return NormDomain.subscript(self, v, idx, node)

    def store_subscript(self, target, idx, val, node):
        if isinstance(target, Sym) and target.r.key() == 'out':
            self.stores.append((idx, val, node, list(self.interp.conds)))
            return True
        return NormDomain.store_subscript(self, target, idx, val, node)


def mk(db, positive=(), atoms=(), seqs=('jacobi_seq', 'Qbfs_seq')):
    dom = TableDomain(positive)
    it = install_pi(Interp(db, dom))
    names = set(atoms)

    def call_prysm(fi, args, kwargs, node):
        if fi.name in names:
            return dom.func_atom(fi.name, list(args))
        if fi.name in seqs and args and isinstance(args[0], Law):
            ns, rest = args[0], list(args[1:])
            base = fi.name[:-4]
            return Law(lambda j: dom.func_atom(base, [ns.fn(j)] + rest), '%s over %s' % (fi.name, ns.label))
        return None
    dom.call_prysm = call_prysm
    return it, dom


def subst_value(dom, v, name, key):
    """v with the atom `name` replaced by the value `key` (Sym/Const), through laws."""
    if isinstance(v, Law):
        return Law(lambda j, v=v: subst_value(dom, v.fn(j), name, key), v.label)
    r = dom.rat(v)
    if r is None:
        return v
    kr = dom.rat(key)
    if kr is None:
        return Unknown('table key outside NORM')
    return dom.lift(r.subs({name: kr}))


class HistoryDependent(Exception):
    """A table-building loop carries state from one key to the next: an entry depends on which other keys are present."""

    def __init__(self, loop, names):
        Exception.__init__(self, 'table entries depend on loop history through %s' % names)
        self.loop, self.names = loop, names


def table_law(db, fi, loop, dom_factory, key_name, presets, table_names):
    """Interpret one iteration of a table-building loop for a symbolic key.

    presets: {name: callable(dom) -> Value} for the names the body reads; table_names: dicts written by the body.
    Returns (dom, {table: entry value as an expression of the atom `key_name`})."""
    carried = sorted(loop_carried(loop) - set(table_names))
    if carried:
        raise HistoryDependent(loop, carried)
    step, params = loop_as_function(fi, loop, [])
    it, dom = dom_factory()
    tables = {}
    presets = dict(presets)
    if isinstance(loop, ast.For) and isinstance(loop.target, ast.Name):
        presets[loop.target.id] = lambda d: d.sym(key_name)          # the loop variable is the key, whatever it is called

    def kw():
        d = {}
        for p in params:
            if p in table_names and p not in presets:
                tables[p] = DictV()
                d[p] = tables[p]
            elif p in presets:
                d[p] = presets[p](dom)
                if p in table_names:
                    tables[p] = d[p]
            else:
                d[p] = dom.sym(p)
        return d
    res = [q for q in it.run(step, kwargs=kw) if q.outcome == 'return']
    if len(res) != 1:
        raise AnalysisError('%s: table-building loop at line %d has %d paths for a symbolic key' % (fi.qual, loop.lineno, len(res)))
    out = {}
    key = dom.sym(key_name)
    for t in table_names:
        if t not in tables:
            raise AnalysisError('%s: table %s is not written by the loop at line %d' % (fi.qual, t, loop.lineno))
        v = tables[t].get(key)
        if v is None:
            raise AnalysisError('%s: loop at line %d does not store %s[%s]' % (fi.qual, loop.lineno, t, key_name))
        out[t] = v
    return dom, out


# --------------------------------------------------------------------------
ZERNIKE_REQUESTS = (
    [(2, 2), (2, -2), (4, 2), (3, 1), (5, 5), (4, 0)],                       # gaps in |m|, both signs, m = 0 last
    [(0, 0), (1, 1), (1, -1), (2, 0), (2, 2), (2, -2), (3, 1), (3, -1)],     # the dense low-order set
    [(5, 5)],                                                                # one request, highest |m| only
    [(3, 3), (3, 1), (2, 0), (6, -4), (6, -4), (8, 2)],                      # unsorted, duplicated, skipped radial orders
    [(6, 0), (2, 0), (4, 0), (5, 1), (3, -1), (1, 1)],                       # radial orders descending within one |m|
)


def zernike_requests_rules(run, db, rule='C08.table2'):
    """zernike_nm_seq decided for fixed request lists and symbolic coordinates: the function is interpreted with the requests as
    concrete integers (its bookkeeping -- tables per |m|, running indices -- is executed exactly) and r, t as symbols, jacobi /
    jacobi_seq summarised as the Jacobi polynomial of their arguments; slot i must equal what zernike_nm returns for request i,
    with and without normalisation.  Bounded (these request lists), but independent of how the function is organised."""
    from .common import norm_interp
    Z = P + 'zernike.'
    f, one = db.func(Z + 'zernike_nm_seq'), db.func(Z + 'zernike_nm')

    class Out(Value):
        def __init__(self):
            self.rows = {}

    def mk_interp():
        it, dom = norm_interp(db)
        oe, os_, op_ = dom.call_ext, dom.store_subscript, dom.call_prysm

        def call_ext(dotted, args, kwargs, node):
            if dotted in ('numpy.empty', 'numpy.zeros', 'numpy.empty_like', 'numpy.zeros_like'):
                return Out()
            if dotted in ('numpy.stack', 'numpy.array', 'numpy.asarray') and args and isinstance(args[0], Tup) and args[0].items and all(dom.rat(x) is not None for x in args[0].items) \
                    and not all(isinstance(x, Const) for x in args[0].items):
                o = Out()
                o.rows = {k: [v] for k, v in enumerate(args[0].items)}
                return o
            return oe(dotted, args, kwargs, node)

        def store_subscript(target, idx, val, node):
            if isinstance(target, Out):
                if isinstance(idx, Const) and isinstance(idx.v, int):
                    target.rows.setdefault(idx.v, []).append(val)
                    return True
                raise AnalysisError('zernike_nm_seq: a mode is stored at a slot that is not followed (%r)' % (idx,))
            return os_(target, idx, val, node)

        def call_prysm(fi, args, kwargs, node):
            if fi.name == 'jacobi_seq' and fi.module.name.endswith('jacobi'):
                b = bind_call(fi, args, kwargs)
                ns = it.iterate(b.get('ns'), node)
                if ns is None:
                    return Unknown('jacobi_seq over orders that are not followed')
                # jacobi_seq sweeps the orders upwards once and stores a row when the next requested order is reached: rows whose order
                # is not above every order before it are never written (the pinned behaviour, C08.emit)
                out, last = [], None
                for k_, n_ in enumerate(ns):
                    if not (isinstance(n_, Const) and isinstance(n_.v, int)):
                        return Unknown('jacobi_seq over orders that are not concrete')
                    if last is None or n_.v > last:
                        out.append(dom.func_atom('Jacobi', [n_, b.get('alpha'), b.get('beta'), b.get('x')]))
                        last = n_.v
                    else:
                        out.append(dom.sym('UNWRITTEN_row_of_jacobi_seq_given_orders_%s' % '_'.join(str(z.v) for z in ns)))
                return Tup(out, 'list')
            if fi.name == 'jacobi' and fi.module.name.endswith('jacobi'):
                b = bind_call(fi, args, kwargs)
                return dom.func_atom('Jacobi', [b.get('n'), b.get('alpha'), b.get('beta'), b.get('x')])
            return op_(fi, args, kwargs, node) if op_ else None
        dom.call_ext, dom.store_subscript, dom.call_prysm = call_ext, store_subscript, call_prysm
        return it, dom
    from .common import bind_call
    n_ok = 0
    for reqs in ZERNIKE_REQUESTS:
        for norm in (True, False):
            it, dom = mk_interp()
            res = [q for q in it.run(f, kwargs=lambda: {f.params[0]: Tup([Tup([Const(a), Const(b)]) for a, b in reqs], 'list'), 'r': dom.sym('r'), 't': dom.sym('t'), 'norm': Const(norm)})
                   if q.outcome == 'return']
            if len(res) != 1:
                raise AnalysisError('zernike_nm_seq%s: expected one path for concrete requests, got %d' % (reqs, len(res)))
            out = res[0].value
            if isinstance(out, Tup):
                rows = {k: [v] for k, v in enumerate(out.items)}
            elif isinstance(out, Out):
                rows = out.rows
            else:
                raise AnalysisError('zernike_nm_seq%s: the returned array is not followed (%r)' % (reqs, out))
            bad = []
            for k, (n_, m_) in enumerate(reqs):
                ref = [q for q in it.run(one, kwargs=lambda: {'n': Const(n_), 'm': Const(m_), 'r': dom.sym('r'), 't': dom.sym('t'), 'norm': Const(norm)}) if q.outcome == 'return']
                if len(ref) != 1 or dom.rat(ref[0].value) is None:
                    raise AnalysisError('zernike_nm(%d, %d): reference value is not followed' % (n_, m_))
                want = dom.rat(ref[0].value)
                got = [dom.rat(v) for v in rows.get(k, [])]
                if len(got) != 1 or got[0] is None:
                    bad.append('slot %d (request (%d, %d)) is written %d times%s' % (k, n_, m_, len(got), '' if got else ' -- the mode is missing'))
                elif not (got[0] == want):
                    bad.append('slot %d holds %s, zernike_nm(%d, %d) is %s' % (k, got[0].key()[:120], n_, m_, want.key()[:120]))
            extra = sorted(set(rows) - set(range(len(reqs))))
            if extra:
                bad.append('slots %s beyond the requests are written' % extra)
            n_ok += 1
            run.check(not bad, rule, f.qual, 'requests %s norm=%s' % (reqs, norm), 'slot i of zernike_nm_seq(%s) equals zernike_nm of request i (norm=%s)' % (reqs, norm),
                      'zernike_nm_seq(%s, norm=%s): %s' % (reqs, norm, '; '.join(bad[:3])), f.loc())
    return n_ok


def zernike_rules(run, db, rule='C08.table2'):
    """the general (symbolic request) decision when the function has the table-building shape it knows; the fixed-request decision
    always, and alone when it has another shape."""
    decided = zernike_requests_rules(run, db, rule)
    try:
        _zernike_table_rules(run, db, rule)
    except AnalysisError:
        if not decided:
            raise
        run.credit(rule, 19, 'zernike_nm_seq: the table-law decision does not apply to this organisation of the function; decided for %d fixed request lists' % decided)


def _zernike_table_rules(run, db, rule='C08.table2'):
    from ..core.pattern import match_all
    Z = P + 'zernike.'
    f = db.func(Z + 'zernike_nm_seq')
    one = db.func(Z + 'zernike_nm')
    loops = [n for n in f.node.body if isinstance(n, ast.For)]
    if len(loops) != 5:
        raise AnalysisError('zernike_nm_seq: expected five top-level loops (max, arange, tables, azimuthal tables, requests), found %d' % len(loops))
    Lmax, Lar, Ltab, Laz, Lmain = loops
    factory = lambda: mk(db, positive=('m', 'mm', 'k'), atoms=('jacobi',))          # zernike_norm is inlined: it depends on m only through m == 0
    # names by role: the request list is the first parameter; everything else is read off the loop headers and stores
    NMS = f.params[0]
    pre = match_all(f.node, ['V_ms = [V_e[1] for V_e in %s]' % NMS, 'V_am = truenp.abs(V_ms)', 'V_amu = truenp.unique(V_am)'])
    tg = [e.id for e in Lmax.target.elts] if isinstance(Lmax.target, ast.Tuple) and all(isinstance(e, ast.Name) for e in Lmax.target.elts) else []
    okzip = pre is not None and len(tg) == 2 and ast.unparse(Lmax.iter).replace(' ', '') == 'zip(%s,%s)' % (NMS, pre['V_am'])
    mx = match_all(Lmax.body, ['if V_nj > V_T[%s]:\n    V_T[%s] = V_nj' % (tg[1], tg[1])]) if len(tg) == 2 else None
    if mx is None and len(tg) == 2:
        mx = match_all(Lmax.body, ['V_T[%s] = max(V_T[%s], V_nj)' % (tg[1], tg[1])]) or match_all(Lmax.body, ['V_T[%s] = max(V_nj, V_T[%s])' % (tg[1], tg[1])])
    if mx is None or not okzip:
        run.check(False, rule, f.qual, 'per-|m| maximum', 'the table length per |m| is the maximum of (n - |m|)//2 over the requests with that |m| (request i is paired with its own |m_i|)',
                  'the per-|m| Jacobi table length is no longer max((n-|m|)//2) over the paired requests', f.loc(Lmax))
        return
    TMAX, NJ = mx['V_T'], mx['V_nj']
    # 1. the per-|m| maximum: the candidate is (n - |m_i|)//2 of request i, and the body leaves T[|m_i|] = max(old, candidate)
    stepf, params = loop_as_function(f, Lmax, [TMAX, NJ])
    it, dom = factory()

    def kw():
        d = {p: dom.sym(p) for p in params}
        t_ = DictV()
        t_.set(dom.sym('am_'), dom.sym('old'))
        d[TMAX] = t_
        d[tg[0]] = Tup([dom.sym('n'), dom.sym('m0')])
        d[tg[1]] = dom.sym('am_')
        d[NJ] = Const(None)
        return d
    res = [q for q in it.run(stepf, kwargs=kw) if q.outcome == 'return']
    n_, am_ = Rat(dom.R.atom('n')), Rat(dom.R.atom('am_'))
    want_nj = dom.rat(dom.floordiv(n_ - am_, Rat(dom.R.const(2)), None))
    finals = set()
    oknj = bool(res)
    for q in res:
        tbl, njv = q.value.items
        ent = tbl.get(dom.sym('am_')) if isinstance(tbl, DictV) else None
        finals.add(dom.rat(ent).key() if ent is not None and dom.rat(ent) is not None else '?')
        oknj = oknj and dom.rat(njv) is not None and dom.rat(njv) == want_nj
    okmax = oknj and finals <= {want_nj.key(), 'old'} and want_nj.key() in finals
    run.check(okmax and okzip, rule, f.qual, 'per-|m| maximum', 'the table length per |m| is the maximum of (n - |m|)//2 over the requests with that |m| (request i is paired with its own |m_i|)',
              'the per-|m| Jacobi table length is no longer max((n-|m|)//2) over the paired requests (candidate / resulting entries: %s)' % sorted(finals), f.loc(Lmax))
    # the tables each loop writes
    keyname = lambda lp: lp.target.id if isinstance(lp.target, ast.Name) else None
    if not all(keyname(lp) for lp in (Lar, Ltab, Laz)):
        raise AnalysisError('zernike_nm_seq: a table loop does not iterate over single keys')
    Tar, Ttab, Taz = _store_bases(Lar, keyname(Lar)), _store_bases(Ltab, keyname(Ltab)), _store_bases(Laz, keyname(Laz))
    if Tar != [TMAX] or len(Ttab) != 1 or len(Taz) != 3:
        raise AnalysisError('zernike_nm_seq: expected the order table, one Jacobi table and three azimuthal/radial tables; found %s / %s / %s' % (Tar, Ttab, Taz))
    alltabs = set(Tar) | set(Ttab) | set(Taz)
    first = True
    for lp_ in (Lar, Ltab, Laz):
        carried = sorted(loop_carried(lp_) - alltabs)
        run.check(not carried, rule, f.qual, 'table loop #%d' % (1 + [Lar, Ltab, Laz].index(lp_)), 'every table entry is computed from its own key only (no value carried from one key to the next)',
                  'the table-building loop `%s` carries %s from one key to the next: an entry then depends on which OTHER azimuthal orders were requested (e.g. r**|m| built by one multiply per distinct |m| '
                  'is wrong as soon as the requested |m| have a gap)' % (norm_stmt(lp_)[:60], carried), f.loc(lp_))
        if carried:
            return
    okkeys = ast.unparse(Lar.iter) == TMAX and ast.unparse(Ltab.iter) == TMAX and ast.unparse(Laz.iter) == pre['V_amu']
    kctr = _slot_counter(f)
    outs = _store_bases(Lmain, kctr)
    mt = Lmain.target
    if len(outs) != 1 or not (isinstance(mt, ast.Tuple) and len(mt.elts) == 2 and all(isinstance(e, ast.Name) for e in mt.elts)):
        raise AnalysisError('zernike_nm_seq: the request loop is not `for n, m in nms` storing into one output array')
    RN, RM, OUT = mt.elts[0].id, mt.elts[1].id, outs[0]
    for label, mk_m in (('m = 0', lambda d: Const(0)), ('m > 0', lambda d: d.sym('m')), ('m < 0', lambda d: Sym(-d.sym('mm').r))):
        for norm in (True, False):
            it, dom = factory()
            same = lambda: (it, dom)
            # 2. orders 0..max
            _, law = table_law(db, f, Lar, same, 'k', {TMAX: lambda d: _dict(d, 'k', d.sym('njmax'))}, [TMAX])
            ar = law[TMAX]
            # 3. the Jacobi tables; 4. azimuthal / radial tables
            snaps = snapshot_loops(it, dom)
            it.run(f, kwargs=lambda: {'nms': dom.sym('nms'), 'r': dom.sym('r'), 't': dom.sym('t'), 'norm': Const(norm)})
            dom.loop = lambda node, frame: False
            envs = [sn.env for sn in snaps if sn.node is Ltab]
            if not envs:
                raise AnalysisError('zernike_nm_seq: the Jacobi table loop was not reached')
            locs = {k: v for k, v in envs[0].items() if k not in f.params and isinstance(v, Value) and dom.rat(v) is not None}
            pres3 = {k: (lambda d, v=v: v) for k, v in locs.items()}
            pres3[TMAX] = lambda d: _dict(d, 'k', Law(lambda j: j, 'arange'))
            _, law3 = table_law(db, f, Ltab, same, 'k', pres3, Ttab)
            pres4 = {k: (lambda d, v=v: v) for k, v in locs.items()}
            _, law4 = table_law(db, f, Laz, same, 'kk', pres4, Taz)
            if first:
                first = False
                run.check(isinstance(ar, Law) and ar.label == 'arange(0, (1 + njmax))', rule, f.qual, 'order list', 'the Jacobi orders of table |m| are 0, 1, ..., max (contiguous from 0, so list index == order)',
                          'the per-|m| order list is %r, expected arange(max+1)' % (ar,), f.loc(Lar))
                run.check(okkeys, rule, f.qual, 'key set', 'the radial/azimuthal tables are filled for every distinct |m| requested',
                          'radial/azimuthal tables are not filled over unique(|m|)', f.loc(Laz))
            # 5. the request loop against the single-term function
            mval = mk_m(dom)

            def tab(entry, keyname):
                return Law(lambda key, entry=entry: subst_value(dom, entry, keyname, key), keyname)
            stepf, params = loop_as_function(f, Lmain, [kctr])
            kwv = {}
            for p_ in params:
                kwv[p_] = locs.get(p_, dom.sym(p_))
            kwv.update({RN: dom.sym('n'), RM: mval, kctr: dom.sym('k'), 'norm': Const(norm), OUT: dom.sym('out')})
            kwv[Ttab[0]] = tab(law3[Ttab[0]], 'k')
            for t_ in Taz:
                kwv[t_] = tab(law4[t_], 'kk')
            dom.stores = []
            res = [q for q in it.run(stepf, kwargs=lambda: dict(kwv)) if q.outcome == 'return']
            if len(res) != 1 or len(dom.stores) != 1:
                raise AnalysisError('zernike_nm_seq request loop (%s, norm=%s): %d paths, %d stores' % (label, norm, len(res), len(dom.stores)))
            idx, val, node, _ = dom.stores[0]
            kout = res[0].value.items[0]
            got = as_rat(dom, val, 'stored mode')
            ref = [q for q in it.run(one, kwargs=lambda: {'n': dom.sym('n'), 'm': mval, 'r': dom.sym('r'), 't': dom.sym('t'), 'norm': Const(norm)}) if q.outcome == 'return']
            if len(ref) != 1:
                raise AnalysisError('zernike_nm (%s): %d paths' % (label, len(ref)))
            want = as_rat(dom, ref[0].value, 'zernike_nm')
            run.check(got == want, rule, f.qual, 'mode value %s norm=%s' % (label, norm), 'the stored mode equals zernike_nm(n, m, r, t, norm=%s) [%s] through the table laws' % (norm, label),
                      'zernike_nm_seq stores %s for a request (n, m) with %s, norm=%s; zernike_nm returns %s' % (got.key(), label, norm, want.key()), f.loc(node))
            ki, ko = dom.rat(idx), dom.rat(kout)
            run.check(ki is not None and ko is not None and ki == Rat(dom.R.atom('k')) and ko == Rat(dom.R.atom('k')) + 1, rule, f.qual, 'slot %s norm=%s' % (label, norm),
                      'request i is stored in slot i (the counter advances once per request)', 'the mode is stored in slot %s and the counter becomes %s' % (ki.key() if ki is not None else '?', ko.key() if ko is not None else '?'), f.loc(node))
    run.check(ast.unparse(Lmain.iter) == NMS, rule, f.qual, 'request order', 'requests are walked in the order given', 'the request loop no longer walks nms in order', f.loc(Lmain))


def _dict(dom, keyname, value):
    d = DictV()
    d.set(dom.sym(keyname), value)
    return d


# --------------------------------------------------------------------------
def _uniq_stores(dom):
    seen, out = set(), []
    for idx, val, node, conds in dom.stores:
        k = (node.lineno, repr(idx), repr(val), tuple(conds))
        if k not in seen:
            seen.add(k)
            out.append((idx, val, node, conds))
    return out


def _run_step(it, dom, stepf, params, given):
    kw = {p: given[p] if p in given else dom.sym(p) for p in params}
    dom.stores = []
    res = [q for q in it.run(stepf, kwargs=lambda: dict(kw)) if q.outcome == 'return']
    return res


def _slot_counter(fi):
    """the running output index of a sequence function: the one local that is advanced by `+= 1` and used as the
    subscript of a store (whatever it is called)."""
    aug = {n.target.id for n in ast.walk(fi.node) if isinstance(n, ast.AugAssign) and isinstance(n.target, ast.Name) and isinstance(n.op, ast.Add)
           and isinstance(n.value, ast.Constant) and n.value.value == 1}
    used = set()
    for n in ast.walk(fi.node):
        if isinstance(n, ast.Assign):
            for t in n.targets:
                if isinstance(t, ast.Subscript) and isinstance(t.slice, ast.Name):
                    used.add(t.slice.id)
    c = sorted(aug & used)
    if len(c) != 1:
        raise AnalysisError('%s: expected one running output index (advanced by += 1 and used as a store subscript), found %s' % (fi.qual, c))
    return c[0]


def _fixed_then(run, db, rule, which, general, credit):
    """the fixed-request decision always; the general (symbolic request) decision when the function has the organisation it knows"""
    from . import fixedorders
    try:
        decided, ferr = fixedorders.q_fixed_rules(run, db, rule, which), None
    except (AnalysisError, RecursionError) as e:
        decided, ferr = 0, e
    try:
        general(run, db, rule)
    except AnalysisError as e:
        if not decided:
            raise AnalysisError('%s; and the fixed request lists are not followed either: %s' % (e, ferr))
        run.credit(rule, credit, '%s: the general decision does not apply to this organisation of the function (%s); decided for %d fixed request lists' % (which, str(e)[:140], decided))


def qbfs_seq_rules(run, db, rule='C08.qseq'):
    _fixed_then(run, db, rule, 'Qbfs_seq', _qbfs_seq_sweep_rules, 31)


def q2d_seq_rules(run, db, rule='C08.qseq'):
    _fixed_then(run, db, rule, 'Q2d_seq', _q2d_seq_table_rules, 26)


def _qbfs_seq_sweep_rules(run, db, rule='C08.qseq'):
    from .common import sweep_step, sweep_steps
    Q = P + 'qpoly.'
    fs, f1 = db.func(Q + 'Qbfs_seq'), db.func(Q + 'Qbfs')
    it, dom = mk(db, atoms=('g_qbfs', 'h_qbfs', 'f_qbfs'))
    R = dom.R
    ctr = _slot_counter(fs)
    rho = Rat(R.atom('x')) * Rat(R.atom('x'))
    # the single-order function: base values, loop-entry state, result expression
    snaps = snapshot_loops(it, dom)
    ref = {}
    for p in it.run(f1, kwargs=lambda: {'n': dom.sym('n'), 'x': dom.sym('x')}):
        if p.outcome != 'return':
            continue
        k = next((int(c.split('==')[1]) for c, t in p.conds if t and c.replace(' ', '').startswith('n==')), None)
        ref[k] = (as_rat(dom, p.value, 'Qbfs'), [sn for sn in snaps if sn.conds == p.conds])
    if set(ref) != {0, 1, None}:
        raise AnalysisError('Qbfs: expected the cases n = 0, n = 1 and the sweep')
    ret_loop, sn1 = ref[None]
    sn1 = sn1[0]
    # the roles of the carried names of Qbfs are read off the published starting values
    s19 = Rat(R.sqrt(Rat(R.const(19))))
    wants = {'P2': Rat(R.const(2)), 'P1': 6 - 8 * rho, 'Q2': Rat(R.const(1)), 'Q1': (13 - 16 * rho) / s19}
    # the sequence function
    del snaps[:]
    dom.stores = []
    paths = [p for p in it.run(fs, kwargs=lambda: {'ns': dom.sym('ns'), 'x': dom.sym('x')}) if p.outcome == 'return']
    stores = _uniq_stores(dom)
    seqsnaps = list(snaps)
    if not seqsnaps:
        raise AnalysisError('Qbfs_seq: no path reaches the sweep')
    nchecked = 0
    guard = 'ns[%s]==' % ctr
    for idx, val, node, conds in stores:
        g = conds[-1] if conds else ('', None)
        txt = g[0].replace(' ', '')
        if not (g[1] is True and txt.startswith(guard) and txt.split('==')[1] in ('0', '1')):
            continue
        e = int(txt.split('==')[1])
        earlier = sum(1 for c, t in conds[:-1] if t and c.replace(' ', '').startswith(guard))
        got, ri = as_rat(dom, val, 'stored mode'), dom.rat(idx)
        run.check(got == ref[e][0], rule, fs.qual, 'order %d value' % e, 'under ns[k] == %d the stored mode is what Qbfs(%d, x) returns' % (e, e),
                  'Qbfs_seq stores %s under the guard ns[k] == %d; Qbfs(%d) returns %s' % (got.key(), e, e, ref[e][0].key()), fs.loc(node))
        run.check(ri is not None and ri == Rat(R.const(earlier)), rule, fs.qual, 'order %d slot (%d stored before)' % (e, earlier), 'the mode goes to the slot whose order was tested',
                  'Qbfs_seq stores order %d in slot %s after %d earlier store(s)' % (e, ri.key() if ri is not None else '?', earlier), fs.loc(node))
        nchecked += 1
    if nchecked < 3:
        raise AnalysisError('Qbfs_seq: fewer than three pre-sweep stores analysed (%d)' % nchecked)
    # one step of the single-order sweep: the reference for the sequence sweep
    sw1 = sweep_step(it, dom, f1, sn1, wants)
    if any(v is None for v in sw1.roles.values()):
        raise AnalysisError('Qbfs: the sweep does not start from the published (P_0, P_1, Q_0, Q_1): %s' % sw1.entry)
    want = {k: dom.rat(sw1.out(k)) for k in wants}
    wantQ = want['Q1']
    posts = {a[5:] for a in ret_loop.atoms() if isinstance(a, str) and a.startswith('post_')}
    ret_shape = len(posts) == 1 and posts <= set(sw1.fresh_equal(dom, wantQ)) and ret_loop == Rat(R.atom('post_' + sorted(posts)[0])) * rho * (1 - rho)
    lp = seqsnaps[0].node
    fr0 = Frame(fs, fs.module, dict(seqsnaps[0].env))
    it_args = lp.iter.args if isinstance(lp.iter, ast.Call) and ast.unparse(lp.iter.func) == 'range' else []
    rng = [it.ev(a, fr0) for a in it_args]
    last = it.ev(ast.parse('ns[-1] + 1', mode='eval').body, fr0)
    same_v = lambda a, b: (dom.rat(a) == dom.rat(b)) if dom.rat(a) is not None and dom.rat(b) is not None else repr(a) == repr(b)
    okr = len(rng) == 2 and dom.rat(rng[0]) is not None and dom.rat(rng[0]) == Rat(R.const(2)) and same_v(rng[1], last)
    run.check(okr, rule, fs.qual, 'sweep range', 'the sweep runs from 2 to the last requested order inclusive', 'Qbfs_seq sweeps %s' % ast.unparse(lp.iter), fs.loc(lp))
    mi = Rat(R.atom('kslot'))
    for sn in seqsnaps:
        dom.stores = []
        sws = sweep_steps(it, dom, fs, sn, wants, given={ctr: dom.sym('kslot')})
        st = _uniq_stores(dom)
        same = all(v is not None for v in sws[0].roles.values()) and set(sws[0].carried) - {ctr} == set(sws[0].roles.values())
        run.check(same, rule, fs.qual, 'initial values (entered with %s stored)' % sn.env.get(ctr), 'the sweep starts from the same (P_0, P_1, Q_0, Q_1) as Qbfs',
                  'Qbfs_seq enters its sweep with %s' % ', '.join('%s=%s' % (k, v.key() if v is not None else '?') for k, v in sorted(sws[0].entry.items())), fs.loc(sn.node))
        if not same:
            continue
        if len(sws) != 2:
            raise AnalysisError('Qbfs_seq: step has %d paths, expected emit / no emit' % len(sws))
        emit_txt = ('ns[%s]==%s' % (ctr, sws[0].var)).replace(' ', '')
        for sw in sws:
            emit = any(t for c, t in sw.conds if c.replace(' ', '') == emit_txt)
            got = {k: (dom.rat(sw.out(k)) if sw.out(k) is not None else None) for k in wants}
            okc = all(got[k] is not None and got[k] == want[k] for k in wants)
            run.check(okc, rule, fs.qual, 'step (%s)' % ('emit' if emit else 'no emit'), 'one pass of the sweep updates (P, Q) exactly as one pass of Qbfs does',
                      'Qbfs_seq step gives %s, Qbfs step gives %s' % ({k: (g.key() if g is not None else '?') for k, g in got.items()}, {k: w.key() for k, w in want.items()}), fs.loc(lp))
            cnt = dom.rat(sw.after.get(ctr)) if sw.after.get(ctr) is not None else None
            mine = [s_ for s_ in st if s_[3] == sw.conds[:len(s_[3])] and len(s_[3]) <= len(sw.conds) and (emit and any(t for c, t in s_[3]))]
            if emit:
                # value: what Qbfs returns after the sweep, with its last Q being this pass's Q_n
                want_val = wantQ * rho * (1 - rho)
                okv = len(mine) == 1 and dom.rat(mine[0][0]) == mi and dom.rat(mine[0][1]) == want_val and ret_shape
                run.check(okv, rule, fs.qual, 'emission', 'when ns[k] == n the pass stores Q_n rho^2(1-rho^2) (what Qbfs returns for that order) in slot k',
                          'Qbfs_seq emits %s into slot %s; Qbfs returns Q_n rho^2 (1 - rho^2)' % (dom.rat(mine[0][1]).key() if mine else 'nothing', dom.rat(mine[0][0]).key() if mine else '?'), fs.loc(lp))
                run.check(cnt is not None and cnt == mi + 1, rule, fs.qual, 'counter (emit)', 'the running index advances once per stored mode', 'after an emission the running index is %s' % (cnt.key() if cnt is not None else '?'), fs.loc(lp))
            else:
                run.check(not [s_ for s_ in st if not any(t for c, t in s_[3] if c.replace(' ', '') == emit_txt)] and cnt is not None and cnt == mi, rule, fs.qual, 'counter (no emit)',
                          'a pass whose order was not requested stores nothing and keeps the running index', 'a non-requested order changes the output or the running index', fs.loc(lp))


def qcon_seq_rules(run, db, rule='C08.qseq'):
    Q = P + 'qpoly.'
    fs, f1 = db.func(Q + 'Qcon_seq'), db.func(Q + 'Qcon')
    it, dom = mk(db, atoms=('jacobi',))
    orig = dom.call_prysm

    def call_prysm(fi, args, kwargs, node):
        if fi.name == 'jacobi_seq':
            return dom.func_atom('jacobi', list(args))          # per order: the list is mapped elementwise
        return orig(fi, args, kwargs, node)
    dom.call_prysm = call_prysm
    a = [q for q in it.run(f1, kwargs=lambda: {'n': dom.sym('n'), 'x': dom.sym('x')}) if q.outcome == 'return']
    b = [q for q in it.run(fs, kwargs=lambda: {'ns': dom.sym('n'), 'x': dom.sym('x')}) if q.outcome == 'return']
    if len(a) != 1 or len(b) != 1:
        raise AnalysisError('Qcon / Qcon_seq: expected one path each')
    ra, rb = as_rat(dom, a[0].value, 'Qcon'), as_rat(dom, b[0].value, 'Qcon_seq')
    run.check(ra == rb, rule, fs.qual, 'per-order value', 'Qcon_seq applies per order exactly what Qcon applies to one order (x^4 P^(0,4)(2x^2-1))', 'Qcon_seq computes %s per order, Qcon %s' % (rb.key(), ra.key()), fs.loc())


def _store_bases(loop, key):
    """names D of the stores `D[key] = ...` in the body of `loop` (key: a local name)."""
    out = []
    for n in ast.walk(loop):
        if isinstance(n, ast.Assign):
            for t in n.targets:
                if isinstance(t, ast.Subscript) and isinstance(t.value, ast.Name) and isinstance(t.slice, ast.Name) and t.slice.id == key and t.value.id not in out:
                    out.append(t.value.id)
    return out


def _q2d_seq_names(fs):
    """The locals of Q2d_seq by the role they play, read off the loop headers and the stores (not their spelling)."""
    tops = [n for n in fs.node.body if isinstance(n, ast.For)]
    if len(tops) != 4:
        raise AnalysisError('Q2d_seq: expected four top-level loops (maxima, scales, tables, requests), found %d' % len(tops))
    Lmax, Lsc, Ltab, Lmain = tops
    N = {}
    tt = Ltab.target
    if not (isinstance(tt, ast.Tuple) and len(tt.elts) == 2 and all(isinstance(e, ast.Name) for e in tt.elts)
            and isinstance(Ltab.iter, ast.Call) and isinstance(Ltab.iter.func, ast.Attribute) and Ltab.iter.func.attr == 'items' and isinstance(Ltab.iter.func.value, ast.Name)):
        raise AnalysisError('Q2d_seq: the table loop is not `for m, N in <maxima>.items()`')
    N['m'], N['N'], N['max'] = tt.elts[0].id, tt.elts[1].id, Ltab.iter.func.value.id
    sq = _store_bases(Ltab, N['m'])
    if len(sq) != 1:
        raise AnalysisError('Q2d_seq: expected one per-|m| table written in the table loop, found %s' % sq)
    N['seqs'] = sq[0]
    if not (isinstance(Lsc.target, ast.Name) and isinstance(Lsc.iter, ast.Call) and isinstance(Lsc.iter.func, ast.Attribute) and Lsc.iter.func.attr == 'keys'
            and isinstance(Lsc.iter.func.value, ast.Name) and Lsc.iter.func.value.id == N['max']):
        raise AnalysisError('Q2d_seq: the scale loop does not walk the keys of the per-|m| maxima')
    N['absm'] = Lsc.target.id
    N['scales'] = _store_bases(Lsc, N['absm'])
    N['members'] = sorted({c.comparators[0].id for c in ast.walk(Lsc) if isinstance(c, ast.Compare) and len(c.ops) == 1 and isinstance(c.ops[0], ast.In)
                           and isinstance(c.left, ast.Name) and c.left.id == N['absm'] and isinstance(c.comparators[0], ast.Name)})
    mt = Lmain.target
    if not (isinstance(mt, ast.Tuple) and len(mt.elts) == 2 and all(isinstance(e, ast.Name) for e in mt.elts) and isinstance(Lmain.iter, ast.Name) and Lmain.iter.id == fs.params[0]):
        raise AnalysisError('Q2d_seq: the request loop is not `for n, m in nms`')
    N['rn'], N['rm'] = mt.elts[0].id, mt.elts[1].id
    N['j'] = _slot_counter(fs)
    outs = _store_bases(Lmain, N['j'])
    if len(outs) != 1:
        raise AnalysisError('Q2d_seq: expected one output array written in the request loop, found %s' % outs)
    N['out'] = outs[0]
    return tops, N


def _q2d_seq_table_rules(run, db, rule='C08.qseq'):
    from .common import sweep_step, post_atoms
    Q = P + 'qpoly.'
    fs, f1 = db.func(Q + 'Q2d_seq'), db.func(Q + 'Q2d')
    ATOMS = ('g_q2d', 'f_q2d', 'Qbfs', 'sign')
    (Lmax, Lsc, Ltab, Lmain), NM = _q2d_seq_names(fs)
    mN, NN, SEQS = NM['m'], NM['N'], NM['seqs']
    cnd = lambda txt: txt.replace(' ', '')

    def fresh(positive=('M', 'MM')):
        it, dom = mk(db, positive=positive, atoms=ATOMS)
        orig = dom.call_prysm

        def call_prysm(fi, args, kwargs, node):
            if fi.name == 'abc_q2d':
                return Tup([dom.func_atom('%s_q2d' % c, list(args)) for c in 'ABC'])
            return orig(fi, args, kwargs, node)
        dom.call_prysm = call_prysm
        return it, dom
    it, dom = fresh()
    R = dom.R
    A = lambda nme: Rat(R.atom(nme))
    Cc = lambda v: Rat(R.const(v))
    fat = lambda name, *a: Rat(R.func(name, list(a)))
    # ---- the single-term function for m = M > 0: radial values, loop-entry state per (m == 1), step
    snaps = snapshot_loops(it, dom)
    base, loops1 = {}, {}
    pref = Rat(R.func('pow', [A('r'), A('M')])) * Rat(R.trig('cos', A('M') * A('t')))
    for p in it.run(f1, kwargs=lambda: {'n': dom.sym('n'), 'm': dom.sym('M'), 'r': dom.sym('r'), 't': dom.sym('t')}):
        if p.outcome != 'return' or any(c.replace(' ', '') == 'sign(m)==-1' and t for c, t in p.conds):
            continue
        m1 = any(c.replace(' ', '') == 'm==1' and t for c, t in p.conds)
        k = next((int(c.split('==')[1]) for c, t in p.conds if t and c.replace(' ', '').startswith('n==')), None)
        v = as_rat(dom, p.value, 'Q2d')
        if k is not None:
            base[(m1, k)] = v / pref
        else:
            sn = [s_ for s_ in snaps if s_.conds == p.conds]
            if len(sn) != 1:
                raise AnalysisError('Q2d: loop snapshot not found')
            loops1[m1] = (sn[0], v)
    if set(loops1) != {True, False}:
        raise AnalysisError('Q2d: sweeps for |m| = 1 and |m| != 1 not both found')
    # the carried names of both sweeps by role: what they hold when the sweep starts
    xr = A('r') * A('r')
    MA = A('M')

    def wants(m1):
        if m1:
            return {'P2': (3 - xr * (12 - 8 * xr)) / 6, 'P1': (5 - xr * (60 - xr * (120 - 64 * xr))) / 10, 'Q1': base[(True, 3)]}, 4
        return {'P2': Cc(1) / 2, 'P1': (MA - Cc(1) / 2) + (1 - MA) * xr, 'Q1': base[(False, 1)]}, 2
    ref_step = {}
    for m1 in (True, False):
        sn1, v1 = loops1[m1]
        w, first = wants(m1)
        sw1 = sweep_step(it, dom, f1, sn1, w)
        if any(v is None for v in sw1.roles.values()):
            raise AnalysisError('Q2d: the |m|%s1 sweep does not start from its published state: %s' % ('=' if m1 else '!=', sw1.entry))
        outs1 = {k: dom.rat(sw1.out(k)) for k in w}
        posts = post_atoms(v1)
        okp = len(posts) == 1 and posts <= set(sw1.fresh_equal(dom, outs1['Q1'])) and v1 == A('post_' + sorted(posts)[0]) * pref
        run.check(okp, rule, f1.qual, 'result form (|m|%s1)' % ('=' if m1 else '!='), 'Q2d returns (last Q of the sweep) u^m cos(m t)', 'Q2d returns %s' % v1.key(), f1.loc())
        fr1 = Frame(f1, f1.module, dict(sn1.env))
        rng1 = [dom.rat(it.ev(a, fr1)) for a in sn1.node.iter.args] if isinstance(sn1.node.iter, ast.Call) else []
        ref_step[m1] = (outs1, rng1, first)
    # ---- the table loop of the sequence function, one azimuthal order at a time
    first_env = snapshot_dummy(it, dom, fs)
    pre = {k: v for sn in first_env for k, v in sn.env.items() if k not in fs.params and isinstance(v, Value) and dom.rat(v) is not None}
    stepT, parT = loop_as_function(fs, Ltab, [SEQS])
    # m = 0: the Qbfs table
    T0 = {}

    def kw0():
        T0['seqs'] = DictV()
        d = {p_: pre.get(p_, dom.sym(p_)) for p_ in parT}
        d.update({mN: Const(0), NN: dom.sym('N'), SEQS: T0['seqs'], 'r': dom.sym('r')})
        return d
    dom.loop = lambda node, frame: False
    r0 = [q for q in it.run(stepT, kwargs=kw0) if q.outcome == 'return']
    ent = r0[0].value.items[0].get(Const(0)) if r0 and isinstance(r0[0].value.items[0], DictV) else None
    ok0 = len(r0) == 1 and isinstance(ent, Law) and dom.rat(ent.fn(dom.sym('j'))) == Rat(R.func('Qbfs', [A('j'), A('r')]))
    run.check(ok0, rule, fs.qual, 'table m = 0', 'seqs[0][j] == Qbfs(j, r) for j = 0..N (orders contiguous from 0), which is what Q2d(n, 0) returns', 'the m = 0 table is not list(Qbfs_seq(range(N+1), r)): %r' % (ent,), fs.loc(Ltab))
    # m = M > 0
    snaps = snapshot_loops(it, dom)
    TM = {}

    def kwM():
        TM['seqs'] = DictV()
        d = {p_: pre.get(p_, dom.sym(p_)) for p_ in parT}
        d.update({mN: dom.sym('M'), NN: dom.sym('N'), SEQS: TM['seqs'], 'r': dom.sym('r')})
        return d
    lists = []
    for q in it.run(stepT, kwargs=kwM):
        if q.outcome != 'return':
            continue
        tbl = q.value.items[0]
        lst = tbl.get(dom.sym('M')) if isinstance(tbl, DictV) else None
        lists.append((q, list(lst.items) if isinstance(lst, Tup) else None, [s_ for s_ in snaps if s_.conds == q.conds[:len(s_.conds)] and len(s_.conds) <= len(q.conds)]))
    dom.loop = lambda node, frame: False
    if len(lists) < 5:
        raise AnalysisError('Q2d_seq table loop: expected at least five paths (N = 0, N = 1, |m| = 1 short, two sweeps), found %d' % len(lists))
    nsweeps = 0
    m1txt = cnd('%s == 1' % mN)
    for q, items, sn in lists:
        if items is None:
            raise AnalysisError('Q2d_seq: the per-m table is not a list on path %s' % (q.conds,))
        m1 = any(cnd(c) == m1txt and t for c, t in q.conds)
        label = '|m|%s1, %s' % ('=' if m1 else '!=', ', '.join(c.replace(NN, 'N') for c, t in q.conds if t and c.startswith(NN)) or 'sweep')
        vals = [dom.rat(v) for v in items]
        inner_lines = {n_.lineno for n_ in ast.walk(Ltab) if isinstance(n_, ast.For) and n_ is not Ltab}
        inloop = [s_ for s_ in sn if s_.node.lineno in inner_lines]
        nfix = len(items)
        okb = all(v is not None and (m1, k) in base and v == base[(m1, k)] for k, v in enumerate(vals[:nfix]) if (m1, k) in base or k < 2)
        okb = okb and all((m1, k) in base for k in range(min(nfix, 4 if m1 else 2)))
        run.check(okb and nfix in ((1, 2, 4) if m1 else (1, 2)), rule, fs.qual, 'table entries (%s)' % label, 'entry k of the per-m list is the radial part Q2d(k, m) returns, k = 0..%d' % (nfix - 1),
                  'per-m table (%s) starts with %s; Q2d gives %s' % (label, [v.key() if v is not None else '?' for v in vals], [base[(m1, k)].key() for k in range(nfix) if (m1, k) in base]), fs.loc(Ltab))
        if inloop:
            nsweeps += 1
            s_ = inloop[-1]
            w, first = wants(m1)
            outs1, rng1, _ = ref_step[m1]
            lst = Tup([], 'list')
            dd = DictV()
            dd.set(dom.sym('M'), lst)
            sw = sweep_step(it, dom, fs, s_, w, given={SEQS: dd, mN: dom.sym('M')})
            same = all(v is not None for v in sw.roles.values()) and set(sw.carried) == set(sw.roles.values())
            run.check(same, rule, fs.qual, 'sweep start (%s)' % label, 'the table sweep starts from the state Q2d starts from', 'Q2d_seq table sweep starts with %s; Q2d with %s' %
                      (', '.join('%s=%s' % (k, v.key() if v is not None else '?') for k, v in sorted(sw.entry.items())), {k: v.key() for k, v in w.items()}), fs.loc(s_.node))
            frs = Frame(fs, fs.module, dict(s_.env))
            rng = [dom.rat(it.ev(a, frs)) for a in s_.node.iter.args] if isinstance(s_.node.iter, ast.Call) and ast.unparse(s_.node.iter.func) == 'range' else []
            mn = rng[0] if len(rng) == 2 else None
            run.check(mn is not None and mn == Cc(nfix) and mn == Cc(first), rule, fs.qual, 'list alignment (%s)' % label, 'the list holds orders 0..first-1 when the sweep starts, so appending order by order keeps index == order',
                      'the per-m list has %d entries when the sweep starts at order %s' % (nfix, mn.key() if mn is not None else '?'), fs.loc(s_.node))
            okr = len(rng) == 2 and rng[1] is not None and rng[1] == A('N') + 1 and len(rng1) == 2 and rng1[0] is not None and rng1[0] == Cc(first)
            run.check(okr, rule, fs.qual, 'sweep range (%s)' % label, 'the table sweep covers the orders from where Q2d starts its sweep up to N', 'table sweep range is %s' % ast.unparse(s_.node.iter), fs.loc(s_.node))
            if same:
                gb = {k: (dom.rat(sw.out(k)) if sw.out(k) is not None else None) for k in w}
                app = [dom.rat(v) for v in lst.items]
                oks = all(gb[k] is not None and gb[k] == outs1[k] for k in w) and len(app) == 1 and app[0] is not None and app[0] == outs1['Q1']
                run.check(oks, rule, fs.qual, 'sweep step (%s)' % label, 'one pass updates (P_(n-1), P_n, Q_n) as Q2d does and appends exactly Q_n',
                          'Q2d_seq pass gives %s and appends %s; Q2d pass gives %s' % ({k: (g.key() if g is not None else '?') for k, g in gb.items()}, [a.key() if a is not None else '?' for a in app], {k: v.key() for k, v in outs1.items()}), fs.loc(s_.node))
    if nsweeps < 2:
        raise AnalysisError('Q2d_seq: the two table sweeps (|m| = 1, |m| != 1) were not both analysed')
    # ---- scale tables
    it2, dom2 = fresh()
    first2 = snapshot_dummy(it2, dom2, fs)
    pre2 = {k: (lambda d, v=v: v) for sn in first2 for k, v in sn.env.items() if k not in fs.params and isinstance(v, Value) and dom2.rat(v) is not None}
    presets = dict(pre2)
    presets[NM['absm']] = lambda d: d.sym('kk')
    for nm_ in NM['members']:
        presets[nm_] = lambda d: Tup([d.sym('kk')])
    _, lawS = table_law(db, fs, Lsc, lambda: (it2, dom2), 'kk', presets, NM['scales'])
    # ---- the request loop
    for label, mk_m in (('m = 0', lambda d: Const(0)), ('m > 0', lambda d: d.sym('M')), ('m < 0', lambda d: Sym(-d.sym('MM').r))):
        R2 = dom2.R
        B = lambda nme: Rat(R2.atom(nme))
        mval = mk_m(dom2)
        stepR, parR = loop_as_function(fs, Lmain, [NM['j']])

        def tab(entry, keyname='kk'):
            return Law(lambda key, entry=entry: subst_value(dom2, entry, keyname, key), keyname)

        def seqs_law(key):
            if isinstance(key, Const) and key.v == 0:
                return Law(lambda j: dom2.func_atom('Qbfs', [j, dom2.sym('r')]), 'Qbfs table')
            return Law(lambda j, key=key: dom2.func_atom('Qrad', [key, j]), 'radial table')
        given = {NM['rn']: dom2.sym('n'), NM['rm']: mval, NM['j']: dom2.sym('j'), NM['out']: dom2.sym('out'), SEQS: Law(seqs_law, 'seqs')}
        for nm_ in NM['scales']:
            given[nm_] = tab(lawS[nm_])
        rs = _run_step(it2, dom2, stepR, parR, given)
        st = _uniq_stores(dom2)
        if len(rs) != 1 or len(st) != 1:
            raise AnalysisError('Q2d_seq request loop (%s): %d paths, %d stores' % (label, len(rs), len(st)))
        got = as_rat(dom2, st[0][1], 'stored mode')
        if label == 'm = 0':
            want = Rat(R2.func('Qbfs', [B('n'), B('r')]))
        elif label == 'm > 0':
            want = Rat(R2.func('Qrad', [B('M'), B('n')])) * Rat(R2.func('pow', [B('r'), B('M')])) * Rat(R2.trig('cos', B('M') * B('t')))
        else:
            want = Rat(R2.func('Qrad', [B('MM'), B('n')])) * Rat(R2.func('pow', [B('r'), B('MM')])) * Rat(R2.trig('sin', B('MM') * B('t')))
        run.check(got == want, rule, fs.qual, 'mode value %s' % label, 'the stored mode is table[|m|][n] times u^|m| cos(m t) / sin(|m| t): what Q2d returns for (n, m) [%s]' % label,
                  'Q2d_seq stores %s for a request with %s; Q2d returns %s' % (got.key(), label, want.key()), fs.loc(st[0][2]))
        ji, jo = dom2.rat(st[0][0]), dom2.rat(rs[0].value.items[0])
        run.check(ji is not None and jo is not None and ji == B('j') and jo == B('j') + 1, rule, fs.qual, 'slot %s' % label, 'request i is stored in slot i', 'mode stored in slot %s, counter becomes %s' % (ji, jo), fs.loc(st[0][2]))
    # the scalar function's prefix for m < 0 (used above as the reference)
    it3, dom3 = fresh()
    snapshot_loops(it3, dom3)
    negs = [p for p in it3.run(f1, kwargs=lambda: {'n': dom3.sym('n'), 'm': Sym(-dom3.sym('MM').r), 'r': dom3.sym('r'), 't': dom3.sym('t')})
            if p.outcome == 'return' and not any(c.replace(' ', '').startswith('n==') and t for c, t in p.conds)]
    R3 = dom3.R
    C3 = lambda nme: Rat(R3.atom(nme))
    prefn = Rat(R3.func('pow', [C3('r'), C3('MM')])) * Rat(R3.trig('sin', C3('MM') * C3('t')))

    def neg_ok(p):
        v = dom3.rat(p.value)
        if v is None:
            return False
        ps = post_atoms(v)
        return len(ps) == 1 and v == C3('post_' + sorted(ps)[0]) * prefn
    okn = bool(negs) and all(neg_ok(p) for p in negs if any(c.replace(' ', '') == 'sign(m)==-1' and t for c, t in p.conds))
    run.check(okn, rule, f1.qual, 'result form (m < 0)', 'Q2d(n, m < 0) returns (last Q of the |m| sweep) u^|m| sin(|m| t)', 'Q2d for negative m does not return Q u^|m| sin(|m| t)', f1.loc())
    # maxima loop: N per |m| is the maximum n requested
    from ..core.pattern import match_all
    mx = match_all(Lmax.body, ['V_a = abs(V_m)', 'if V_T[V_a] < V_n:\n    V_T[V_a] = V_n'])
    tgt = [e.id for e in Lmax.target.elts] if isinstance(Lmax.target, ast.Tuple) and all(isinstance(e, ast.Name) for e in Lmax.target.elts) else []
    okm = bool(mx) and len(tgt) == 2 and mx['V_n'] == tgt[0] and mx['V_m'] == tgt[1] and mx['V_T'] == NM['max'] \
        and isinstance(Lmax.iter, ast.Name) and Lmax.iter.id == fs.params[0]
    run.check(okm, rule, fs.qual, 'per-|m| maximum',
              'tables are built for every |m| requested, up to the largest n requested with that |m|', 'the per-|m| maximum order / key set changed', fs.loc(Lmax))


def snapshot_dummy(it, dom, fs):
    """Environment of Q2d_seq at its first loop (for x)."""
    snaps = snapshot_loops(it, dom)
    it.run(fs, kwargs=lambda: {'nms': dom.sym('nms'), 'r': dom.sym('r'), 't': dom.sym('t')})
    dom.loop = lambda node, frame: False
    return snaps[:1]
