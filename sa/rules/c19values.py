"""C19 on values: a ray through the local origin of a surface (r = 0) is given a sag and a normal like any other ray.  The surface
constructors are run, the closure they store is called on a bundle of two rays -- one through the local origin, one through (3, 4) --
with FILE's arrays (a division by zero is a junk value, `np.where` picks per cell), and the values at the origin are compared with what
the surface is there: vertex of a surface of revolution (sag 0, slopes 0); for an off-axis section the sag and slope of the parent conic
at the decentre."""
from ..core.db import AnalysisError
from ..core.interp import Const, Tup, Obj, ClassRef, Unknown
from ..core.norm import Rat
from ..domains.filedom import file_interp, FArr, Junk, is_nan

SF = 'prysm.x.raytracing.surfaces.'


def axis_value_rules(run, db):
    ci = db.cls(SF + 'Surface')
    n_ok = 0
    cases = (('conic', {}, None), ('sphere', {}, None), ('plane', {}, None),
             ('off_axis_conic', {'dy': 5, 'dx': 0}, 'y'), ('off_axis_conic', {'dy': 0, 'dx': 5}, 'x'))
    for ctor, kw, along in cases:
        f = db.func(SF + 'Surface.' + ctor)
        it, dom = file_interp(db)
        args = {'cls': ClassRef(ci), 'typ': Const('refl'), 'P': FArr.of((3,), [Const(0)] * 3)}
        if 'c' in f.params:
            args['c'] = dom.sym('c')
        if 'k' in f.params:
            args['k'] = dom.sym('k')
        if 'n' in f.params:
            args['n'] = Const(None)
        args.update({k_: Const(v_) for k_, v_ in kw.items()})
        label = 'Surface.%s%s, ray through the local origin' % (ctor, (' (decentre %d along %s)' % (5, along)) if along else '')
        objs = [p.value for p in it.run(f, kwargs=lambda: dict(args)) if p.outcome == 'return' and isinstance(p.value, Obj)]
        if not objs:
            raise AnalysisError('%s: the constructor does not return a surface that is followed' % label)
        seen = set()
        for o in objs:
            ffp = o.attrs.get('FFp')
            if ffp is None or isinstance(ffp, (Const, Unknown)):
                raise AnalysisError('%s: the sag / slope function of the surface is not followed' % label)
            it._reset_run([])
            out = it.call_value(ffp, [FArr.of((2,), [Const(0), Const(3)]), FArr.of((2,), [Const(0), Const(4)])], {}, None, None)
            if not (isinstance(out, Tup) and len(out.items) == 3):
                raise AnalysisError('%s: the function does not return (sag, dz/dx, dz/dy): %r' % (label, out))
            vals = []
            for v in out.items:
                c0 = v.values()[0] if isinstance(v, FArr) and v.size == 2 else (v if not isinstance(v, FArr) else None)
                vals.append(c0)
            key = repr(vals)
            if key in seen:
                continue
            seen.add(key)
            bad = []
            lost = []
            want = [None, None, None]
            if along is None:
                want = [Rat(dom.R.const(0))] * 3
            else:
                # the parent conic at the decentre s = 5: sag conic_sag(c, k, s^2), slope conic_sag_der(c, k, s) along the decentre, 0 across it
                it._reset_run([])
                zs = it.call_value(it.lookup_global('conic_sag', f.module), [dom.sym('c'), dom.sym('k'), Const(25)], {}, None, None)
                it._reset_run([])
                ds = it.call_value(it.lookup_global('conic_sag_der', f.module), [dom.sym('c'), dom.sym('k'), Const(5)], {}, None, None)
                rz, rd = dom.rat(zs), dom.rat(ds)
                if rz is None or rd is None:
                    raise AnalysisError('%s: conic_sag / conic_sag_der (the parent conic) are not followed' % label)
                want = [rz, rd if along == 'x' else Rat(dom.R.const(0)), rd if along == 'y' else Rat(dom.R.const(0))]
            for name, v, w in zip(('sag', 'dz/dx', 'dz/dy'), vals, want):
                if isinstance(v, Junk):
                    bad.append('%s is %s' % (name, v.why))
                elif v is None or isinstance(v, Unknown):
                    lost.append('%s: %r' % (name, v))
                elif is_nan(v):
                    bad.append('%s is NaN' % name)
                else:
                    r = dom.rat(v)
                    if r is None:
                        lost.append('%s: %r' % (name, v))
                    elif not (r == w):
                        bad.append('%s is %s, the surface has %s there' % (name, r.key()[:90], w.key()[:90]))
            if lost and not bad:
                raise AnalysisError('%s: values at the origin are not followed: %s' % (label, '; '.join(lost)[:200]))
            run.check(not bad, 'C19.axis0', f.qual, 'origin ray on values',
                      '%s: finite sag and slopes, equal to those of the surface at that point' % label,
                      '%s: %s -- the ray through the local origin (the chief ray of an off-axis section, the axial ray of a surface of revolution) is lost or gets the wrong normal' % (label, '; '.join(bad)),
                      f.loc())
            n_ok += not bad
    return n_ok


SM = 'prysm.x.raytracing.spencer_and_murty.'


def frame_value_rules(run, db):
    """the frame transforms on a bundle of two rays with symbolic components, a symbolic 3x3 R and a symbolic P: into the surface frame is
    R (X - P) with directions R S; out of it is R X + P with directions R S; without R only the translation.  (That the R handed in on the
    way out is the transpose of the one on the way in is the raytrace wiring rule's.)"""
    n_ok = 0
    for fname, sign in (('transform_to_local_coords', -1), ('transform_to_global_coords', +1)):
        f = db.func(SM + fname)
        for with_R in (True, False):
            it, dom = file_interp(db)
            R = dom.R
            A = lambda nm: Rat(R.atom(nm))
            label = '%s on two rays, %s' % (fname, 'with a rotation' if with_R else 'R is None')
            kw = {'XYZ': FArr.of((2, 3), [dom.sym('X%d%d' % (k, j)) for k in range(2) for j in range(3)]),
                  'P': FArr.of((3,), [dom.sym('P%d' % j) for j in range(3)]),
                  'S': FArr.of((2, 3), [dom.sym('S%d%d' % (k, j)) for k in range(2) for j in range(3)]),
                  'R': FArr.of((3, 3), [dom.sym('R%d%d' % (i, j)) for i in range(3) for j in range(3)]) if with_R else Const(None)}
            res = it.run(f, kwargs=lambda: dict(kw))
            rets = [p for p in res if p.outcome == 'return']
            if len(rets) != len(res) or not rets:
                raise AnalysisError('%s: not every path returns' % label)
            for p in rets:
                v = p.value
                if not (isinstance(v, Tup) and len(v.items) == 2 and all(isinstance(x, FArr) and tuple(x.shape) == (2, 3) for x in v.items)):
                    raise AnalysisError('%s: the (positions, directions) pair that is returned is not followed: %r' % (label, v))
                bad = ''
                for which, arr in (('X', v.items[0]), ('S', v.items[1])):
                    for k in range(2):
                        for i in range(3):
                            c = dom.rat(arr.boxes[k * 3 + i].v)
                            if c is None:
                                raise AnalysisError('%s: a component of the result is not followed: %r' % (label, arr.boxes[k * 3 + i].v))
                            if with_R:
                                want = Rat(R.const(0))
                                for j in range(3):
                                    comp = A('%s%d%d' % (which, k, j))
                                    if which == 'X' and sign < 0:
                                        comp = comp - A('P%d' % j)
                                    want = want + A('R%d%d' % (i, j)) * comp
                                if which == 'X' and sign > 0:
                                    want = want + A('P%d' % i)
                            else:
                                want = A('%s%d%d' % (which, k, i)) + (sign * A('P%d' % i) if which == 'X' else 0)
                            if not bad and not (c == want):
                                bad = 'component %d of the %s of ray %d is %s, expected %s' % (i, 'position' if which == 'X' else 'direction', k, c.key()[:110], want.key()[:110])
                run.check(not bad, 'C19.rigid', f.qual, '%s on values%s' % ('into the frame' if sign < 0 else 'out of the frame', '' if with_R else ' (no rotation)'),
                          '%s: positions %s, directions R S -- a rigid motion, directions never translated' % (label, 'R (X - P)' if sign < 0 else 'R X + P'),
                          '%s: %s' % (label, bad), f.loc())
                n_ok += not bad
    return n_ok


def sag_normal_value_rules(run, db):
    """Surface.sag_normal on a bundle of two rays: with FFp returning (sag, Fx, Fy) per ray, the result is (sag, N) with N[k] = (-Fx[k], -Fy[k], 1)
    -- the gradient of z - sag(x, y), one row per ray"""
    from ..core.interp import Value, Obj
    f = db.func(SF + 'Surface.sag_normal')
    ci = db.cls(SF + 'Surface')
    it, dom = file_interp(db)
    R = dom.R

    class Stub(Value):
        pass
    seen = []

    def call_object(fobj, args, kwargs, node):
        if isinstance(fobj, Stub):
            seen.append(list(args))
            return Tup([FArr.of((2,), [dom.sym('Z%d' % k) for k in range(2)]), FArr.of((2,), [dom.sym('FX%d' % k) for k in range(2)]), FArr.of((2,), [dom.sym('FY%d' % k) for k in range(2)])])
        return None
    dom.call_object = call_object

    def mk():
        o = Obj(ci)
        o.attrs['FFp'] = Stub()
        return o
    res = it.run(f, kwargs=lambda: {'x': FArr.of((2,), [dom.sym('x0'), dom.sym('x1')]), 'y': FArr.of((2,), [dom.sym('y0'), dom.sym('y1')])}, self_obj=mk)
    rets = [p for p in res if p.outcome == 'return']
    if len(rets) != len(res) or not rets:
        raise AnalysisError('sag_normal: not every path returns')
    n_ok = 0
    for p in rets:
        v = p.value
        if not (isinstance(v, Tup) and len(v.items) == 2 and all(isinstance(x, FArr) for x in v.items)):
            raise AnalysisError('sag_normal: the (sag, normal) pair that is returned is not followed: %r' % (v,))
        z, n = v.items
        bad = ''
        zc = [dom.rat(c) for c in z.values()]
        nc = [dom.rat(c) for c in n.values()]
        if any(c is None for c in zc + nc):
            raise AnalysisError('sag_normal: a component of the result is not followed')
        A = lambda nm: Rat(R.atom(nm))
        if tuple(z.shape) != (2,) or not all(zc[k] == A('Z%d' % k) for k in range(2)):
            bad = 'the sag that is returned is %s' % [c.key() for c in zc]
        elif tuple(n.shape) != (2, 3):
            bad = 'the normals have shape %s, one row (nx, ny, nz) per ray is (2, 3)' % (tuple(n.shape),)
        else:
            for k in range(2):
                want = [-A('FX%d' % k), -A('FY%d' % k), Rat(R.const(1))]
                if not all(nc[k * 3 + i] == want[i] for i in range(3)):
                    bad = 'the normal of ray %d is (%s), the gradient of z - sag there is (%s)' % (k, ', '.join(c.key() for c in nc[k * 3:k * 3 + 3]), ', '.join(w.key() for w in want))
                    break
        if not bad and seen and not all(dom.key(a) is not None or isinstance(a, FArr) for a in seen[0]):
            bad = ''
        run.check(not bad, 'C19.normal', f.qual, 'gradient on values', 'sag_normal returns (sag, N) with N[k] = (-dz/dx, -dz/dy, 1) of ray k', 'sag_normal: %s' % bad, f.loc())
        n_ok += not bad
    return n_ok
