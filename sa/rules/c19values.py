"""C19 on values: a ray through the local origin of a surface (r = 0) is given a sag and a normal like any other ray.  The surface
constructors are run, the closure they store is called on a bundle of two rays -- one through the local origin, one through (3, 4) --
with FILE's arrays (a division by zero is a junk value, `np.where` picks per cell), and the values at the origin are compared with what
the surface is there: vertex of a surface of revolution (sag 0, slopes 0); for an off-axis section the sag and slope of the parent conic
at the decentre."""
from ..core.db import AnalysisError
from ..core.interp import Const, Tup, Obj, ClassRef, Unknown
from ..core.norm import Rat
from ..domains.filedom import file_interp, FArr, Junk, is_nan

SF = 'prysm.x.raytracing.surfaces.'


def axis_value_rules(run, db):
    ci = db.cls(SF + 'Surface')
    n_ok = 0
    cases = (('conic', {}, None), ('sphere', {}, None), ('plane', {}, None),
             ('off_axis_conic', {'dy': 5, 'dx': 0}, 'y'), ('off_axis_conic', {'dy': 0, 'dx': 5}, 'x'))
    for ctor, kw, along in cases:
        f = db.func(SF + 'Surface.' + ctor)
        it, dom = file_interp(db)
        args = {'cls': ClassRef(ci), 'typ': Const('refl'), 'P': FArr.of((3,), [Const(0)] * 3)}
        if 'c' in f.params:
            args['c'] = dom.sym('c')
        if 'k' in f.params:
            args['k'] = dom.sym('k')
        if 'n' in f.params:
            args['n'] = Const(None)
        args.update({k_: Const(v_) for k_, v_ in kw.items()})
        label = 'Surface.%s%s, ray through the local origin' % (ctor, (' (decentre %d along %s)' % (5, along)) if along else '')
        objs = [p.value for p in it.run(f, kwargs=lambda: dict(args)) if p.outcome == 'return' and isinstance(p.value, Obj)]
        if not objs:
            raise AnalysisError('%s: the constructor does not return a surface that is followed' % label)
        seen = set()
        for o in objs:
            ffp = o.attrs.get('FFp')
            if ffp is None or isinstance(ffp, (Const, Unknown)):
                raise AnalysisError('%s: the sag / slope function of the surface is not followed' % label)
            it._reset_run([])
            out = it.call_value(ffp, [FArr.of((2,), [Const(0), Const(3)]), FArr.of((2,), [Const(0), Const(4)])], {}, None, None)
            if not (isinstance(out, Tup) and len(out.items) == 3):
                raise AnalysisError('%s: the function does not return (sag, dz/dx, dz/dy): %r' % (label, out))
            vals = []
            for v in out.items:
                c0 = v.values()[0] if isinstance(v, FArr) and v.size == 2 else (v if not isinstance(v, FArr) else None)
                vals.append(c0)
            key = repr(vals)
            if key in seen:
                continue
            seen.add(key)
            bad = []
            lost = []
            want = [None, None, None]
            if along is None:
                want = [Rat(dom.R.const(0))] * 3
            else:
                # the parent conic at the decentre s = 5: sag conic_sag(c, k, s^2), slope conic_sag_der(c, k, s) along the decentre, 0 across it
                it._reset_run([])
                zs = it.call_value(it.lookup_global('conic_sag', f.module), [dom.sym('c'), dom.sym('k'), Const(25)], {}, None, None)
                it._reset_run([])
                ds = it.call_value(it.lookup_global('conic_sag_der', f.module), [dom.sym('c'), dom.sym('k'), Const(5)], {}, None, None)
                rz, rd = dom.rat(zs), dom.rat(ds)
                if rz is None or rd is None:
                    raise AnalysisError('%s: conic_sag / conic_sag_der (the parent conic) are not followed' % label)
                want = [rz, rd if along == 'x' else Rat(dom.R.const(0)), rd if along == 'y' else Rat(dom.R.const(0))]
            for name, v, w in zip(('sag', 'dz/dx', 'dz/dy'), vals, want):
                if isinstance(v, Junk):
                    bad.append('%s is %s' % (name, v.why))
                elif v is None or isinstance(v, Unknown):
                    lost.append('%s: %r' % (name, v))
                elif is_nan(v):
                    bad.append('%s is NaN' % name)
                else:
                    r = dom.rat(v)
                    if r is None:
                        lost.append('%s: %r' % (name, v))
                    elif not (r == w):
                        bad.append('%s is %s, the surface has %s there' % (name, r.key()[:90], w.key()[:90]))
            if lost and not bad:
                raise AnalysisError('%s: values at the origin are not followed: %s' % (label, '; '.join(lost)[:200]))
            run.check(not bad, 'C19.axis0', f.qual, 'origin ray on values',
                      '%s: finite sag and slopes, equal to those of the surface at that point' % label,
                      '%s: %s -- the ray through the local origin (the chief ray of an off-axis section, the axial ray of a surface of revolution) is lost or gets the wrong normal' % (label, '; '.join(bad)),
                      f.loc())
            n_ok += not bad
    return n_ok
