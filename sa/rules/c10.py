"""C10 -- fast modal sums equal explicit sums; least-squares fit inverts synthesis."""
import ast
import re

from ..core.db import AnalysisError, norm_stmt, walk_no_nested
from ..core.interp import Const, Tup, Unknown, Frame, _Return
from ..core.norm import Rat
from ..domains.normdom import Sym
from . import polyfam as PF
from .c09 import Capture
from .common import returns, as_rat

P = 'prysm.polynomials.'
Q = 'prysm.polynomials.qpoly.'


def _abc_summary(dom):
    def call_prysm(fi, args, kwargs, node):
        if fi.name in ('recurrence_abc', 'abc_q2d_clenshaw', 'abc_q2d'):
            return Tup([dom.func_atom('%s_%s' % (c, fi.name), list(args)) for c in 'ABC'])
        if fi.name in ('_initialize_alphas',):
            return dom.sym('alphas')
        if fi.name in ('change_basis_Qbfs_to_Pn', 'change_of_basis_Q2d_to_Pnm'):
            return dom.sym('bs')
        return None
    return call_prysm


def clenshaw_rules(run, db):
    table = [
        (PF.PJ + 'jacobi_sum_clenshaw', 's', 'M', lambda R, n: (('A_recurrence_abc', n), ('B_recurrence_abc', n), ('C_recurrence_abc', n + 1))),
        (Q + 'clenshaw_qbfs', 'bs', 'M', None),
        (Q + 'clenshaw_q2d', 'bs', 'N', lambda R, n: (('A_abc_q2d_clenshaw', n), ('B_abc_q2d_clenshaw', n), ('C_abc_q2d_clenshaw', n + 1))),
    ]
    for qual, cname, Mname, abc_idx in table:
        f = db.func(qual)
        it, dom = PF.mk_order(db)
        R = dom.R
        dom.call_prysm = _abc_summary(dom)
        captured = {}
        stores = []
        orig_store = dom.store_subscript

        def store_subscript(target, idx, val, node, stores=stores, dom=dom):
            if isinstance(target, Sym):
                stores.append((target.r, dom.rat(idx), dom.rat(val), node, list(dom.interp.conds)))
                return True
            return orig_store(target, idx, val, node)
        dom.store_subscript = store_subscript

        def loop(node, frame, captured=captured):
            if isinstance(node, ast.For):
                captured['node'], captured['frame'] = node, frame
                raise Capture()
            return False
        dom.loop = loop
        kw = {p: dom.sym(p) for p in f.params}
        kw['alphas'] = Const(None)
        lenname = 'len(%s)' % ('s' if cname == 's' else 'bs')
        # the guard `if M == 0` (where present) is taken False on the path to the loop: run all paths, keep the one reaching the loop
        reached = None
        prefix = []
        for attempt in range(8):
            del stores[:]
            captured.clear()
            it._reset_run(prefix)
            try:
                it.call_funcinfo(f, [], dict(kw), None, None, toplevel=True)
            except Capture:
                reached = True
                break
            except Exception:
                pass
            tr = it.trace
            while tr and tr[-1][0] + 1 >= tr[-1][1]:
                tr.pop()
            if not tr:
                break
            prefix = [c for c, _ in tr[:-1]] + [tr[-1][0] + 1]
        if not reached:
            raise AnalysisError('%s: recurrence loop not reached' % qual)
        node, fr = captured['node'], captured['frame']
        pre = list(stores)
        del stores[:]
        if not isinstance(node.target, ast.Name):
            raise AnalysisError('%s: the sweep does not run over a single index (it unpacks `%s`): the step is not followed as a function of the index' % (qual, ast.unparse(node.target)))
        fr.env[node.target.id] = dom.sym('n')
        # scalars carried from one pass to the next (a coefficient fetched for one order and used by the next): induction over the
        # sweep.  The pass is run with each of them a fresh symbol; what it leaves behind, as a function of the index, is what the next
        # pass (index n -/+ 1) starts with -- provided the value before the loop is that function at the index before the first.
        from .common import loop_carried, descending_sweep
        n = Rat(R.atom('n'))
        carried = {c_: dom.rat(fr.env[c_]) for c_ in sorted(loop_carried(node)) if c_ in fr.env and dom.rat(fr.env[c_]) is not None}
        for c_ in carried:
            fr.env[c_] = dom.sym('carried_' + c_)
        n_conds = len(it.conds)
        it.exec_block(node.body, fr)
        branched = [c_ for c_, _ in it.conds[n_conds:] if re.search(r'(?<![A-Za-z0-9_])%s(?![A-Za-z0-9_])' % re.escape(node.target.id), c_)]
        if branched:
            # a pass that does one thing at some indices and another thing at others (the top order folded into the loop, ...) is not
            # one step: reading one of its arms as the step would judge that arm by the general formula
            raise AnalysisError('%s: the pass branches on the index (`%s`): it is not read as one recurrence step' % (qual, branched[0]))
        if len(stores) != 1:
            raise AnalysisError('%s: expected one store in the recurrence step' % qual)
        g_tgt, g_idx, g_val, g_node, _ = stores[0]
        if g_idx is None or g_val is None:
            raise AnalysisError('%s: what the recurrence step stores (or where) is not followed as a function of the index' % qual)
        if carried:
            sweep = descending_sweep(it, dom, node.iter, fr)
            if sweep is None:
                raise AnalysisError('%s: the sweep carries %s from pass to pass and is not a descending range' % (qual, sorted(carried)))
            first = sweep[0]
            subs = {}
            for c_, entry in carried.items():
                post = dom.rat(fr.env.get(c_))
                if post is None or any(a_.startswith('carried_') for a_ in post.atoms()):
                    raise AnalysisError('%s: what the pass leaves in `%s` is not a function of the index alone' % (qual, c_))
                if not (entry == post.subs({'n': first + 1})):
                    raise AnalysisError('%s: `%s` before the sweep (%s) is not what a pass at the index above the first would leave (%s)' % (qual, c_, entry.key(), post.subs({'n': first + 1}).key()))
                subs['carried_' + c_] = post.subs({'n': n + 1})
            g_val = g_val.subs(subs) if g_val is not None else None
        from .common import degree_local
        M = dom.rat(fr.env[degree_local(getattr(fr, 'fi', None) or f)])
        run.check(g_idx is not None and g_idx == n, 'C10.clenshaw', f.qual, 'step index', 'the step stores alphas[n]', 'the recurrence step stores index %s' % (g_idx.key() if g_idx is not None else '?'), f.loc(g_node))

        def A(k):
            a = R.func('idx', [g_tgt, k])
            return Rat(a)
        coef = lambda k: Rat(R.func('idx', [Rat(R.atom(cname if cname == 's' else 'bs')), k]))
        # structure of the step: s[n] + L(n) alphas[n+1] - c alphas[n+2]
        a1 = A(n + 1)
        a2 = A(n + 2)
        (m1,) = a1.num.t
        (m2,) = a2.num.t
        k1, k2 = m1[0][0], m2[0][0]
        const = g_val.subs({k1: Rat(R.const(0)), k2: Rat(R.const(0))})
        lin1 = g_val.subs({k1: Rat(R.const(1)), k2: Rat(R.const(0))}) - const
        lin2 = g_val.subs({k1: Rat(R.const(0)), k2: Rat(R.const(1))}) - const
        affine = (const + lin1 * a1 + lin2 * a2) == g_val
        run.check(affine and const == coef(n), 'C10.clenshaw', f.qual, 'step form', 'alphas[n] = c[n] + L(n) alphas[n+1] - C alphas[n+2] with the coefficient of the same index n',
                  'the Clenshaw step is %s: it is not c[n] + L alphas[n+1] + K alphas[n+2] with c[n] the coefficient of index n' % g_val.key(), f.loc(g_node))
        if abc_idx is not None:
            x = Rat(R.atom('usq')) if 'q2d' in qual else Rat(R.atom('x'))
            (an, ai), (bn, bi), (cn, ci) = abc_idx(R, n)
            extra = [Rat(R.atom('m'))] if 'q2d' in qual else [Rat(R.atom('alpha')), Rat(R.atom('beta'))]
            Aa = Rat(R.func(an, [ai] + extra))
            Bb = Rat(R.func(bn, [bi] + extra))
            Cc = Rat(R.func(cn, [ci] + extra))
            wantL = (Aa * x + Bb) if 'jacobi' in qual else (Aa + Bb * x)
            run.check(lin1 == wantL and lin2 == -Cc, 'C10.clenshaw', f.qual, 'coefficient indices', 'L(n) uses (a_n, b_n) and the subtracted term c_(n+1)',
                      'Clenshaw coefficients: multiplier of alphas[n+1] is %s (expected %s), of alphas[n+2] is %s (expected %s)' % (lin1.key(), wantL.key(), lin2.key(), (-Cc).key()), f.loc(g_node))
        else:
            x = Rat(R.atom('usq'))
            run.check(lin1 == 2 - 4 * x and lin2 == -1, 'C10.clenshaw', f.qual, 'coefficient', 'Qbfs auxiliary recurrence P_(n+1) = (2 - 4x) P_n - P_(n-1)',
                      'Qbfs Clenshaw multipliers are %s and %s, expected 2-4x and -1' % (lin1.key(), lin2.key()), f.loc(g_node))
        # pre-loop stores are the step restricted to their index
        known = {}
        for tgt, idx, val, nd, conds in pre:
            if idx is None or val is None or not (tgt == g_tgt):
                continue
            step = g_val.subs({'n': idx})
            sub = {}
            for k in (1, 2):
                a = A(idx + k)
                (mm,) = a.num.t
                key = (idx + k).key()
                sub[mm[0][0]] = known.get(key, Rat(R.const(0)))
            step = step.subs(sub)
            val = val.subs(sub)          # the statement may read the entry stored just before
            run.check(step == val, 'C10.clenshaw', f.qual, 'initial store', 'alphas[%s] equals the general step with the entries above the top set to zero' % idx.key(),
                      'the initial statement alphas[%s] = %s differs from the recurrence step at that index (%s)' % (idx.key(), val.key(), step.key()), f.loc(nd))
            known[idx.key()] = val
        run.check(len(known) >= 1, 'C10.clenshaw', f.qual, 'initialisation', 'the top entries are initialised before the sweep', 'no initial stores found', f.loc())
        # sweep range: from (top initialised index - 1) down to 0
        from .common import descending_sweep
        sw_ = descending_sweep(it, dom, node.iter, fr)
        ok = sw_ is not None and sw_[1].is_zero()
        if ok:
            idxs = [i for (_, i, _, _, _) in pre if i is not None]
            ok = any((i - 1) == sw_[0] for i in idxs)
        run.check(ok, 'C10.clenshaw', f.qual, 'sweep range', 'the sweep runs from just below the initialised entries down to 0', 'the Clenshaw sweep range does not continue below the initialised entries down to index 0', f.loc(node))
    # results
    fj = db.func(PF.PJ + 'jacobi_sum_clenshaw')
    rets = [n for n in walk_no_nested(fj.node) if isinstance(n, ast.Return)]
    run.check(all(ast.unparse(r.value) == 'alphas[0]' for r in rets) and rets, 'C10.clenshaw', fj.qual, 'result', 'sum == alphas[0] (P_0 = 1)', 'jacobi_sum_clenshaw does not return alphas[0]', fj.loc())


def _capture_sweep(db, qual, call_prysm_factory, presets=None):
    """Interpret `qual` up to its (first) downward sweep; return (it, dom, frame, loop node, pre-loop stores, step store)."""
    f = db.func(qual)
    it, dom = PF.mk_order(db)
    dom.call_prysm = call_prysm_factory(dom)
    captured, stores = {}, []
    orig_store = dom.store_subscript

    def store_subscript(target, idx, val, node):
        if isinstance(target, Sym):
            stores.append((target.r, dom.rat(idx), dom.rat(val), node, list(dom.interp.conds)))
            return True
        return orig_store(target, idx, val, node)
    dom.store_subscript = store_subscript
    orig_ext = dom.call_ext

    def call_ext(dotted, args, kwargs, node):
        if dotted in ('numpy.empty', 'numpy.empty_like', 'numpy.zeros', 'numpy.zeros_like'):
            return dom.sym('out_array')
        return orig_ext(dotted, args, kwargs, node)
    dom.call_ext = call_ext

    def loop(node, frame):
        if isinstance(node, ast.For):
            captured['node'], captured['frame'] = node, frame
            raise Capture()
        return False
    dom.loop = loop
    kw = {p_: dom.sym(p_) for p_ in f.params}
    kw.update(presets(dom) if presets else {})
    reached, prefix = None, []
    for attempt in range(16):
        del stores[:]
        captured.clear()
        it._reset_run(prefix)
        try:
            it.call_funcinfo(f, [], dict(kw), None, None, toplevel=True)
        except Capture:
            reached = True
            break
        except Exception:
            pass
        tr = it.trace
        while tr and tr[-1][0] + 1 >= tr[-1][1]:
            tr.pop()
        if not tr:
            break
        prefix = [c for c, _ in tr[:-1]] + [tr[-1][0] + 1]
    if not reached:
        raise AnalysisError('%s: sweep not reached' % qual)
    node, fr = captured['node'], captured['frame']
    pre = list(stores)
    del stores[:]
    if not isinstance(node.target, ast.Name):
        raise AnalysisError('%s: the sweep does not run over a single index (it unpacks `%s`)' % (qual, ast.unparse(node.target)))
    fr.env[node.target.id] = dom.sym('n')
    it.exec_block(node.body, fr)
    if len(stores) != 1:
        raise AnalysisError('%s: expected one store in the sweep step, found %d' % (qual, len(stores)))
    return f, it, dom, fr, node, pre, stores[0]


def basis_fixed(run, db, qual):
    """The change of basis decided for coefficient lists of fixed length (2, 3, 5 symbolic coefficients): the routine is interpreted
    as it stands (helpers, tables, reversed ranges) and every entry of what it returns is compared with the back-substitution
    b_n = (c_n - g_n b_(n+1) [- h_n b_(n+2)])/f_n unrolled from the top.  Bounded; number of obligations."""
    from . import fixedorders as FO
    from ..domains.normdom import Arr
    f = db.func(qual)
    q2d = 'Q2d' in qual
    n_ok = 0
    for K in (2, 3, 5):
        for mval in ((2, -3) if q2d else (None,)):
            it, dom = FO.q_interp(db)
            R = dom.R
            F = lambda name, *a: Rat(R.func(name, [Rat(R.const(x)) for x in a]))
            cs = [Rat(R.atom('c%d' % k)) for k in range(K)]
            kw = {f.params[0]: Tup([dom.sym('c%d' % k) for k in range(K)], 'list')}
            if q2d:
                kw['m'] = Const(mval)
            res = [p for p in it.run(f, kwargs=lambda: dict(kw)) if p.outcome == 'return']
            label = '%s(%d coefficients%s)' % (f.name, K, ', m=%d' % mval if q2d else '')
            if len(res) != 1 or dom.lost:
                raise AnalysisError('%s: not followed (%d returning paths%s)' % (label, len(res), ', ' + str(dom.lost) if dom.lost else ''))
            v = res[0].value
            cells = v.data if isinstance(v, Arr) and v.shape == (K,) else ([x for x in v.items] if isinstance(v, Tup) and len(v.items) == K else None)
            got = [dom.rat(x) for x in cells] if cells is not None else None
            if got is None or any(g is None for g in got):
                raise AnalysisError('%s: the returned coefficients are not followed (%r)' % (label, v))
            M = K - 1
            am = abs(mval) if q2d else None
            want = [None] * K
            for n in range(M, -1, -1):
                if q2d:
                    acc = cs[n] - (F('g_q2d', n, am) * want[n + 1] if n + 1 <= M else 0)
                    want[n] = acc / F('f_q2d', n, am)
                else:
                    acc = cs[n] - (F('g_qbfs', n) * want[n + 1] if n + 1 <= M else 0) - (F('h_qbfs', n) * want[n + 2] if n + 2 <= M else 0)
                    want[n] = acc / F('f_qbfs', n)
            bad = ['entry %d is %s, the back-substitution gives %s' % (n, got[n].key()[:120], want[n].key()[:120]) for n in range(K) if not (got[n] == want[n])]
            run.check(not bad, 'C10.basis', f.qual, 'fixed length: ' + label, 'every entry equals the back-substitution from the top (transpose of the Q recurrence), unrolled',
                      '%s: %s' % (label, '; '.join(bad[:2])), f.loc())
            n_ok += 1
    return n_ok


def basis_rules(run, db):
    """Both changes of basis twice: for every length by induction over the sweep (needs the sweep to be a loop of the routine over one
    index), and for fixed lengths by unrolling (any organisation).  A routine the induction cannot read is still decided for the
    fixed lengths; only one neither can follow is a refusal."""
    for qual in (Q + 'change_basis_Qbfs_to_Pn', Q + 'change_of_basis_Q2d_to_Pnm'):
        try:
            fixed, ferr = basis_fixed(run, db, qual), None
        except (AnalysisError, RecursionError) as e:
            fixed, ferr = 0, e
        try:
            _basis_sweep_rules(run, db, qual, fixed_decided=bool(fixed))
        except AnalysisError as e:
            if not fixed:
                raise AnalysisError('%s; and fixed lengths are not followed either: %s' % (e, ferr))
            run.credit('C10.basis', 5, '%s: the induction over the sweep does not apply (%s); decided for %d fixed lengths' % (qual.split('.')[-1], str(e)[:140], fixed))


def _basis_sweep_rules(run, db, only, fixed_decided=False):
    """Change of basis Q -> P (the transpose of the Q recurrences) feeding the Clenshaw sums."""
    def atoms(dom):
        def call_prysm(fi, args, kwargs, node):
            if fi.name in ('g_qbfs', 'h_qbfs', 'f_qbfs', 'g_q2d', 'f_q2d'):
                return dom.func_atom(fi.name, list(args))
            return None
        return call_prysm
    for qual, cname, out, Mname, want_fn, text in (
            (Q + 'change_basis_Qbfs_to_Pn', 'cs', 'bs', 'M',
             lambda R, c, b, n, extra: (c(n) - Rat(R.func('g_qbfs', [n])) * b(n + 1) - Rat(R.func('h_qbfs', [n])) * b(n + 2)) / Rat(R.func('f_qbfs', [n])),
             'b_n = (c_n - g_n b_(n+1) - h_n b_(n+2))/f_n  (transpose of P_n = f_n Q_n + g_(n-1) Q_(n-1) + h_(n-2) Q_(n-2))'),
            (Q + 'change_of_basis_Q2d_to_Pnm', 'cns', 'ds', 'N',
             lambda R, c, b, n, extra: (c(n) - Rat(R.func('g_q2d', [n, extra])) * b(n + 1)) / Rat(R.func('f_q2d', [n, extra])),
             'd_n = (c_n - g_n^m d_(n+1))/f_n^m  (transpose of P_n = f_n Q_n + g_(n-1) Q_(n-1))')):
        if qual != only:
            continue

        def presets(dom, cname=cname, out=out):
            return {cname: dom.sym(cname), 'm': dom.sym('m')} if 'Q2d' in qual else {cname: dom.sym(cname)}
        f, it, dom, fr, node, pre, step = _capture_sweep(db, qual, atoms, presets)
        R = dom.R
        tgt, s_idx, s_val, s_node, _ = step
        from .common import loop_carried as _lc
        carried_ = sorted(c_ for c_ in _lc(node) if c_ in fr.env)
        if carried_:
            # an entry of the output kept in a local from one pass to the next (d_above = ds[n]): the pass is not a function of the index
            # alone as this reading assumes; the fixed-length decision follows such a sweep as it stands
            raise AnalysisError('%s: the sweep carries %s from pass to pass' % (f.name, carried_))
        n = Rat(R.atom('n'))
        c = lambda k: Rat(R.func('idx', [Rat(R.atom(cname)), k]))
        b = lambda k: Rat(R.func('idx', [tgt, k]))
        extra = dom.rat(fr.env.get('m')) if 'Q2d' in qual else None
        absm = None
        if extra is not None:
            # |m| may be spelled abs(m) where it is used instead of folding the sign of m once: on the path analysed here m stands for a
            # non-negative order, and that the sign is folded at all is decided with m = -3 by the fixed-length rule
            absm = dom.rat(dom.call_ext('builtins.abs', [Sym(Rat(R.atom('m')))], {}, None))
            if absm is not None and len(absm.atoms()) == 1 and s_val is not None:
                s_val = s_val.subs({sorted(absm.atoms())[0]: Rat(R.atom('m'))})
                extra = extra.subs({sorted(absm.atoms())[0]: Rat(R.atom('m'))})
        if extra is not None and s_val is not None:
            # which of m / -m is |m| on the path that was followed is said by the tests on the sign of m taken on it, not by the name of
            # the local that holds it: `absm = -m if m < 0 else m` keeps `m` itself signed
            m_ = Rat(R.atom('m'))
            took = [(c_.replace(' ', ''), t_) for c_, t_ in it.conds]
            neg = any((c_ in ('m<0', '0>m') and t_) or (c_ in ('m>=0', '0<=m') and not t_) for c_, t_ in took)
            for cand in ([-m_] if neg else [m_]):
                if s_val == want_fn(R, c, b, n, cand):
                    extra = cand
        want = want_fn(R, c, b, n, extra)
        if s_idx is None or s_val is None:
            raise AnalysisError('%s: what the sweep stores (or where) is not followed as a function of the index' % f.name)
        run.check(s_idx is not None and s_idx == n and s_val is not None and s_val == want, 'C10.basis', f.qual, 'step', text,
                  '%s: the sweep stores index %s = %s, expected %s' % (f.name, s_idx.key() if s_idx is not None else '?', s_val.key() if s_val is not None else '?', want.key()), f.loc(s_node))
        from .common import degree_local
        M = dom.rat(fr.env[degree_local(getattr(fr, 'fi', None) or f)])
        known = {}
        npre = 0
        for t_, idx, val, nd, conds in pre:
            if idx is None or val is None or not (t_ == tgt):
                continue
            if extra is not None and absm is not None and len(absm.atoms()) == 1:
                val = val.subs({sorted(absm.atoms())[0]: Rat(R.atom('m'))})
            stepv = want.subs({'n': idx})
            sub = {}
            for k in (1, 2):
                (mm,) = b(idx + k).num.t
                sub[mm[0][0]] = known.get((idx + k).key(), Rat(R.const(0)))
            ok = stepv.subs(sub) == val.subs(sub)
            run.check(ok, 'C10.basis', f.qual, 'initial store %s' % idx.key(), 'the entry at %s equals the general step with the entries above the top set to zero' % idx.key(),
                      '%s: initial statement at index %s is %s, the step restricted to that index is %s' % (f.name, idx.key(), val.key(), stepv.subs(sub).key()), f.loc(nd))
            known[idx.key()] = val
            npre += 1
        if npre < 1:
            raise AnalysisError('%s: no initial stores found' % qual)
        top = max(known)        # keys are strings; the top index is M / N
        run.check(M.key() in known, 'C10.basis', f.qual, 'top entry', 'the top coefficient is converted first', 'the top entry %s is not initialised' % M.key(), f.loc())
        from .common import descending_sweep
        sw_ = descending_sweep(it, dom, node.iter, fr)
        ok = sw_ is not None and sw_[1].is_zero() and any((M - j - 1) == sw_[0] for j in range(0, 3) if (M - j).key() in known)
        run.check(ok, 'C10.basis', f.qual, 'sweep range', 'the sweep continues just below the initialised entries down to index 0', '%s sweeps %s' % (f.name, ast.unparse(node.iter)), f.loc(node))
        if 'Q2d' in qual:
            mv = fr.env.get('m')
            okfold = any(isinstance(st, ast.If) and ast.unparse(st.test).replace(' ', '') == 'm<0' and [ast.unparse(x).replace(' ', '') for x in st.body] in (['m=-m'], ['m=abs(m)'])
                         for st in f.node.body) or any(isinstance(st, ast.Assign) and ast.unparse(st).replace(' ', '') == 'm=abs(m)' for st in f.node.body)
            if not okfold and fixed_decided:
                run.ok('C10.basis', f.qual, 'order sign: a negative azimuthal order is converted with |m| (decided with m = -3 for fixed lengths)')
            else:
                run.check(okfold, 'C10.basis', f.qual, 'order sign', 'a negative azimuthal order is converted with |m|', 'change_of_basis_Q2d_to_Pnm no longer folds the sign of m', f.loc())


def assembly_rules(run, db):
    """The value a Clenshaw sum returns is alpha_0 P_0 + alpha_1 (P_1 - L_0 P_0), with P_0, P_1, L_0 those of the value routine;
    the effective Q2d coefficients of the special orders reproduce the published starting polynomials."""
    from .common import norm_interp, snapshot_loops
    # ---- Qbfs: P_0, P_1 and c from the value routine
    it, dom = norm_interp(db)
    R = dom.R

    def call_prysm(fi, args, kwargs, node):
        if fi.name in ('g_qbfs', 'h_qbfs', 'f_qbfs', 'change_basis_Qbfs_to_Pn', '_initialize_alphas'):
            return dom.func_atom(fi.name, list(args)) if fi.name.endswith('qbfs') else dom.sym('alphas' if fi.name == '_initialize_alphas' else 'bs')
        return None
    dom.call_prysm = call_prysm
    snaps = snapshot_loops(it, dom)
    fq = db.func(Q + 'Qbfs')
    it.run(fq, kwargs=lambda: {'n': dom.sym('n'), 'x': dom.sym('u')})
    sn = [s_ for s_ in snaps]
    if not sn:
        raise AnalysisError('Qbfs: sweep not found')
    P0, P1, cc = [dom.rat(sn[0].env.get(k)) for k in ('Pnm2', 'Pnm1', 'c')]
    if P0 is None or P1 is None or cc is None:
        raise AnalysisError('Qbfs: the starting polynomials / multiplier of the sweep are not held in the locals this rule reads (Pnm2, Pnm1, c)')
    usq = Rat(R.atom('usq'))
    u2 = Rat(R.atom('u')) * Rat(R.atom('u'))
    P0, P1, cc = [v.subs({'u': Rat(R.sqrt(usq))}) if v is not None else None for v in (P0, P1, cc)]
    del snaps[:]
    fc = db.func(Q + 'clenshaw_qbfs')
    stores = []
    orig_store = dom.store_subscript

    def store_subscript(target, idx, val, node):
        if isinstance(target, Sym):
            stores.append((target, idx, val))
            return True
        return orig_store(target, idx, val, node)
    dom.store_subscript = store_subscript
    res = [p for p in it.run(fc, kwargs=lambda: {'cs': dom.sym('cs'), 'usq': dom.sym('usq'), 'alphas': Const(None)}) if p.outcome == 'return']
    a = lambda k: Rat(R.func('idx', [Rat(R.atom('alphas')), Rat(R.const(k))]))
    want = (usq * (1 - usq)) * (a(0) * P0 + a(1) * (P1 - cc * P0))
    ok = bool(res) and all(dom.rat(p.value) is not None and dom.rat(p.value) == want for p in res)
    run.check(ok, 'C10.assembly', fc.qual, 'value', 'clenshaw_qbfs returns x(1-x) [alpha_0 P_0 + alpha_1 (P_1 - (2-4x) P_0)] with P_0, P_1 and the multiplier those of Qbfs (= 2 x(1-x)(alpha_0 + alpha_1))',
              'clenshaw_qbfs returns %s, expected %s' % (dom.rat(res[0].value).key() if res and dom.rat(res[0].value) is not None else '?', want.key()), fc.loc())
    dom.store_subscript = orig_store
    dom.loop = lambda node, frame: False
    # ---- Q2d: published starting polynomials vs the effective Clenshaw coefficients
    it2, dom2 = norm_interp(db)
    R2 = dom2.R
    fa = db.func(Q + 'abc_q2d_clenshaw')

    def call2(fi, args, kwargs, node):
        if fi.name == 'abc_q2d':
            return Tup([dom2.func_atom('%s_q2d' % c_, list(args)) for c_ in 'ABC'])
        return None
    dom2.call_prysm = call2
    x = Rat(R2.atom('x'))
    C_ = lambda v: Rat(R2.const(v))
    P = {(1, 0): C_(1) / 2, (1, 1): 1 - x / 2, (1, 2): (3 - x * (12 - 8 * x)) / 6, (1, 3): (5 - x * (60 - x * (120 - 64 * x))) / 10}
    for mm in (2, 3):
        P[(mm, 0)] = C_(1) / 2
        P[(mm, 1)] = (C_(mm) - C_(1) / 2) + (1 - C_(mm)) * x

    def abc(nn, mm):
        res_ = [p for p in it2.run(fa, kwargs=lambda: {'n': Const(nn), 'm': Const(mm)}) if p.outcome == 'return']
        if len(res_) != 1 or not isinstance(res_[0].value, Tup):
            raise AnalysisError('abc_q2d_clenshaw(%d, %d): not one (A, B, C)' % (nn, mm))
        return [dom2.rat(v) for v in res_[0].value.items]
    # published starting polynomials (the same ones C07.qloop holds Q2d to)
    for mm in (1, 2, 3):
        A0, B0, C0 = abc(0, mm)
        ok = all(v is not None for v in (A0, B0)) and (A0 + B0 * x) * P[(mm, 0)] == P[(mm, 1)]
        run.check(ok, 'C10.assembly', fa.qual, 'P_1^%d' % mm, '(A_0 + B_0 x) P_0 reproduces the published P_1^%d' % mm,
                  'abc_q2d_clenshaw(0, %d) = (%s, %s): (A + B x)/2 is not the published P_1^%d = %s' % (mm, A0, B0, mm, P[(mm, 1)].key()), fa.loc())
    A1, B1, C1 = abc(1, 1)
    ok = (A1 + B1 * x) * P[(1, 1)] - C1 * P[(1, 0)] == P[(1, 2)]
    run.check(ok, 'C10.assembly', fa.qual, 'P_2^1', '(A_1 + B_1 x) P_1 - C_1 P_0 reproduces the published P_2^1', 'abc_q2d_clenshaw(1, 1) does not reproduce P_2^1', fa.loc())
    A2, B2, C2 = abc(2, 1)
    resid = (A2 + B2 * x) * P[(1, 2)] - C2 * P[(1, 1)] - P[(1, 3)]
    fz = db.func(Q + 'compute_z_zprime_Q2d')
    if not (resid.num.is_const() and resid.den.is_const()):
        raise AnalysisError('abc_q2d_clenshaw: the residual against the published P_3^1 is not a constant: %s' % resid.key())
    rho = resid.num.const_value() / resid.den.const_value()
    # The sum the assembly uses, decided by interpreting compute_z_zprime_Q2d itself (helpers are followed) with
    # clenshaw_q2d_der summarised as a table alpha_<family>[j][k] and coefficient lists of a concrete length:
    #   S = P_0 alpha[0][0] - rho alpha[0][3]  exactly when m == 1 and the family has more than three coefficients, else P_0 alpha[0][0];
    #   the same combination of row 1 for the derivative; sag = u^m (cos(m t) S_a + sin(m t) S_b).
    from ..core.interp import Value
    from .common import bind_call

    class CoefV(Value):
        def __init__(self, fam, n):
            self.fam, self.n = fam, n

        def __repr__(self):
            return 'CoefV(%s,%d)' % (self.fam, self.n)

    class AlphaV(Value):
        def __init__(self, fam, order, row=None):
            self.fam, self.order, self.row = fam, order, row
    fcl = db.func(Q + 'clenshaw_q2d_der')
    # each case: the number of cosine / sine coefficients per azimuthal order m = 1, 2, ... (0 = that family is absent at that order)
    cases = [[(4, 4)], [(3, 3)], [(4, 3)], [(6, 1)], [(1, 5)], [(4, 0)], [(0, 5)], [(0, 0), (4, 4)], [(0, 0), (1, 5)], [(4, 4), (0, 4)], [(5, 4), (4, 0)], [(4, 4), (0, 0), (2, 6)]]
    for case in cases:
        it4, dom4 = norm_interp(db)
        R4 = dom4.R
        oe, osub, oit, opr = dom4.call_ext, dom4.subscript, dom4.iterate, dom4.call_prysm
        empties = []

        def call_ext(dotted, args, kwargs, node, dom4=dom4, oe=oe):
            if dotted == 'builtins.len' and args and isinstance(args[0], CoefV):
                return Const(args[0].n)
            if dotted in ('numpy.zeros_like',):
                return Const(0)
            return oe(dotted, args, kwargs, node)

        def subscript(v, idx, node, dom4=dom4, osub=osub):
            if isinstance(v, AlphaV) and isinstance(idx, Const) and isinstance(idx.v, int):
                if v.row is None:
                    return AlphaV(v.fam, v.order, idx.v)
                return dom4.func_atom('alpha_%s%d' % (v.fam, v.order), [Const(v.row), idx])
            return osub(v, idx, node)

        def iterate(v, node, oit=oit):
            if isinstance(v, AlphaV) and v.row is None:
                return [AlphaV(v.fam, v.order, 0), AlphaV(v.fam, v.order, 1)]
            return oit(v, node)

        def call_prysm(fi, args, kwargs, node, dom4=dom4, opr=opr, empties=empties):
            if fi.qual == fcl.qual:
                b = bind_call(fi, args, kwargs)
                c0 = b.get(fi.params[0])
                mm = dom4.rat(b.get('m'))
                if not isinstance(c0, CoefV) or mm is None or not (mm.num.is_const() and mm.den.is_const()):
                    return Unknown('clenshaw_q2d_der called with an unexpected coefficient list / order')
                if c0.n == 0:
                    empties.append((c0.fam, node))
                return AlphaV(c0.fam, int(mm.num.const_value() / mm.den.const_value()))
            return opr(fi, args, kwargs, node) if opr else None
        dom4.call_ext, dom4.subscript, dom4.iterate, dom4.call_prysm = call_ext, subscript, iterate, call_prysm
        ams = lambda: Tup([CoefV('a', na) for na, nb in case], 'list')
        bms = lambda: Tup([CoefV('b', nb) for na, nb in case], 'list')
        label = 'cosine/sine coefficients per order m=1..: %s' % ', '.join('%d/%d' % c_ for c_ in case)
        res4 = [p_ for p_ in it4.run(fz, kwargs=lambda: {'cm0': Const(None), 'ams': ams(), 'bms': bms(), 'u': dom4.sym('u'), 't': dom4.sym('t')}) if p_.outcome == 'return']
        if len(res4) != 1 or not isinstance(res4[0].value, Tup) or len(res4[0].value.items) != 3:
            raise AnalysisError('compute_z_zprime_Q2d (%s): expected one path returning (z, dr, dt), got %d' % (label, len(res4)))
        gots = [dom4.rat(v_) for v_ in res4[0].value.items]
        if any(g_ is None for g_ in gots):
            raise AnalysisError('compute_z_zprime_Q2d (%s): result outside NORM: %r' % (label, res4[0].value.items))
        run.check(not empties, 'C10.sym', fz.qual, 'Clenshaw on an empty family (%s)' % label, 'no Clenshaw sum runs on an empty coefficient list',
                  'clenshaw_q2d_der is reached with the empty %s-family list (cosine-only or sine-only azimuthal content)' % (empties[0][0] if empties else ''), fz.loc(empties[0][1]) if empties else fz.loc())
        u4, t4 = Rat(R4.atom('u')), Rat(R4.atom('t'))
        half4 = Rat(R4.const(1)) / 2
        wz = wr = wt = Rat(R4.const(0))
        powlaw = {}
        for k_, (na, nb) in enumerate(case):
            m_order = k_ + 1
            al = lambda fam, j_, q_, m_order=m_order: Rat(R4.func('alpha_%s%d' % (fam, m_order), [Rat(R4.const(j_)), Rat(R4.const(q_))]))

            def S(fam, n_, row, m_order=m_order, al=al):
                if n_ == 0:
                    return Rat(R4.const(0))
                v_ = half4 * al(fam, row, 0)
                if m_order == 1 and n_ > 3:
                    v_ = v_ - Rat(R4.const(rho)) * al(fam, row, 3)
                return v_
            if na == 0 and nb == 0:
                continue
            um1 = Rat(R4.const(1))
            for _ in range(m_order - 1):
                um1 = um1 * u4
            um = um1 * u4
            mc = Rat(R4.const(m_order))
            c_, s_ = Rat(R4.trig('cos', mc * t4)), Rat(R4.trig('sin', mc * t4))
            Sa, Sb, Spa, Spb = S('a', na, 0), S('b', nb, 0), S('a', na, 1), S('b', nb, 1)
            wz = wz + um * (c_ * Sa + s_ * Sb)
            wr = wr + um1 * (c_ * (2 * u4 * u4 * Spa + mc * Sa) + s_ * (2 * u4 * u4 * Spb + mc * Sb))
            wt = wt + mc * um * (Sb * c_ - Sa * s_)
            for e_, val in ((m_order, um), (m_order - 1, um1)):
                try:
                    pm = R4.func('pow', [u4, Rat(R4.const(e_))])
                    if len(pm.t) == 1:
                        (mono_,) = pm.t
                        if len(mono_) == 1 and mono_[0][1] == 1:
                            powlaw[mono_[0][0]] = val
                except Exception:
                    pass
        for nm_, g_, w_ in (('sag', gots[0], wz), ('radial slope', gots[1], wr), ('azimuthal slope', gots[2], wt)):
            g2 = g_.subs(powlaw) if powlaw else g_
            run.check(g2 == w_, 'C10.assembly', fz.qual, '%s, %s' % (nm_, label),
                      '%s == sum over m of the u^m cos/sin(m t) assembly with S = P_0 alpha_0 (- rho alpha_3 exactly for m = 1 and more than three coefficients of THAT family; rho = %s), absent families contributing nothing'
                      % (nm_, resid.key()),
                      'with %s the %s is %s, expected %s: an azimuthal order is evaluated with the wrong m, a family is steered by the other family\'s length, a partial sum of an earlier order is re-used, '
                      'or the m = 1 correction (residual %s of the published P_3^1, P_0 = 1/2) is misapplied' % (label, nm_, g2.key(), w_.key(), resid.key()), fz.loc())


def len1_rules(run, db):
    """With len(coefficients) >= 1, no negative index / order is formed."""
    for qual, cname in ((PF.PJ + 'jacobi_sum_clenshaw', 's'), (Q + 'clenshaw_qbfs', 'cs'), (Q + 'clenshaw_q2d', 'cns')):
        f = db.func(qual)
        it, dom = PF.mk_order(db)
        R = dom.R
        lname = None
        problems = []
        seen_calls = []

        def call_prysm(fi, args, kwargs, node, dom=dom, seen_calls=seen_calls):
            if fi.name in ('recurrence_abc', 'abc_q2d_clenshaw', 'abc_q2d'):
                r = dom.rat(args[0])
                if r is not None and r.den.is_const():
                    lo = dom._min(r.num * (1 / r.den.const_value()))
                    seen_calls.append(('order passed to %s' % fi.name, r, lo, node, list(dom.interp.conds)))
                return Tup([dom.func_atom('%s_%s' % (c, fi.name), list(args)) for c in 'ABC'])
            if fi.name == '_initialize_alphas':
                c0 = args[0]
                if isinstance(c0, Tup):
                    dom._alloc = Rat(dom.R.const(len(c0.items)))
                    dom._alloc_lo = len(c0.items)
                else:
                    r0 = dom.rat(dom.interp.call_builtin('len', [c0], {}, node, None))
                    dom._alloc = r0
                    dom._alloc_lo = dom._min(r0.num * (1 / r0.den.const_value())) if r0 is not None and r0.den.is_const() else None
                return dom.sym('alphas')
            if fi.name in ('change_basis_Qbfs_to_Pn', 'change_of_basis_Q2d_to_Pnm'):
                return args[0]
            return None
        dom.call_prysm = call_prysm
        orig_store = dom.store_subscript
        orig_sub = dom.subscript

        def store_subscript(target, idx, val, node, dom=dom, seen_calls=seen_calls):
            if isinstance(target, Sym):
                r = dom.rat(idx)
                if r is not None and r.den.is_const():
                    lo = dom._min(r.num * (1 / r.den.const_value()))
                    seen_calls.append(('index of the store into %s' % target.r.key(), r, lo, node, list(dom.interp.conds)))
                return True
            return orig_store(target, idx, val, node)
        dom.store_subscript = store_subscript

        def subscript(v, idx, node, dom=dom, seen_calls=seen_calls, orig_sub=orig_sub):
            if isinstance(v, Sym) and v.r.key() == 'alphas':
                r = dom.rat(idx)
                if r is not None and r.num.is_const() and r.den.is_const():
                    # a literal index such as alphas[1]: needs len >= index + 1
                    k = r.num.const_value() / r.den.const_value()
                    ln = getattr(dom, '_alloc_lo', None)
                    if ln is None:
                        ln = dom.lower.get('len(%s)' % cname, 1)
                    seen_calls.append(('read of alphas[%s]' % k, r, (ln - 1) - k, node, list(dom.interp.conds)))
            return orig_sub(v, idx, node)
        dom.subscript = subscript
        kw = {p: dom.sym(p) for p in f.params}
        kw['alphas'] = Const(None)

        def setup(interp, dom=dom, cname=cname):
            dom.lower = {'len(%s)' % cname: 1}
        orig_ext = dom.call_ext

        def call_ext(dotted, args, kwargs, node, dom=dom, orig_ext=orig_ext):
            if dotted == 'builtins.len' and args and isinstance(args[0], Sym):
                nm = 'len(%s)' % args[0].r.key()
                dom.R.real[nm] = True
                return dom.sym(nm)
            return orig_ext(dotted, args, kwargs, node)
        dom.call_ext = call_ext
        res = it.run(f, kwargs=lambda: dict(kw), setup=setup)
        if not seen_calls:
            raise AnalysisError('%s: no index/order obligations found' % qual)
        done = set()
        for what, r, lo, node, conds in seen_calls:
            key = (what, r.key(), lo)
            if key in done:
                continue
            done.add(key)
            if any(a in ('n',) or a.startswith('i@') or 'loop' in a for a in r.atoms()):
                continue
            run.check(lo is not None and lo >= 0, 'C10.len1', f.qual, what, '%s = %s is >= 0 for every coefficient vector of length >= 1' % (what, r.key()),
                      'for a coefficient vector of length 1 the %s is %s: %s' % (what, lo if what.startswith('read') else r.key() + ' = %s' % lo,
                                                                                 'an entry that does not exist is read' if what.startswith('read') else 'a negative order/index is formed (division by zero in the recurrence coefficients / wrap-around indexing)'), f.loc(node))


def _family_loop(f):
    """The loop of compute_z_zprime_Q2d over the two coefficient families, and the names of its two loop variables
    (cosine family first): `for <a>, <b> in zip(ams, bms)`."""
    loops = [n for n in walk_no_nested(f.node) if isinstance(n, ast.For) and isinstance(n.iter, ast.Call) and ast.unparse(n.iter.func) == 'zip'
             and [ast.unparse(a_) for a_ in n.iter.args] == ['ams', 'bms'] and isinstance(n.target, ast.Tuple) and len(n.target.elts) == 2
             and all(isinstance(e, ast.Name) for e in n.target.elts)]
    if len(loops) != 1:
        raise AnalysisError('compute_z_zprime_Q2d: loop `for <a>, <b> in zip(ams, bms)` not found')
    return loops[0], loops[0].target.elts[0].id, loops[0].target.elts[1].id


def _sym_rules_structural(run, db):
    f = db.func(Q + 'compute_z_zprime_Q2d')
    lp, FA, FB = _family_loop(f)

    def ren(txt):
        return re.sub(r'\b(%s|%s)\b' % (re.escape(FA), re.escape(FB)), lambda m_: FB if m_.group(1) == FA else FA, txt)
    guards = []
    for n in ast.walk(lp):
        if isinstance(n, ast.If) and {x_.id for x_ in ast.walk(n.test) if isinstance(x_, ast.Name)} & {FA, FB}:
            kind = 'continue' if any(isinstance(x, ast.Continue) for x in n.body) else 'block'
            guards.append((ast.unparse(n.test), kind, n))
    def canon(node):
        if isinstance(node, ast.BoolOp):
            return (type(node.op).__name__, frozenset(canon(v) for v in node.values))
        return ast.unparse(node)

    def canon_ren(node):
        if isinstance(node, ast.BoolOp):
            return (type(node.op).__name__, frozenset(canon_ren(v) for v in node.values))
        return ren(ast.unparse(node))
    texts = {(canon(n.test), k) for t, k, n in guards}
    for t, k, n in guards:
        run.check((canon_ren(n.test), k) in texts, 'C10.sym', f.qual, 'guard %s' % t, 'the guard `%s` has its mirror image for the other azimuthal family' % t,
                  'the guard `%s` (%s) has no counterpart `%s`: sine terms are dropped when the cosine list is empty, and an empty sine list is passed on' % (t, k, ren(t)), f.loc(n))
    # each Clenshaw call on a family is dominated by a non-emptiness guard of that family
    parents = {}
    for p in ast.walk(lp):
        for c in ast.iter_child_nodes(p):
            parents[c] = p
    for call in [n for n in ast.walk(lp) if isinstance(n, ast.Call) and ast.unparse(n.func) == 'clenshaw_q2d_der']:
        fam = ast.unparse(call.args[0])
        guarded = False
        p = parents.get(call)
        while p is not None and p is not lp:
            if isinstance(p, ast.If) and fam in ast.unparse(p.test) and 'len(' in ast.unparse(p.test):
                t = ast.unparse(p.test).replace(' ', '')
                if t in ('len(%s)>0' % fam, 'len(%s)!=0' % fam, 'len(%s)>=1' % fam):
                    guarded = True
            p = parents.get(p)
        # or: an earlier `if len(fam) == 0: continue` at the top level of the loop body
        for st in lp.body:
            if st.lineno >= call.lineno:
                break
            if isinstance(st, ast.If) and ast.unparse(st.test).replace(' ', '') == 'len(%s)==0' % fam and any(isinstance(x, ast.Continue) for x in st.body):
                guarded = True
        run.check(guarded, 'C10.sym', f.qual, 'clenshaw on %s' % fam, 'the Clenshaw sum over %s only runs when it is non-empty' % fam,
                  'clenshaw_q2d_der(%s, ...) is reached with an empty coefficient list (cosine-only or sine-only azimuthal content)' % fam, f.loc(call))
    if len(guards) < 1:
        raise AnalysisError('compute_z_zprime_Q2d: no emptiness guards found')


def _mirror_rules_structural(run, db):
    """compute_z_zprime_Q2d: the cosine block and the sine block are mirror images under one renaming of family-local names,
    and every name they share does not depend on either family."""
    f = db.func(Q + 'compute_z_zprime_Q2d')
    lp, FA, FB = _family_loop(f)
    blocks = {}
    for st in lp.body:
        if isinstance(st, ast.If) and not st.orelse:
            t = ast.unparse(st.test).replace(' ', '')
            for fam in (FA, FB):
                if t in ('len(%s)>0' % fam, 'len(%s)!=0' % fam, 'len(%s)>=1' % fam):
                    blocks[fam] = st
    if set(blocks) != {FA, FB}:
        raise AnalysisError('compute_z_zprime_Q2d: the two family blocks `if len(x_coef) > 0:` were not found')
    A, B = blocks[FA], blocks[FB]
    mapping = {}
    mismatch = []

    def walk(x, y):
        if type(x) is not type(y):
            mismatch.append((x, y))
            return
        if isinstance(x, ast.Name):
            if mapping.setdefault(x.id, y.id) != y.id:
                mismatch.append((x, y))
            return
        if isinstance(x, ast.Constant):
            if x.value != y.value:
                mismatch.append((x, y))
            return
        for (fa, va), (fb, vb) in zip(ast.iter_fields(x), ast.iter_fields(y)):
            if fa in ('lineno', 'col_offset', 'end_lineno', 'end_col_offset', 'ctx', 'type_comment'):
                continue
            if isinstance(va, list):
                if not isinstance(vb, list) or len(va) != len(vb):
                    mismatch.append((x, y))
                    return
                for p_, q_ in zip(va, vb):
                    if isinstance(p_, ast.AST):
                        walk(p_, q_)
                    elif p_ != q_:
                        mismatch.append((x, y))
            elif isinstance(va, ast.AST):
                if not isinstance(vb, ast.AST):
                    mismatch.append((x, y))
                    return
                walk(va, vb)
            elif va != vb:
                mismatch.append((x, y))
    for sa_, sb_ in zip(A.body, B.body):
        walk(sa_, sb_)
    if len(A.body) != len(B.body):
        mismatch.append((A, B))
    first = mismatch[0] if mismatch else None
    run.check(not mismatch, 'C10.sym', f.qual, 'mirror blocks', 'the sine block is the cosine block under one consistent renaming of the family-local names',
              'the cosine and sine blocks are not mirror images: `%s` vs `%s`' % ((norm_stmt(first[0]) if isinstance(first[0], ast.stmt) else ast.unparse(first[0])) if first else '',
                                                                                 (norm_stmt(first[1]) if isinstance(first[1], ast.stmt) else ast.unparse(first[1])) if first else ''), f.loc(first[1]) if first else f.loc())
    inj = len(set(mapping.values())) == len(mapping)
    run.check(inj and mapping.get(FA) == FB, 'C10.sym', f.qual, 'renaming', 'the renaming is one-to-one and maps a_coef to b_coef', 'two cosine-side names map to one sine-side name: %s' % mapping, f.loc(B))
    # shared names (mapped to themselves) must not depend on either family
    defs = {}
    for n in ast.walk(lp):
        if isinstance(n, ast.Assign):
            for t in n.targets:
                for x in ast.walk(t):
                    if isinstance(x, ast.Name) and isinstance(x.ctx, ast.Store):
                        defs.setdefault(x.id, set()).update(y.id for y in ast.walk(n.value) if isinstance(y, ast.Name))
        elif isinstance(n, ast.AugAssign) and isinstance(n.target, ast.Name):
            defs.setdefault(n.target.id, set()).update(y.id for y in ast.walk(n.value) if isinstance(y, ast.Name))

    def depends(nm, seen=None):
        seen = seen or set()
        if nm in (FA, FB):
            return nm
        if nm in seen:
            return None
        seen.add(nm)
        for y in defs.get(nm, ()):
            r = depends(y, seen)
            if r:
                return r
        return None
    for nm in sorted(k for k, v in mapping.items() if k == v):
        fam = depends(nm)
        run.check(fam is None, 'C10.sym', f.qual, 'shared name %s' % nm, '`%s` is used by both family blocks and depends on neither coefficient list' % nm,
                  '`%s` is used in BOTH family blocks but is computed from %s: the %s block is steered by the length/content of the other family '
                  '(e.g. the m = 1 correction of the sine sum is applied according to the number of cosine coefficients)' % (nm, fam, 'sine' if fam == FA else 'cosine'), f.loc(B))


def _counter_rules_structural(run, db):
    """compute_z_zprime_Q2d walks (a_m, b_m) for m = 1, 2, ...: the order counter advances on EVERY pass, skipped orders included."""
    from .common import every_pass_executes, loop_carried
    f = db.func(Q + 'compute_z_zprime_Q2d')
    lp, FA, FB = _family_loop(f)
    run.check(ast.unparse(lp.iter).replace(' ', '') == 'zip(ams,bms)', 'C10.sym', f.qual, 'walk', 'cosine and sine coefficient lists are walked together, order by order', 'the families are no longer zipped', f.loc(lp))
    # the azimuthal order counter is the local handed to the Clenshaw sums as their order, whatever it is called
    from ..core.pattern import find
    ctrs = {b_['V_m'] for b_, _ in find(lp, 'clenshaw_q2d_der(V_c, V_m, E_x)')}
    if len(ctrs) != 1:
        raise AnalysisError('compute_z_zprime_Q2d: the order handed to clenshaw_q2d_der is not one local name (%s)' % sorted(ctrs))
    MC = sorted(ctrs)[0]
    is_inc = lambda st: isinstance(st, ast.AugAssign) and isinstance(st.op, ast.Add) and ast.unparse(st.target) == MC and ast.unparse(st.value) == '1'
    incs = [st for st in ast.walk(lp) if is_inc(st)]
    ok, passed = every_pass_executes(lp.body, is_inc)
    pre = [st for st in f.node.body if isinstance(st, ast.Assign) and ast.unparse(st.targets[0]) == MC]
    okinit = len(pre) == 1 and ast.unparse(pre[0].value) == '0' and lp.body and is_inc(lp.body[0])
    uses_before = False
    run.check(len(incs) == 1 and ok and passed and MC in loop_carried(lp), 'C10.sym', f.qual, 'order counter', 'm advances exactly once on every pass (also on passes skipped because both families are empty)',
              'the azimuthal order counter m is not advanced on every pass through the loop (a `continue` is reached before `m += 1`): an order absent from both families no longer advances m, '
              'so every later order is evaluated with too small an m', f.loc(incs[0]) if incs else f.loc(lp))
    # whatever else flows from one azimuthal order to the next is an accumulator (only ever `+=`-ed): a per-order partial sum
    # that survives into the next order is re-used there when that order's family is empty
    carried = loop_carried(lp)
    stale = []
    for nm in sorted(carried):
        stores = [n_ for n_ in ast.walk(lp) if (isinstance(n_, ast.AugAssign) and isinstance(n_.target, ast.Name) and n_.target.id == nm) or
                  (isinstance(n_, ast.Assign) and any(isinstance(x_, ast.Name) and x_.id == nm and isinstance(x_.ctx, ast.Store) for t_ in n_.targets for x_ in ast.walk(t_)))]
        if not all(isinstance(n_, ast.AugAssign) and isinstance(n_.op, ast.Add) for n_ in stores):
            stale.append(nm)
    run.check(not stale, 'C10.sym', f.qual, 'per-order state', 'only the order counter and the running totals (z, dr, dt) flow from one azimuthal order to the next',
              'the per-order values %s may keep their value from an EARLIER azimuthal order (read before they are assigned on some path through the loop body): when a family is absent at '
              'some order after being present at a lower one, the lower order\'s partial sum is re-used with u^m cos/sin(m t) of the new order' % stale, f.loc(lp))
    run.check(okinit, 'C10.sym', f.qual, 'order counter start', 'm starts at 0 and is advanced before it is used, so entry k of the lists is evaluated with m = k + 1',
              'the order counter does not start at 0 / is not advanced first in the pass', f.loc(lp))


PACK_REQUESTS = (
    [(2, 0), (3, 2), (1, -2), (0, 1)],          # all three families, gaps in n
    [(1, 1), (2, -3)],                          # sine orders beyond the last cosine order
    [(0, -2), (2, -2)],                         # sine only
    [(4, 0)],                                   # rotationally symmetric only
    [(1, 3), (0, 3)],                           # cosine only, m = 1, 2 absent, requests not sorted in n
    [(0, 1), (0, -1), (2, 2), (2, -2), (1, 0)],
)


def pack_fixed_rules(run, db):
    """Q2d_nm_c_to_a_b decided for fixed (n, m) lists and symbolic coefficients: the function is interpreted with the requests concrete
    (its densification executed exactly) and every coefficient a symbol; the three returned structures must be the dense layout of the
    documentation: cms[n] for m = 0, ams[m-1][n] for m > 0, bms[m-1][n] for m < 0, zeros in the gaps, lists for m = 1..max|m| (empty
    when an order is absent from a family).  Bounded, independent of how the densification is organised."""
    from .common import norm_interp
    f = db.func(Q + 'Q2d_nm_c_to_a_b')
    n_ok = 0
    skipped = []
    for reqs in PACK_REQUESTS:
        it, dom = norm_interp(db)
        cs = [dom.sym('c%d' % k) for k in range(len(reqs))]
        res = [p for p in it.run(f, kwargs=lambda: {f.params[0]: Tup([Tup([Const(a), Const(b)]) for a, b in reqs], 'list'), f.params[1]: Tup(list(cs), 'list')}) if p.outcome == 'return']
        if len(res) != 1 or not (isinstance(res[0].value, Tup) and len(res[0].value.items) == 3):
            skipped.append('%s: %d returning paths' % (reqs, len(res)))
            continue

        def followed(v, depth):
            if depth == 0:
                return dom.rat(v) is not None
            return isinstance(v, Tup) and all(followed(x, depth - 1) for x in v.items)
        if not (followed(res[0].value.items[0], 1) and followed(res[0].value.items[1], 2) and followed(res[0].value.items[2], 2)):
            skipped.append('%s: a returned structure is not followed' % (reqs,))
            continue

        def dense(pairs):
            if not pairs:
                return []
            out = [Const(0)] * (max(n for n, _ in pairs) + 1)
            for n, c in pairs:
                out[n] = c
            return out
        want_c = dense([(n, c) for (n, m), c in zip(reqs, cs) if m == 0])
        M = max([abs(m) for _, m in reqs if m != 0] or [0])
        want_a = [dense([(n, c) for (n, m), c in zip(reqs, cs) if m == k]) for k in range(1, M + 1)]
        want_b = [dense([(n, c) for (n, m), c in zip(reqs, cs) if m == -k]) for k in range(1, M + 1)]

        def as_list(v):
            return list(v.items) if isinstance(v, Tup) else None

        def same(got, want):
            if got is None or len(got) != len(want):
                return False
            for g, w in zip(got, want):
                if isinstance(w, Const):
                    if not (dom.rat(g) is not None and dom.rat(g).is_zero()):
                        return False
                elif not (dom.rat(g) is not None and dom.rat(g) == dom.rat(w)):
                    return False
            return True
        gc, ga, gb = res[0].value.items
        show = lambda v: repr(v)[:160]
        bad = []
        if not same(as_list(gc), want_c):
            bad.append('the m = 0 coefficients come back as %s' % show(gc))
        for fam, got, want in (('cosine', ga, want_a), ('sine', gb, want_b)):
            gl = as_list(got)
            if gl is None or len(gl) != len(want):
                bad.append('the %s structure has %s lists, expected %d (m = 1..max|m|)' % (fam, len(gl) if gl is not None else 'an unknown number of', len(want)))
                continue
            for k, (g, w) in enumerate(zip(gl, want), start=1):
                if not same(as_list(g), w):
                    bad.append('the %s coefficients of m = %d come back as %s' % (fam, k, show(g)))
        n_ok += 1
        run.check(not bad, 'C10.pack', f.qual, 'requests %s' % (reqs,), 'Q2d_nm_c_to_a_b(%s) is the documented dense layout' % (reqs,),
                  'Q2d_nm_c_to_a_b(%s): %s' % (reqs, '; '.join(bad[:3])), f.loc())
    if skipped and hasattr(run, 'info'):
        run.info('C10.pack: not decided for the fixed requests %s' % '; '.join(skipped))
    return n_ok


def pack_rules(run, db):
    """two independent decisions; a refusal of one is covered by the other"""
    decided = pack_fixed_rules(run, db)
    try:
        _pack_walk_rules(run, db)
    except AnalysisError:
        if not decided:
            raise


def _pack_walk_rules(run, db):
    f = db.func(Q + 'Q2d_nm_c_to_a_b')
    # the output lists cover m = 1 .. max KEY of both dictionaries
    # the packing walk is whatever consumes range(1, <bound> + 1) -- a for loop or comprehensions, directly or through a local bound
    # to the range -- and looks its variable up in the cosine / sine dictionaries (D[m] or D.get(m, ...))
    rcalls = [n for n in walk_no_nested(f.node) if isinstance(n, ast.Call) and ast.unparse(n.func) == 'range' and len(n.args) == 2]
    aliases = {}
    for n in walk_no_nested(f.node):
        if isinstance(n, ast.Assign) and isinstance(n.targets[0], ast.Name) and n.value in rcalls:
            aliases[n.targets[0].id] = n.value
    walks = []          # (range call, loop variable, [nodes in which the variable is used])
    for n in ast.walk(f.node):
        gens = []
        if isinstance(n, ast.For):
            gens = [(n.iter, n.target, n.body)]
        elif isinstance(n, (ast.ListComp, ast.GeneratorExp, ast.SetComp, ast.DictComp)):
            gens = [(g.iter, g.target, [n]) for g in n.generators]
        for it_, tg, body in gens:
            rc = it_ if it_ in rcalls else aliases.get(it_.id) if isinstance(it_, ast.Name) else None
            if rc is not None and isinstance(tg, ast.Name):
                walks.append((rc, tg.id, body))
    dicts, used_rc = [], []
    for rc, var, body in walks:
        for b_ in body:
            for x_ in ast.walk(b_):
                d_ = None
                if isinstance(x_, ast.Subscript) and isinstance(x_.value, ast.Name) and isinstance(x_.slice, ast.Name) and x_.slice.id == var:
                    d_ = x_.value.id
                if isinstance(x_, ast.Call) and isinstance(x_.func, ast.Attribute) and x_.func.attr == 'get' and isinstance(x_.func.value, ast.Name) and x_.args \
                        and isinstance(x_.args[0], ast.Name) and x_.args[0].id == var:
                    d_ = x_.func.value.id
                if d_ is not None:
                    if d_ not in dicts:
                        dicts.append(d_)
                    if rc not in used_rc:
                        used_rc.append(rc)
    if len(dicts) != 2 or len(used_rc) != 1:
        raise AnalysisError('Q2d_nm_c_to_a_b: the walk over the azimuthal orders (range(1, bound + 1) looked up in the cosine and sine dictionaries) was not found: dictionaries %s' % dicts)
    DA, DB = dicts

    class _R:
        pass
    rng = [_R()]
    rng[0].iter = used_rc[0]
    hi = ast.unparse(rng[0].iter.args[-1]).replace(' ', '')
    lo = ast.unparse(rng[0].iter.args[0]).replace(' ', '') if len(rng[0].iter.args) > 1 else '0'
    bound = hi[:-2] if hi.endswith('+1') else None
    bdefs = [n for n in walk_no_nested(f.node) if isinstance(n, ast.Assign) and bound and ast.unparse(n.targets[0]) == bound]
    okb = lo == '1' and len(bdefs) == 1
    keysrc = set()
    counts = []
    if okb:
        for n in ast.walk(bdefs[0].value):
            if isinstance(n, ast.Call) and ast.unparse(n.func) == 'len' and n.args and ast.unparse(n.args[0]) in (DA, DB):
                counts.append(ast.unparse(n))
            if isinstance(n, ast.Starred) or (isinstance(n, ast.Call) and ast.unparse(n.func) in ('max', 'list', 'sorted', 'tuple')):
                inner = n.value if isinstance(n, ast.Starred) else (n.args[0] if n.args else None)
                t = ast.unparse(inner).replace(' ', '') if inner is not None else ''
                for d in (DA, DB):
                    if t in (d, d + '.keys()'):
                        keysrc.add(d)
        okb = isinstance(bdefs[0].value, ast.Call) and ast.unparse(bdefs[0].value.func) == 'max'
    run.check(okb and keysrc == {DA, DB} and not counts, 'C10.pack', f.qual, 'azimuthal range', 'the packed lists run over m = 1 .. max(keys of the cosine and sine dictionaries)',
              'the packed lists run over range(%s, %s) with %s = %s: %s -- azimuthal orders above that bound are silently dropped when the requested orders are sparse' %
              (lo, hi, bound, ast.unparse(bdefs[0].value) if bdefs else '?', ('a COUNT of dictionary entries (%s) is used as a bound on the KEYS' % ', '.join(counts)) if counts else 'the keys of %s are not consulted' % sorted({DA, DB} - keysrc)), f.loc(bdefs[0]) if bdefs else f.loc())
    calls = [n for n in walk_no_nested(f.node) if isinstance(n, ast.Call) and isinstance(n.func, ast.Name) and n.func.id in ('max', 'min')]
    if not calls:
        raise AnalysisError('Q2d_nm_c_to_a_b: no max() found')
    for c in calls:
        src = ast.unparse(c)
        single = len(c.args) == 1 and not any(k.arg == 'default' for k in c.keywords)
        from_keys = '.keys()' in src
        literal_pad = False
        if len(c.args) == 1 and isinstance(c.args[0], (ast.List, ast.Tuple)) and any(not isinstance(e, ast.Starred) for e in c.args[0].elts):
            literal_pad = True
        run.check(not (single and from_keys) or literal_pad, 'C10.pack', f.qual, src, '%s cannot be handed an empty sequence' % src,
                  '%s raises ValueError when that azimuthal family is empty (cosine-only or sine-only coefficient sets)' % src, f.loc(c))


def lstsq_rules(run, db):
    """polynomials.lstsq: the right-hand side and the design matrix are restricted by ONE finite-mask, taken from the data as
    given, and paired sample by sample (C-order flattening on both sides) -- decided in the SHAPE domain with mask provenance,
    so helper functions, local names and the spelling of the flattening do not matter."""
    from ..domains.shape import ShapeDomain, Sh, Scalar
    from ..core.interp import Interp, Value, Slice

    class Mask(Value):
        def __init__(self, dims, src, early_cast, flat_ok=True):
            self.dims, self.src, self.early_cast, self.flat_ok = tuple(dims), src, early_cast, flat_ok

        def __repr__(self):
            return 'Mask%r' % (self.dims,)

    class LDomain(ShapeDomain):
        def __init__(self):
            ShapeDomain.__init__(self)
            self.tag = {}            # id(array) -> the Mask it was restricted by
            self.cast = set()        # ids of arrays that are a cast / arithmetic image of another array
            self.keep = []
            self.solves = []

        def _new(self, dims, like=None, cast=False):
            r = Sh(tuple(dims))
            self.keep.append(r)
            if like is not None and id(like) in self.tag:
                self.tag[id(r)] = self.tag[id(like)]
            if cast or (like is not None and id(like) in self.cast):
                self.cast.add(id(r))
            return r

        def call_ext(self, dotted, args, kwargs, node):
            last = dotted.rsplit('.', 1)[-1]
            a0 = args[0] if args else None
            if last == 'isfinite' and isinstance(a0, Sh):
                m = Mask(a0.dims, a0, id(a0) in self.cast)
                self.keep.append(m)
                return m
            if last == 'lstsq' and len(args) >= 2:
                self.solves.append((args[0], args[1], node))
                k = args[0].dims[-1] if isinstance(args[0], Sh) and args[0].dims else 'K'
                return Tup([self._new((k,)), Scalar(), Scalar(), self._new((k,))])
            if last in ('asarray', 'asanyarray', 'array', 'atleast_1d', 'ascontiguousarray') and isinstance(a0, Sh):
                return a0
            if last in ('ravel',) and isinstance(a0, Mask):
                return self.method(a0, 'ravel', list(args[1:]), kwargs, node)
            return ShapeDomain.call_ext(self, dotted, args, kwargs, node)

        def method(self, v, name, args, kwargs, node):
            if isinstance(v, Mask) and name in ('ravel', 'flatten', 'reshape'):
                order = kwargs.get('order')
                bad = order is not None and not (isinstance(order, Const) and order.v in ('C', None))
                if name == 'reshape' and not (len(args) == 1 and isinstance(args[0], Const) and args[0].v == -1):
                    return Unknown('mask reshape')
                if bad:
                    self.interp.emit('layout-order', what='mask.%s(order=%r)' % (name, getattr(order, 'v', order)), node=node)
                m = Mask(('*'.join(str(d) for d in v.dims),), v.src, v.early_cast, v.flat_ok and not bad)
                self.keep.append(m)
                return m
            if isinstance(v, Sh) and name == 'astype':
                return self._new(v.dims, like=v, cast=True)
            r = ShapeDomain.method(self, v, name, args, kwargs, node)
            if isinstance(r, Sh) and isinstance(v, Sh) and r is not v:
                self.keep.append(r)
                if id(v) in self.tag:
                    self.tag[id(r)] = self.tag[id(v)]
                if id(v) in self.cast:
                    self.cast.add(id(r))
            return r

        def getattr(self, v, name, node):
            r = ShapeDomain.getattr(self, v, name, node)
            if isinstance(r, Sh) and isinstance(v, Sh) and r is not v:
                self.keep.append(r)
                if id(v) in self.tag:
                    self.tag[id(r)] = self.tag[id(v)]
            return r

        def binop(self, op, a, b, node):
            r = ShapeDomain.binop(self, op, a, b, node)
            if isinstance(r, Sh):
                self.keep.append(r)
                self.cast.add(id(r))
            return r

        def subscript(self, v, idx, node):
            if isinstance(v, Sh) and isinstance(idx, Mask):
                # a[mask]: a boolean mask indexes the LEADING axes of the array
                if tuple(idx.dims) != tuple(v.dims[:len(idx.dims)]):
                    self.interp.emit('mask-mismatch', array=v.dims, mask=idx.dims, node=node)
                r = self._new(('V',) + tuple(v.dims[len(idx.dims):]), cast=id(v) in self.cast)
                self.tag[id(r)] = idx
                return r
            if isinstance(v, Sh) and isinstance(idx, Tup) and any(isinstance(x, Mask) for x in idx.items):
                dims, k, tagm = [], 0, None
                for x in idx.items:
                    if isinstance(x, Mask):
                        if tuple(v.dims[k:k + len(x.dims)]) != x.dims:
                            self.interp.emit('mask-mismatch', array=v.dims, mask=x.dims, node=node)
                        dims.append('V')
                        k += len(x.dims)
                        tagm = x
                    elif isinstance(x, Slice):
                        dims.append(v.dims[k])
                        k += 1
                    else:
                        return Unknown('mixed index')
                r = self._new(tuple(dims) + tuple(v.dims[k:]), cast=id(v) in self.cast)
                self.tag[id(r)] = tagm
                return r
            return ShapeDomain.subscript(self, v, idx, node)
    f = db.func(P + 'lstsq')
    dom = LDomain()
    it = Interp(db, dom)
    holder = {}

    def kw():
        holder['data'] = Sh(('r', 'c'))
        return {'modes': Sh(('K', 'r', 'c')), 'data': holder['data']}
    res = [p for p in it.run(f, kwargs=kw) if p.outcome == 'return']
    if not res or not dom.solves:
        raise AnalysisError('polynomials.lstsq: no returning path reaches numpy.linalg.lstsq')
    for p in res:
        lay = [e for e in p.events if e['kind'] in ('layout-order', 'mask-mismatch', 'reshape-reorders')]
        run.check(not lay, 'C10.lstsq', f.qual, 'sample pairing', 'the mask, the data and the modes are flattened in the same (C) order',
                  'the samples of data and modes are paired through %s: for arrays that are not C-ordered the mask no longer selects the same samples on both sides'
                  % (lay[0].get('what') or lay[0]['kind'] if lay else ''), f.loc(lay[0]['node']) if lay else f.loc())
    A, b, node = dom.solves[-1]
    ta, tb = dom.tag.get(id(A)), dom.tag.get(id(b))
    ok = isinstance(A, Sh) and isinstance(b, Sh) and A.dims == ('V', 'K') and b.dims == ('V',)
    run.check(ok, 'C10.lstsq', f.qual, 'solve', 'lstsq(design matrix of shape (valid samples, modes), valid data)',
              'least squares is solved with a matrix of shape %r and a right-hand side of shape %r (expected (valid, modes) and (valid,))' % (getattr(A, 'dims', None), getattr(b, 'dims', None)), f.loc(node))
    same = ta is not None and tb is not None and ta.src is tb.src and ta.src is holder.get('data')
    run.check(same, 'C10.lstsq', f.qual, 'same mask', 'data and the flattened modes are restricted by the same finite-mask of the data',
              'data and modes are not restricted by one finite-mask of the data (the matrix is restricted by %r, the right-hand side by %r)' % (ta, tb), f.loc(node))
    early = (ta is not None and ta.early_cast) or (tb is not None and tb.early_cast)
    run.check(not early, 'C10.lstsq', f.qual, 'mask before cast', 'the finite-mask is computed from the data as given (no cast or arithmetic before it)',
              'the data is rewritten (cast / arithmetic) before the finite-mask is taken: with integer or boolean modes the cast truncates the data and turns NaN/inf samples into ordinary numbers that are no longer ignored', f.loc(node))
    from . import c06
    from .c06values import modal_sum_decided
    try:
        c06.sum_rules(run, db, rule='C10.tensordot')
    except AnalysisError as e:
        n_, bad_ = modal_sum_decided(db)
        if not n_ or bad_:
            raise
        run.info('the shape reading of sum_of_2d_modes does not read this organisation (%s); the sums were decided on values (%d instances)' % (str(e)[:140], n_))
        run.credit('C10.tensordot', 2, 'shape reading refused; decided on values')


def check(run, db, tier):
    run.trust('NORM with uninterpreted recurrence coefficients; Clenshaw summation: S = alpha_0 P_0 with alpha_n = c_n + (a_n x + b_n) alpha_(n+1) - c_(n+1) alpha_(n+2)',
              'interval reasoning over integer lower bounds refined by failed equality guards (len(c) >= 1, M != 0 => M >= 1)')
    run.assume('conditioning / rank of the least-squares problem is not decided (values)')
    run.rule('C10.tensordot', 'sum_of_2d_modes contracts axis 0 of the modes with the weights')
    run.rule('C10.clenshaw', 'Clenshaw steps have the textbook form with coefficient indices (a,b from n; c from n+1); the initial statements are the step restricted to the top indices; the sweep reaches index 0')
    run.rule('C10.len1', 'with a coefficient vector of length 1 no negative index/order is formed and no missing entry is read')
    run.rule('C10.sym', 'cosine and sine azimuthal families are guarded symmetrically; no Clenshaw sum runs on an empty family')
    run.rule('C10.pack', 'the coefficient packer never takes max() of a possibly empty key set; its azimuthal range is bounded by the maximum KEY of both dictionaries')
    run.rule('C10.lstsq', 'data and modes are restricted by one and the same finite-mask before the solve')
    run.rule('C10.basis', 'Q->P change of basis (Qbfs, Q2d): every entry is the transposed Q recurrence with the coefficient indices of its own order; initial entries are the step restricted; the sweep reaches 0')
    run.rule('C10.assembly', 'Clenshaw results are alpha_0 P_0 + alpha_1 (P_1 - L_0 P_0) with the value routine\'s P_0, P_1, L_0; the effective Q2d coefficients of the special orders reproduce the published starting polynomials and the m = 1 correction is their residual')
    from . import c12
    from .c02 import Proxy
    run.group(c12.coord_pure_rules, Proxy(run, {'C12.cache': 'C10.lstsq'}), db)
    from . import clenshawfixed as CF
    run.group(CF.decided, run, db)
    guarded = {clenshaw_rules: (('jacobi_sum_clenshaw', 'clenshaw_qbfs', 'compute_z_zprime_Qcon', 'compute_z_zprime_Q2d'), 'C10.clenshaw', 12),
               assembly_rules: (('clenshaw_qbfs', 'compute_z_zprime_Qbfs', 'compute_z_zprime_Qcon', 'compute_z_zprime_Q2d'), 'C10.assembly', 7),
               len1_rules: (('jacobi_sum_clenshaw', 'clenshaw_qbfs', 'compute_z_zprime_Qbfs', 'compute_z_zprime_Qcon', 'compute_z_zprime_Q2d'), 'C10.len1', 4)}
    for fn in (clenshaw_rules, basis_rules, assembly_rules, len1_rules, sym_rules, mirror_rules, counter_rules, pack_rules, lstsq_rules):
        run.group(CF.with_fallback(fn, *guarded[fn]) if fn in guarded else fn, run, db)
    from .c10values import lstsq_value_rules
    from .c06values import modal_sum_value_rules
    run.group(lstsq_value_rules, run, db)
    run.group(modal_sum_value_rules, run, db, 'C10.tensordot')
    run.forgive('modal_sum_value_rules', ['lstsq_rules'])
    run.forgive('lstsq_value_rules', ['lstsq_rules'])
    run.require_instances('C10.basis', 9)
    run.require_instances('C10.assembly', 7)
    run.require_instances('C10.clenshaw', 12)
    run.require_instances('C10.len1', 4)


def _deferring(fn, what):
    def rule(run, db):
        try:
            fn(run, db)
        except AnalysisError as e:
            # the loop over the two families is not in the form this structural rule reads (helper extracted, enumerate(...)):
            # the property is decided by the interpretation of the whole routine (C10.assembly / C10.sym cases above)
            run.ok('C10.sym', Q + 'compute_z_zprime_Q2d', '%s: not in the two-block form (%s); decided by interpretation of the routine on families of different lengths' % (what, str(e)[:80]))
    rule.__name__ = fn.__name__.strip('_').replace('_structural', '')
    return rule


sym_rules = _deferring(_sym_rules_structural, 'symmetric guards')
mirror_rules = _deferring(_mirror_rules_structural, 'mirror blocks')
counter_rules = _deferring(_counter_rules_structural, 'order counter')
